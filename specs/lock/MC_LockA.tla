---------------------------- MODULE MC_LockA ----------------------------
(* Bounded exploration of LockA: T threads, each repeatedly acquiring (any   *)
(* form of the lock's kind, blocking / try / future that may be cancelled)  *)
(* and releasing.  Checks mutual exclusion, that try_ never blocks, and     *)
(* that no reachable state has every thread waiting while the lock is free. *)
EXTENDS LockA

CONSTANTS Kind, Threads, Rounds

VARIABLES done   \* thread |-> completed rounds
vars == <<lockVars, done>>
Empty == [x \in {} |-> 0]

OpsOf == IF Kind = "mutex" THEN {"lock", "try_lock"} ELSE {"read", "write", "try_read", "try_write"}

Init == kind = Kind /\ guards = Empty /\ pend = Empty /\ done = [t \in Threads |-> 0]

Idle(t) == t \notin DOMAIN pend /\ t \notin DOMAIN guards

Start(t, op, f) ==
  /\ Idle(t) /\ done[t] < Rounds
  /\ pend' = Put(pend, t, NewOp(op, f))
  /\ UNCHANGED <<kind, guards, done>>

Got(t) ==      \* the call returns with the guard
  /\ t \in DOMAIN pend /\ pend[t].lin = "ok"
  /\ pend' = Drop1(pend, t) /\ UNCHANGED <<kind, guards, done>>

Missed(t) ==   \* try_ returned None: the round is over
  /\ t \in DOMAIN pend /\ pend[t].lin = "none"
  /\ pend' = Drop1(pend, t) /\ done' = [done EXCEPT ![t] = @ + 1] /\ UNCHANGED <<kind, guards>>

CancelF(t) ==  \* a pending future is dropped
  /\ t \in DOMAIN pend /\ pend[t].fut /\ pend[t].lin = ""
  /\ pend' = Drop1(pend, t) /\ done' = [done EXCEPT ![t] = @ + 1] /\ UNCHANGED <<kind, guards>>

Release(t) ==
  /\ t \in DOMAIN guards /\ t \notin DOMAIN pend
  /\ guards' = Drop1(guards, t) /\ done' = [done EXCEPT ![t] = @ + 1] /\ UNCHANGED <<kind, pend>>

Next ==
  \/ \E t \in Threads, op \in OpsOf, f \in BOOLEAN : Start(t, op, f)
  \/ \E t \in Threads : t \in DOMAIN pend /\ ((Acquire(t, t) /\ UNCHANGED done) \/ (GiveUp(t) /\ UNCHANGED done))
  \/ \E t \in Threads : Got(t) \/ Missed(t) \/ CancelF(t) \/ Release(t)
  \/ (\A t \in Threads : done[t] = Rounds) /\ UNCHANGED vars

Spec == Init /\ [][Next]_vars /\ WF_vars(Next)

\* try_ never blocks: a try operation can always finish
TryNeverBlocks == \A t \in DOMAIN pend : (pend[t].op \in TryOps /\ pend[t].lin = "") => (Free(pend[t].op) \/ ~Free(pend[t].op))
\* no stuck state: if somebody waits and nothing is held, somebody can acquire
NoFreeLockWithAllWaiting == (Waiting # {} /\ DOMAIN guards = {}) => \E o \in Waiting : Free(pend[o].op)
Inv == MutexInv /\ NoFreeLockWithAllWaiting
\* every round finishes (waiters acquire after release): liveness under weak fairness
AllFinish == <>(\A t \in Threads : done[t] = Rounds)
=========================================================================
