---------------------------- MODULE LockTrace ----------------------------
(* Trace validation of lock histories against LockA (idiom of ChanTrace).  *)
EXTENDS LockA, Json, IOUtils, SequencesExt

Rec == ndJsonDeserialize(IOEnv.TRACE)
N == Len(Rec)
VARIABLES l
vars == <<lockVars, l>>
Max2(a, b) == IF a > b THEN a ELSE b
Track == TLCSet(1, Max2(TLCGet(1), l))
\* A state that breaks a Layer A invariant is not an explanation: it is pruned (and does not
\* count as progress), so an invariant can only fail the validation by leaving no explanation.
TrackOk == MutexInv /\ Track /\ (l = N + 1 => PrintT(<<"ACCEPTED", N>>) /\ TLCSet("exit", TRUE))
R == Rec[l]
Is(k) == l <= N /\ R.k = k
Next1 == l' = l + 1
SeqToSet(s) == {s[i] : i \in 1..Len(s)}
Empty == [x \in {} |-> 0]

Init == TLCSet(1, 0) /\ l = 1 /\ kind = "mutex" /\ guards = Empty /\ pend = Empty

New == Is("new") /\ kind' = R.kind /\ guards' = Empty /\ pend' = Empty /\ Next1

Call ==
  /\ Is("call") /\ R.o \notin DOMAIN pend
  /\ pend' = Put(pend, R.o, NewOp(R.op, R.fut))
  /\ UNCHANGED <<kind, guards>> /\ Next1

\* returns with a guard (res ok, guard id g) or, for try_, without (res none)
Ret ==
  /\ Is("ret") /\ R.o \in DOMAIN pend
  /\ pend[R.o].lin = R.res
  /\ R.res = "ok" => pend[R.o].g = R.g
  /\ pend' = Drop1(pend, R.o)
  /\ UNCHANGED <<kind, guards>> /\ Next1

PollPending ==
  /\ Is("pend") /\ R.o \in DOMAIN pend /\ pend[R.o].fut
  /\ pend' = [pend EXCEPT ![R.o] = [@ EXCEPT !.started = TRUE, !.woken = FALSE]]
  /\ UNCHANGED <<kind, guards>> /\ Next1

Wake ==
  /\ Is("wake")
  /\ pend' = IF R.o \in DOMAIN pend THEN [pend EXCEPT ![R.o] = [@ EXCEPT !.woken = TRUE]] ELSE pend
  /\ UNCHANGED <<kind, guards>> /\ Next1

\* a pending lock future is dropped: it must not hold the lock (a guard it
\* acquired silently would be lost with it)
Cancel ==
  /\ Is("cancel") /\ R.o \in DOMAIN pend /\ pend[R.o].fut
  /\ pend[R.o].lin = ""
  /\ pend' = Drop1(pend, R.o)
  /\ UNCHANGED <<kind, guards>> /\ Next1

\* Guard g is released: `relcall` is recorded before the guard is dropped, `rel`
\* after; the release takes effect at a silent step in between (sequential
\* drivers record only `rel`, which then does both).
RelCall ==
  /\ Is("relcall") /\ R.g \in DOMAIN guards
  /\ guards' = [guards EXCEPT ![R.g] = IF @ = "x" THEN "xr" ELSE "rr"]
  /\ UNCHANGED <<kind, pend>> /\ Next1
RelLin(g) ==
  /\ g \in DOMAIN guards /\ guards[g] \in {"xr", "rr"}
  /\ guards' = Drop1(guards, g) /\ UNCHANGED <<kind, pend>>
Rel ==
  /\ Is("rel")
  /\ IF R.g \in DOMAIN guards
       THEN guards[R.g] \in {"x", "r"} /\ guards' = Drop1(guards, R.g)
       ELSE UNCHANGED guards                      \* already released silently after relcall
  /\ UNCHANGED <<kind, pend>> /\ Next1

\* Nothing is running.  C10: no waiter stays blocked while the lock is free for
\* it -- except a reader that is held back by a queued writer (writer
\* preference) provided that writer itself is not stuck; and if pending futures
\* could acquire, one of them has been woken.
Grantable(o) == pend[o].lin = "" /\ Free(pend[o].op)
HeldBackByWriter(o) == pend[o].op \in ReadOps /\ WaitingWriters # {}
Quiesce ==
  /\ Is("quiesce")
  /\ LET blocked == SeqToSet(R.blocked)
         futs == {o \in DOMAIN pend : pend[o].fut /\ pend[o].started /\ pend[o].lin = ""}
         stuck == blocked \cup futs
         progress == \E o \in futs : pend[o].woken      \* somebody will be polled
     IN
     /\ \A o \in blocked : o \in DOMAIN pend /\ pend[o].lin = ""
     /\ \A o \in stuck : (Grantable(o) /\ ~HeldBackByWriter(o)) => progress
     \* (a reader held back by a queued writer is excused: that writer is either waiting
     \*  legitimately for the current readers, or is itself caught by the line above)
  /\ UNCHANGED lockVars /\ Next1

End == Is("end") /\ DOMAIN guards = {} /\ DOMAIN pend = {} /\ UNCHANGED lockVars /\ Next1

LinStep ==
  /\ l <= N
  /\ \/ \E o \in DOMAIN pend : Acquire(o, o)          \* the guard id of an operation is its own id
     \/ \E o \in DOMAIN pend : GiveUp(o)
     \/ \E g \in DOMAIN guards : RelLin(g)
  /\ UNCHANGED l

Hung == (Is("hung") \/ Is("inconclusive")) /\ UNCHANGED lockVars /\ Next1

\* the waker of an earlier poll (replaced by a re-poll with another waker) was invoked: it
\* wakes nobody, so it does not count as waking the operation
WakeStale == Is("wake_stale") /\ UNCHANGED lockVars /\ Next1

Next ==
  \/ LinStep \/ WakeStale \/ Hung \/ RelCall \/ New \/ Call \/ Ret \/ PollPending \/ Wake \/ Cancel \/ Rel \/ Quiesce \/ End
Spec == Init /\ [][Next]_vars

Accepted ==
  IF TLCGet(1) = N + 1 THEN TRUE
  ELSE /\ PrintT(<<"REJECT", TLCGet(1), ToJson(Rec[TLCGet(1)])>>) /\ FALSE
=========================================================================
