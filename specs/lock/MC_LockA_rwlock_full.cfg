SPECIFICATION Spec
CONSTANTS
  Kind = "rwlock"
  Threads = {1, 2, 3}
  Rounds = 2
INVARIANT Inv
PROPERTY AllFinish
