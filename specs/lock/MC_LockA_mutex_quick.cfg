SPECIFICATION Spec
CONSTANTS
  Kind = "mutex"
  Threads = {1, 2}
  Rounds = 1
INVARIANT Inv
PROPERTY AllFinish
