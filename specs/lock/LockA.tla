------------------------------ MODULE LockA ------------------------------
(***************************************************************************)
(* Layer A for fibre::sync::HybridMutex / HybridRwLock (C10), written from  *)
(* the property statement: a mutex or write guard never coexists with any   *)
(* other guard of the same lock, read guards may coexist; try_ variants     *)
(* never block; waiters (threads and futures) acquire after release;        *)
(* dropping a pending lock future neither corrupts the queue nor loses the  *)
(* wakeup owed to the next waiter.                                          *)
(***************************************************************************)
EXTENDS Naturals, Sequences, FiniteSets, TLC

VARIABLES
  kind,     \* "mutex" | "rwlock"
  guards,   \* guard id |-> "x" (mutex / write) | "r" (read)
  pend      \* operation id |-> [op, lin, g, fut, started, woken]

lockVars == <<kind, guards, pend>>

ExclOps == {"lock", "write", "try_lock", "try_write"}
ReadOps == {"read", "try_read"}
TryOps == {"try_lock", "try_read", "try_write"}

\* ("xr"/"rr": a guard whose release has been announced but has not taken effect yet)
Writers == {g \in DOMAIN guards : guards[g] \in {"x", "xr"}}
Readers == {g \in DOMAIN guards : guards[g] \in {"r", "rr"}}

\* C10 MutualExclusion
MutexInv == /\ Cardinality(Writers) <= 1
            /\ Writers # {} => Readers = {}

\* could the lock be granted to an operation of this kind now?
Free(op) == IF op \in ExclOps THEN DOMAIN guards = {} ELSE Writers = {}

NewOp(op, isFut) == [op |-> op, lin |-> "", g |-> 0, fut |-> isFut, started |-> ~isFut, woken |-> FALSE]

Put(f, k, v) == [x \in DOMAIN f \cup {k} |-> IF x = k THEN v ELSE f[x]]
Drop1(f, k) == [x \in DOMAIN f \ {k} |-> f[x]]

\* the operation acquires: guard id g becomes held
Acquire(o, g) ==
  /\ pend[o].lin = "" /\ Free(pend[o].op) /\ g \notin DOMAIN guards
  /\ guards' = Put(guards, g, IF pend[o].op \in ExclOps THEN "x" ELSE "r")
  /\ pend' = [pend EXCEPT ![o] = [@ EXCEPT !.lin = "ok", !.g = g]]
  /\ UNCHANGED kind

\* a try_ variant gives up: only when the lock was not grantable at some point of
\* the call (exact when nothing overlaps), it never blocks
GiveUp(o) ==
  /\ pend[o].lin = "" /\ pend[o].op \in TryOps
  /\ \/ ~Free(pend[o].op)
     \/ (DOMAIN pend \ {o}) # {}
     \/ \E g \in DOMAIN guards : guards[g] \in {"xr", "rr"}   \* a release in progress overlaps too
  /\ pend' = [pend EXCEPT ![o] = [@ EXCEPT !.lin = "none"]]
  /\ UNCHANGED <<kind, guards>>

Waiting == {o \in DOMAIN pend : pend[o].lin = "" /\ pend[o].op \notin TryOps}
WaitingWriters == {o \in Waiting : pend[o].op \in ExclOps}
=========================================================================
