SPECIFICATION Spec
CONSTRAINT Track
INVARIANT MutexInv
POSTCONDITION Accepted
CHECK_DEADLOCK FALSE
