SPECIFICATION Spec
CONSTANTS
  Kind = "rwlock"
  Threads = {1, 2}
  Rounds = 1
INVARIANT Inv
PROPERTY AllFinish
