SPECIFICATION Spec
CONSTANTS
  Kind = "mutex"
  Threads = {1, 2, 3}
  Rounds = 2
INVARIANT Inv
PROPERTY AllFinish
