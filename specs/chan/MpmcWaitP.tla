----------------------------- MODULE MpmcWaitP -----------------------------
(* Layer P: the waiter / disconnect protocol of the lock-based mpmc channel
   (channels/src/mpmc_v2: core.rs try_send_core / try_recv_core,
   sync_impl.rs recv_sync, mod.rs Sender::close_internal).  All channel state
   lives under one mutex (`internal`); a parked receiver is represented in the
   waiter list by a pointer to its state flag:
       W  waiting      S  an item was announced to it (it must retry)
       C  the last sender left (close_internal)
   Receivers loop:   try (pop / Disconnected / Empty)  ->  lock, re-check, enqueue waiter
                     ->  wait until the flag is not W  ->  ...
   One sender sends Items values (the buffer is large enough, senders never
   block here) and is dropped; `Priority 1` of try_send_core announces each
   value to one waiting receiver (flag S, removed from the list) and queues it.

   Pinned = TRUE is the code as pinned: a receiver woken with flag C returns
   Disconnected at once.  TLC finds finding F34: the last sender leaves while a
   value announced to ANOTHER receiver is still queued; the closed receiver
   reports Disconnected on a channel that is not drained (MC_MpmcWaitP_pinned.cfg).
   Pinned = FALSE is the repaired code (fix af629bb): the closed receiver makes a
   fresh attempt, which reports Disconnected only on an empty queue.

   Checked: DiscDrained (a receiver reports Disconnected only when every value
   sent has been taken and the sender is gone), NoLoss (at the end every value was
   received exactly once, in order per receiver), deadlock freedom. *)
EXTENDS Naturals, Sequences, FiniteSets, TLC

CONSTANTS Receivers, Items, Pinned

VARIABLES queue, senderAlive, sent, waiters, flag, rpc, got, discBad

vars == <<queue, senderAlive, sent, waiters, flag, rpc, got, discBad>>

Init ==
  /\ queue = <<>> /\ senderAlive = TRUE /\ sent = 0 /\ waiters = <<>>
  /\ flag = [r \in Receivers |-> "W"]
  /\ rpc = [r \in Receivers |-> "try"] /\ got = [r \in Receivers |-> <<>>] /\ discBad = FALSE

\* ---- sender ----
\* try_send_core under the lock: announce to the first waiting receiver (if any), queue the value
Send ==
  /\ senderAlive /\ sent < Items
  /\ sent' = sent + 1
  /\ queue' = Append(queue, sent + 1)
  /\ IF waiters # <<>>
       THEN /\ flag' = [flag EXCEPT ![Head(waiters)] = "S"]
            /\ waiters' = Tail(waiters)
       ELSE UNCHANGED <<flag, waiters>>
  /\ UNCHANGED <<senderAlive, rpc, got, discBad>>

\* the last sender is dropped: every receiver still waiting is told so (close_internal)
DropSender ==
  /\ senderAlive /\ sent = Items
  /\ senderAlive' = FALSE
  /\ flag' = [r \in Receivers |-> IF \E i \in 1..Len(waiters) : waiters[i] = r THEN "C" ELSE flag[r]]
  /\ UNCHANGED <<queue, sent, waiters, rpc, got, discBad>>

\* ---- receiver r ----
Disc(r) ==
  /\ rpc' = [rpc EXCEPT ![r] = "done"]
  /\ discBad' = (discBad \/ queue # <<>> \/ senderAlive)

\* Phase 1: try_recv_core
Try(r) ==
  /\ rpc[r] = "try"
  /\ IF queue # <<>>
       THEN /\ got' = [got EXCEPT ![r] = Append(@, Head(queue))] /\ queue' = Tail(queue)
            /\ UNCHANGED <<rpc, discBad>>
       ELSE /\ UNCHANGED <<got, queue>>
            /\ IF ~senderAlive THEN Disc(r)
                               ELSE rpc' = [rpc EXCEPT ![r] = "enq"] /\ UNCHANGED discBad
  /\ UNCHANGED <<senderAlive, sent, waiters, flag>>

\* Phase 3: lock, re-check, commit to parking
Enq(r) ==
  /\ rpc[r] = "enq"
  /\ IF queue # <<>>
       THEN rpc' = [rpc EXCEPT ![r] = "try"] /\ UNCHANGED <<waiters, flag, discBad>>
       ELSE IF ~senderAlive
              THEN Disc(r) /\ UNCHANGED <<waiters, flag>>
              ELSE /\ waiters' = Append(waiters, r) /\ flag' = [flag EXCEPT ![r] = "W"]
                   /\ rpc' = [rpc EXCEPT ![r] = "wait"] /\ UNCHANGED discBad
  /\ UNCHANGED <<queue, senderAlive, sent, got>>

\* Phase 4: the wait ends when the flag changed
Wake(r) ==
  /\ rpc[r] = "wait" /\ flag[r] # "W"
  /\ waiters' = SelectSeq(waiters, LAMBDA x : x # r)
  /\ IF flag[r] = "C" /\ Pinned
       THEN Disc(r)                                           \* pinned code: Disconnected at once
       ELSE rpc' = [rpc EXCEPT ![r] = "try"] /\ UNCHANGED discBad   \* retry (S, or C after the fix)
  /\ UNCHANGED <<queue, senderAlive, sent, flag, got>>

AllDone == ~senderAlive /\ \A r \in Receivers : rpc[r] = "done"
Finished == AllDone /\ UNCHANGED vars

Next == Send \/ DropSender \/ (\E r \in Receivers : Try(r) \/ Enq(r) \/ Wake(r)) \/ Finished
Spec == Init /\ [][Next]_vars

\* ---- properties ----
DiscDrained == ~discBad
Received == UNION {{got[r][i] : i \in 1..Len(got[r])} : r \in Receivers}
NoDup == \A r1, r2 \in Receivers : \A i \in 1..Len(got[r1]) : \A j \in 1..Len(got[r2]) :
            (got[r1][i] = got[r2][j]) => (r1 = r2 /\ i = j)
Ordered == \A r \in Receivers : \A i, j \in 1..Len(got[r]) : i < j => got[r][i] < got[r][j]
NoLoss == AllDone => Received = 1..Items
Inv == DiscDrained /\ NoDup /\ Ordered /\ NoLoss
=============================================================================
