--------------------------- MODULE MpscBoundedP ---------------------------
(* Layer P: the credit-before-claim protocol of the bounded mpsc channel
   (channels/src/mpsc/bounded_v3: shared.rs try_send_now / write_slot /
   deq_once / publish_progress / notify_*, producer.rs send_inner,
   consumer.rs recv), at the granularity of its atomic steps.

   Producers send their items with the blocking `send`:
     chk     window_open():  g_tail - progress < cap          (shared.rs:270)
     claim   ticket := g_tail.fetch_add(1)                    (shared.rs:632)
     credit  credit_ok(ticket): ticket - progress < cap       (shared.rs:264)
     wset    slot[ticket] := SET   and then notify_receiver   (write_slot)
     wskip   slot[ticket] := SKIP  (overshoot tombstone) and then notify_receiver
     reg     register in the send-waiter queue                (register_sync_send)
     park    park unless `notified`                           (send_inner)
   The consumer receives with the blocking `recv`:
     deq     deq_once(): walk SET / SKIP slots from h.pos, publish `progress`
             every K drained slots (publish_progress -> notify_senders(freed))
     flush   flush_progress() before waiting
     creg    register as the receive waiter
     cpark   park unless `notified`; finish_sync_recv

   SkipNotifies = TRUE is the code.  FALSE models the seeded change C05_m1
   ("a tombstone is nothing to take, so no wake"): TLC then finds the lost
   wake-up - the consumer parked on the slot that later becomes a tombstone,
   the overshooting producer parks on the closed window, nobody is left to wake
   anybody (MC_MpscP_skipnowake.cfg; the schedule needs four exactly placed
   context switches, which is what chan-sys enumerates on the real code).

   Checked: DeadlockFree (no state in which some thread is not done and nothing
   can run), Bounded (never more than Cap values buffered), Exactly (every
   value sent is received once, per-producer order kept).  Sequentially
   consistent steps; bounded pre-park spin loops are omitted (they only delay). *)
EXTENDS Naturals, Sequences, FiniteSets, TLC

CONSTANTS Producers, Items, Cap, K, SkipNotifies

Total == Cardinality(Producers) * Items
MaxT == Total + 2 * Cardinality(Producers) * Items + 2   \* tickets incl. tombstones (bounded by the model)

VARIABLES gtail, progress, slot, pos, unpub,
          ppc, pt, psent, preg, snotified, stoken, swait,
          cpc, got, creg, rnotified, rtoken

vars == <<gtail, progress, slot, pos, unpub, ppc, pt, psent, preg, snotified, stoken, swait,
          cpc, got, creg, rnotified, rtoken>>

Init ==
  /\ gtail = 0 /\ progress = 0 /\ slot = [t \in 0..MaxT |-> <<"E", 0, 0>>] /\ pos = 0 /\ unpub = 0
  /\ ppc = [p \in Producers |-> "chk"] /\ pt = [p \in Producers |-> 0] /\ psent = [p \in Producers |-> 0]
  /\ preg = [p \in Producers |-> FALSE] /\ snotified = [p \in Producers |-> FALSE]
  /\ stoken = [p \in Producers |-> FALSE] /\ swait = <<>>
  /\ cpc = "deq" /\ got = <<>> /\ creg = FALSE /\ rnotified = FALSE /\ rtoken = FALSE

\* ---- notify helpers (each is one critical section / fence-paired check in the code) ----
NotifyReceiver ==
  IF creg THEN /\ creg' = FALSE /\ rnotified' = TRUE /\ rtoken' = TRUE
          ELSE UNCHANGED <<creg, rnotified, rtoken>>

\* wake up to n waiting senders, front first
WakeN(n) == LET k == IF n < Len(swait) THEN n ELSE Len(swait)
                woken == {swait[i] : i \in 1..k}
            IN /\ swait' = SubSeq(swait, k + 1, Len(swait))
               /\ snotified' = [p \in Producers |-> IF p \in woken THEN TRUE ELSE snotified[p]]
               /\ stoken' = [p \in Producers |-> IF p \in woken THEN TRUE ELSE stoken[p]]

\* ---- producer steps ----
PChk(p) ==
  /\ ppc[p] = "chk"
  /\ IF gtail - progress < Cap
       THEN ppc' = [ppc EXCEPT ![p] = "claim"]
       ELSE ppc' = [ppc EXCEPT ![p] = IF preg[p] THEN "park" ELSE "reg"]
  /\ UNCHANGED <<gtail, progress, slot, pos, unpub, pt, psent, preg, snotified, stoken, swait, cpc, got, creg, rnotified, rtoken>>

PClaim(p) ==
  /\ ppc[p] = "claim" /\ gtail < MaxT
  /\ pt' = [pt EXCEPT ![p] = gtail] /\ gtail' = gtail + 1
  /\ ppc' = [ppc EXCEPT ![p] = "credit"]
  /\ UNCHANGED <<progress, slot, pos, unpub, psent, preg, snotified, stoken, swait, cpc, got, creg, rnotified, rtoken>>

PCredit(p) ==
  /\ ppc[p] = "credit"
  /\ ppc' = [ppc EXCEPT ![p] = IF pt[p] - progress < Cap THEN "wset" ELSE "wskip"]
  /\ UNCHANGED <<gtail, progress, slot, pos, unpub, pt, psent, preg, snotified, stoken, swait, cpc, got, creg, rnotified, rtoken>>

PWSet(p) ==
  /\ ppc[p] = "wset"
  /\ slot' = [slot EXCEPT ![pt[p]] = <<"SET", p, psent[p] + 1>>]
  /\ ppc' = [ppc EXCEPT ![p] = "nset"]
  /\ UNCHANGED <<gtail, progress, pos, unpub, pt, psent, preg, snotified, stoken, swait, cpc, got, creg, rnotified, rtoken>>

\* notify_receiver after a SET, then leave (finish_sync_send if registered): the item is sent
PNSet(p) ==
  /\ ppc[p] = "nset"
  /\ NotifyReceiver
  /\ psent' = [psent EXCEPT ![p] = @ + 1]
  /\ ppc' = [ppc EXCEPT ![p] = IF preg[p] THEN "fin" ELSE IF psent[p] + 1 = Items THEN "done" ELSE "chk"]
  /\ UNCHANGED <<gtail, progress, slot, pos, unpub, pt, preg, snotified, stoken, swait, cpc, got>>

\* finish_sync_send: leave the waiter queue (or, if a notifier already took us, its store has landed)
PFin(p) ==
  /\ ppc[p] = "fin"
  /\ swait' = SelectSeq(swait, LAMBDA q : q # p)
  /\ preg' = [preg EXCEPT ![p] = FALSE] /\ snotified' = [snotified EXCEPT ![p] = FALSE]
  /\ stoken' = [stoken EXCEPT ![p] = FALSE]
  /\ ppc' = [ppc EXCEPT ![p] = IF psent[p] = Items THEN "done" ELSE "chk"]
  /\ UNCHANGED <<gtail, progress, slot, pos, unpub, pt, psent, cpc, got, creg, rnotified, rtoken>>

PWSkip(p) ==
  /\ ppc[p] = "wskip"
  /\ slot' = [slot EXCEPT ![pt[p]] = <<"SKIP", p, 0>>]
  /\ ppc' = [ppc EXCEPT ![p] = IF SkipNotifies THEN "nskip" ELSE "chk"]
  /\ UNCHANGED <<gtail, progress, pos, unpub, pt, psent, preg, snotified, stoken, swait, cpc, got, creg, rnotified, rtoken>>

PNSkip(p) ==
  /\ ppc[p] = "nskip"
  /\ NotifyReceiver
  /\ ppc' = [ppc EXCEPT ![p] = "chk"]
  /\ UNCHANGED <<gtail, progress, slot, pos, unpub, pt, psent, preg, snotified, stoken, swait, cpc, got>>

PReg(p) ==
  /\ ppc[p] = "reg"
  /\ swait' = Append(swait, p) /\ preg' = [preg EXCEPT ![p] = TRUE]
  /\ ppc' = [ppc EXCEPT ![p] = "chk"]
  /\ UNCHANGED <<gtail, progress, slot, pos, unpub, pt, psent, snotified, stoken, cpc, got, creg, rnotified, rtoken>>

\* park unless notified; a token makes park return
PPark(p) ==
  /\ ppc[p] = "park"
  /\ snotified[p] \/ stoken[p]
  /\ stoken' = [stoken EXCEPT ![p] = FALSE]
  /\ IF snotified[p]
       THEN snotified' = [snotified EXCEPT ![p] = FALSE] /\ preg' = [preg EXCEPT ![p] = FALSE]
       ELSE UNCHANGED <<snotified, preg>>
  /\ ppc' = [ppc EXCEPT ![p] = "chk"]
  /\ UNCHANGED <<gtail, progress, slot, pos, unpub, pt, psent, swait, cpc, got, creg, rnotified, rtoken>>

\* ---- consumer steps ----
\* deq_once under the head lock: skip tombstones, take one value, publish progress every K
CDeqSkip ==
  /\ cpc = "deq" /\ slot[pos][1] = "SKIP"
  /\ LET u == unpub + 1 IN
       IF u >= K
         THEN /\ progress' = pos + 1 /\ unpub' = 0 /\ WakeN(u)
         ELSE /\ unpub' = u /\ UNCHANGED <<progress, swait, snotified, stoken>>
  /\ pos' = pos + 1
  /\ slot' = [slot EXCEPT ![pos] = <<"E", 0, 0>>]
  /\ UNCHANGED <<gtail, ppc, pt, psent, preg, cpc, got, creg, rnotified, rtoken>>

CDeqSet ==
  /\ cpc = "deq" /\ slot[pos][1] = "SET"
  /\ got' = Append(got, <<slot[pos][2], slot[pos][3]>>)
  /\ LET u == unpub + 1 IN
       IF u >= K
         THEN /\ progress' = pos + 1 /\ unpub' = 0 /\ WakeN(u)
         ELSE /\ unpub' = u /\ UNCHANGED <<progress, swait, snotified, stoken>>
  /\ pos' = pos + 1
  /\ slot' = [slot EXCEPT ![pos] = <<"E", 0, 0>>]
  /\ cpc' = IF creg \/ rnotified THEN "cfin" ELSE IF Len(got) + 1 = Total THEN "done" ELSE "deq"
  /\ UNCHANGED <<gtail, ppc, pt, psent, preg, creg, rnotified, rtoken>>

CDeqEmpty ==
  /\ cpc = "deq" /\ slot[pos][1] = "E"
  /\ cpc' = "flush"
  /\ UNCHANGED <<gtail, progress, slot, pos, unpub, ppc, pt, psent, preg, snotified, stoken, swait, got, creg, rnotified, rtoken>>

\* flush_progress before waiting
CFlush ==
  /\ cpc = "flush"
  /\ IF unpub > 0
       THEN /\ progress' = pos /\ unpub' = 0 /\ WakeN(unpub)
       ELSE UNCHANGED <<progress, unpub, swait, snotified, stoken>>
  /\ cpc' = IF creg \/ rnotified THEN "cpark" ELSE "creg"
  /\ UNCHANGED <<gtail, slot, pos, ppc, pt, psent, preg, got, creg, rnotified, rtoken>>

CReg ==
  /\ cpc = "creg"
  /\ creg' = TRUE /\ cpc' = "deq"
  /\ UNCHANGED <<gtail, progress, slot, pos, unpub, ppc, pt, psent, preg, snotified, stoken, swait, got, rnotified, rtoken>>

\* park unless notified, then finish_sync_recv and start over unregistered
CPark ==
  /\ cpc = "cpark"
  /\ rnotified \/ rtoken
  /\ rtoken' = FALSE /\ rnotified' = FALSE /\ creg' = FALSE
  /\ cpc' = "deq"
  /\ UNCHANGED <<gtail, progress, slot, pos, unpub, ppc, pt, psent, preg, snotified, stoken, swait, got>>

CFin ==
  /\ cpc = "cfin"
  /\ creg' = FALSE /\ rnotified' = FALSE /\ rtoken' = FALSE
  /\ cpc' = IF Len(got) = Total THEN "done" ELSE "deq"
  /\ UNCHANGED <<gtail, progress, slot, pos, unpub, ppc, pt, psent, preg, snotified, stoken, swait, got>>

AllDone == cpc = "done" /\ \A p \in Producers : ppc[p] = "done"
Finished == AllDone /\ UNCHANGED vars

Next ==
  \/ \E p \in Producers : PChk(p) \/ PClaim(p) \/ PCredit(p) \/ PWSet(p) \/ PNSet(p) \/ PFin(p)
                            \/ PWSkip(p) \/ PNSkip(p) \/ PReg(p) \/ PPark(p)
  \/ CDeqSkip \/ CDeqSet \/ CDeqEmpty \/ CFlush \/ CReg \/ CPark \/ CFin
  \/ Finished

Spec == Init /\ [][Next]_vars

\* ---- properties ----
Buffered == Cardinality({t \in 0..MaxT : slot[t][1] = "SET"})
Bounded == Buffered <= Cap

\* every received value was sent, once, and each producer's values arrive in its send order
OrderOf(p) == SelectSeq(got, LAMBDA x : x[1] = p)
Exactly == \A p \in Producers : \A i \in 1..Len(OrderOf(p)) : OrderOf(p)[i][2] = i

\* no lost wake-up: whenever somebody is not done, some step is enabled (TLC's deadlock check does the
\* same; this invariant names the property and survives CHECK_DEADLOCK FALSE)
DeadlockFree == AllDone \/ ENABLED Next

\* the ticket bound of the model is never what stops a producer
TicketBound == gtail < MaxT

Inv == Bounded /\ Exactly /\ TicketBound
=============================================================================
