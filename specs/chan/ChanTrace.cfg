SPECIFICATION Spec
CONSTRAINT Track
INVARIANT ChanInv
POSTCONDITION Accepted
CHECK_DEADLOCK FALSE
