SPECIFICATION Spec
CONSTANT CasUnderLock = TRUE
INVARIANT Conservation
INVARIANT NoInvent
PROPERTY Terminates
