SPECIFICATION Spec
CONSTANTS
  Receivers = {r1, r2, r3}
  Items = 3
  Pinned = TRUE
INVARIANT Inv
CHECK_DEADLOCK TRUE
