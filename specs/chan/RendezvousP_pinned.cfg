SPECIFICATION Spec
CONSTANT CasUnderLock = FALSE
INVARIANT Conservation
INVARIANT NoInvent
