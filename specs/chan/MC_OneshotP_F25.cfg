SPECIFICATION Spec
CONSTANTS
  Senders = {s1, s2}
  Leave = FALSE
  Again = FALSE
  F25 = TRUE
  F13 = FALSE
  F27 = FALSE
INVARIANT Inv
CHECK_DEADLOCK TRUE
