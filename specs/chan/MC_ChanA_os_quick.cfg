SPECIFICATION Spec
CONSTANTS
  Kind = "os"
  Cap = 0
  MaxVal = 3
  Ops = {"send", "try_send", "recv", "try_recv"}
INVARIANT Inv
CHECK_DEADLOCK FALSE
