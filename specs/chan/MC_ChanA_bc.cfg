SPECIFICATION Spec
CONSTANTS
  Kind = "bc"
  Cap = 2
  MaxVal = 3
  Ops = {"send", "try_send", "recv", "try_recv"}
INVARIANT InvBc
CHECK_DEADLOCK FALSE
