------------------------------ MODULE OneshotP ------------------------------
(* Layer P: the oneshot channel's state word protocol (channels/src/oneshot/core.rs)
   at the granularity of its atomic steps.

     state:  E (empty)  W (a sender is writing)  S (sent)  T (taken)  C (closed)
     sender_count, receiver_dropped, the receiver's waker slot (AtomicWaker)

   Every sender calls send once and is dropped; the receiver polls `recv()` until it
   is Ready (value or Disconnected) - parking between polls until its waker fires - or,
   in the `leave` configuration, may drop the handle at any moment.

   The flags reproduce, on the model, the defects found on the pinned tree:
     F25  try_recv / poll_recv: "state was EMPTY and no sender is left" reported Disconnected
          without re-checking the state word (a sender had sent and left in between)
     F13  the last sender leaving did not wake a receiver pending after the value was TAKEN
          (modelled: the last sender leaving after a successful send by ANOTHER sender does
          not wake - the wake of `send` itself is kept)
     F27  send racing the receiver's drop reported `Sent` although nothing was ever sent
   With all flags FALSE (the repaired code) TLC finds no violation.

   Checked:
     OneOk        at most one send reports Ok
     NoFalseDisc  the receiver never reports Disconnected when some send reported Ok
                  (it polls until Ready, so an accepted value must reach it)
     SentMeansSent a lone sender never gets `Sent` (nothing was sent before)
     deadlock freedom: a receiver parked on Pending is woken whenever it can proceed *)
EXTENDS Naturals, FiniteSets, TLC

CONSTANTS Senders, Leave, Again, F25, F13, F27

VARIABLES state, cnt, rdropped, waker, woken,
          spc, sres, scs,           \* sender: program counter, result, state word it read
          rpc, rres, rcs, polls, gotval     \* receiver

vars == <<state, cnt, rdropped, waker, woken, spc, sres, scs, rpc, rres, rcs, polls, gotval>>

Init ==
  /\ state = "E" /\ cnt = Cardinality(Senders) /\ rdropped = FALSE /\ waker = FALSE /\ woken = FALSE
  /\ spc = [s \in Senders |-> "chk"] /\ sres = [s \in Senders |-> ""] /\ scs = [s \in Senders |-> "E"]
  /\ rpc = "load" /\ rres = "" /\ rcs = "E" /\ polls = 0 /\ gotval = FALSE

Ge(x) == x \in {"S", "T", "C"}          \* state >= SENT
WakeR == IF waker THEN woken' = TRUE /\ waker' = FALSE ELSE UNCHANGED <<woken, waker>>

\* ---------------- sender s: send ----------------
SChk(s) ==          \* fast path: receiver dropped?
  /\ spc[s] = "chk"
  /\ IF rdropped THEN sres' = [sres EXCEPT ![s] = "closed"] /\ spc' = [spc EXCEPT ![s] = "dec"]
                 ELSE spc' = [spc EXCEPT ![s] = "load"] /\ UNCHANGED sres
  /\ UNCHANGED <<state, cnt, rdropped, waker, woken, scs, rpc, rres, rcs, polls, gotval>>

SLoad(s) ==
  /\ spc[s] = "load"
  /\ scs' = [scs EXCEPT ![s] = state]
  /\ spc' = [spc EXCEPT ![s] = IF Ge(state) THEN "ge" ELSE "cas"]
  /\ UNCHANGED <<state, cnt, rdropped, waker, woken, sres, rpc, rres, rcs, polls, gotval>>

SGe(s) ==           \* state >= SENT: Closed if the receiver left (after the first check), else Sent
  /\ spc[s] = "ge"
  /\ sres' = [sres EXCEPT ![s] = IF scs[s] = "C" /\ rdropped /\ ~F27 THEN "closed" ELSE "sent"]
  /\ spc' = [spc EXCEPT ![s] = "dec"]
  /\ UNCHANGED <<state, cnt, rdropped, waker, woken, scs, rpc, rres, rcs, polls, gotval>>

SCas(s) ==          \* EMPTY -> WRITING
  /\ spc[s] = "cas"
  /\ IF state = "E"
       THEN state' = "W" /\ spc' = [spc EXCEPT ![s] = "chk2"] /\ UNCHANGED sres
       ELSE /\ sres' = [sres EXCEPT ![s] = IF state = "C" /\ rdropped /\ ~F27 THEN "closed" ELSE "sent"]
            /\ spc' = [spc EXCEPT ![s] = "dec"] /\ UNCHANGED state
  /\ UNCHANGED <<cnt, rdropped, waker, woken, scs, rpc, rres, rcs, polls, gotval>>

SChk2(s) ==         \* receiver dropped between the first check and the claim: back out
  /\ spc[s] = "chk2"
  /\ IF rdropped THEN state' = "E" /\ sres' = [sres EXCEPT ![s] = "closed"] /\ spc' = [spc EXCEPT ![s] = "dec"]
                 ELSE spc' = [spc EXCEPT ![s] = "swap"] /\ UNCHANGED <<state, sres>>
  /\ UNCHANGED <<cnt, rdropped, waker, woken, scs, rpc, rres, rcs, polls, gotval>>

SSwap(s) ==         \* value written under the slot lock, state := SENT
  /\ spc[s] = "swap"
  /\ state' = "S" /\ sres' = [sres EXCEPT ![s] = "ok"]
  /\ spc' = [spc EXCEPT ![s] = "wake"]
  /\ UNCHANGED <<cnt, rdropped, waker, woken, scs, rpc, rres, rcs, polls, gotval>>

SWake(s) ==
  /\ spc[s] = "wake" /\ WakeR
  /\ spc' = [spc EXCEPT ![s] = "dec"]
  /\ UNCHANGED <<state, cnt, rdropped, sres, scs, rpc, rres, rcs, polls, gotval>>

\* ---------------- sender s: drop ----------------
SDec(s) ==
  /\ spc[s] = "dec"
  /\ cnt' = cnt - 1
  /\ spc' = [spc EXCEPT ![s] = IF cnt = 1 THEN "last" ELSE "done"]
  /\ UNCHANGED <<state, rdropped, waker, woken, sres, scs, rpc, rres, rcs, polls, gotval>>

SLast(s) ==         \* the last sender: EMPTY -> CLOSED and wake; orphaned SENT value destroyed; otherwise wake
  /\ spc[s] = "last"
  /\ IF state = "E" THEN state' = "C" /\ WakeR
     ELSE IF state = "S" /\ rdropped THEN state' = "T" /\ UNCHANGED <<woken, waker>>
     ELSE IF state # "S" /\ ~(F13 /\ state = "T") THEN WakeR /\ UNCHANGED state
     ELSE UNCHANGED <<state, woken, waker>>
  /\ spc' = [spc EXCEPT ![s] = "done"]
  /\ UNCHANGED <<cnt, rdropped, sres, scs, rpc, rres, rcs, polls, gotval>>

\* ---------------- receiver: poll_recv = try_recv, checks, register, try_recv ----------------
\* try_recv, first half: read the state word
RLoad ==
  /\ rpc \in {"load", "load2"}
  /\ rcs' = state
  /\ rpc' = IF rpc = "load" THEN "act" ELSE "act2"
  /\ UNCHANGED <<state, cnt, rdropped, waker, woken, spc, sres, scs, rres, polls, gotval>>

\* try_recv, second half, on the state word read before; `second` = the attempt after registering
\* (Again: after the value the receiver calls recv() once more and waits for Disconnected)
Done(res) == /\ rres' = res /\ gotval' = (gotval \/ res = "val")
             /\ rpc' = IF res = "val" /\ Again THEN "load" ELSE "rdrop"
Same == UNCHANGED <<rres, gotval>>
TryRecv(second) ==
  IF rcs = "S"
    THEN IF state = "S" THEN state' = "T" /\ Done("val") /\ UNCHANGED <<waker, woken, polls>>
         ELSE \* CAS failed (cannot happen with one receiver): Empty
              UNCHANGED <<state>> /\ (IF second THEN rpc' = "pend" ELSE rpc' = "chk") /\ Same /\ UNCHANGED <<waker, woken, polls>>
  ELSE IF rcs = "T"
    THEN UNCHANGED state /\ UNCHANGED <<waker, woken, polls>> /\
         (IF cnt = 0 THEN Done("disc") ELSE (IF second THEN rpc' = "pend" ELSE rpc' = "chk") /\ Same)
  ELSE IF rcs = "C"
    THEN UNCHANGED state /\ Done("disc") /\ UNCHANGED <<waker, woken, polls>>
  ELSE IF rcs = "E" /\ cnt = 0
    THEN \* no sender is left: EMPTY -> CLOSED, unless a sender wrote in between (then start over)
         IF F25 THEN (state' = IF state = "E" THEN "C" ELSE state) /\ Done("disc") /\ UNCHANGED <<waker, woken, polls>>
         ELSE IF state \in {"W", "S"} THEN UNCHANGED <<state, waker, woken, polls>> /\ Same /\ rpc' = (IF second THEN "load2" ELSE "load")
         ELSE (state' = IF state = "E" THEN "C" ELSE state) /\ Done("disc") /\ UNCHANGED <<waker, woken, polls>>
  ELSE \* EMPTY or WRITING with senders alive: Empty
       UNCHANGED state /\ Same /\ UNCHANGED <<waker, woken, polls>> /\ (IF second THEN rpc' = "pend" ELSE rpc' = "chk")

RAct ==
  /\ rpc = "act" /\ TryRecv(FALSE)
  /\ UNCHANGED <<cnt, rdropped, spc, sres, scs, rcs>>

\* after Empty: TAKEN / CLOSED with no sender left is Disconnected (F26); then register the waker
RChk ==
  /\ rpc = "chk"
  /\ IF state \in {"T", "C"} /\ cnt = 0
       THEN rres' = "disc" /\ rpc' = "rdrop" /\ UNCHANGED <<waker, woken, gotval>>
       ELSE waker' = TRUE /\ woken' = FALSE /\ rpc' = "load2" /\ Same
  /\ UNCHANGED <<state, cnt, rdropped, spc, sres, scs, rcs, polls, gotval>>

RAct2 ==
  /\ rpc = "act2" /\ TryRecv(TRUE)
  /\ UNCHANGED <<cnt, rdropped, spc, sres, scs, rcs>>

\* Pending: the task sleeps until its waker fires, then polls again
RPend ==
  /\ rpc = "pend" /\ woken
  /\ woken' = FALSE /\ rpc' = "load" /\ polls' = polls + 1
  /\ UNCHANGED <<state, cnt, rdropped, waker, spc, sres, scs, rres, rcs, gotval>>

\* the receiver handle is dropped (after its result, or - Leave - at any moment between polls)
RDrop ==
  /\ rpc = "rdrop" \/ (Leave /\ rpc \in {"load", "pend"})
  /\ rdropped' = TRUE
  /\ state' = IF state = "E" THEN "C" ELSE IF state = "S" THEN "T" ELSE state   \* (an orphaned value is destroyed)
  /\ rpc' = "done"
  /\ UNCHANGED <<cnt, waker, woken, spc, sres, scs, rres, rcs, polls, gotval>>

AllDone == rpc = "done" /\ \A s \in Senders : spc[s] = "done"
Finished == AllDone /\ UNCHANGED vars

Next == (\E s \in Senders : SChk(s) \/ SLoad(s) \/ SGe(s) \/ SCas(s) \/ SChk2(s) \/ SSwap(s) \/ SWake(s) \/ SDec(s) \/ SLast(s))
        \/ RLoad \/ RAct \/ RChk \/ RAct2 \/ RPend \/ RDrop \/ Finished
Spec == Init /\ [][Next]_vars

\* ---------------- properties ----------------
OkSenders == {s \in Senders : sres[s] = "ok"}
OneOk == Cardinality(OkSenders) <= 1
NoFalseDisc == Leave \/ ~(rres = "disc" /\ OkSenders # {} /\ ~gotval)
\* (with overlapping sends a loser may legitimately see WRITING and report Sent even if the writer then backs
\* out; with a single sender `Sent` is always wrong)
SentMeansSent == Cardinality(Senders) = 1 => \A s \in Senders : sres[s] # "sent"
Inv == OneOk /\ NoFalseDisc /\ SentMeansSent
=============================================================================
