--------------------------- MODULE ChanTrace ---------------------------
(***************************************************************************)
(* Trace validation of histories recorded from the real channels against   *)
(* Layer A (ChanA).  One ndjson record per line (env TRACE); a `new`       *)
(* record starts a fresh history, so many histories share one TLC run.     *)
(*                                                                         *)
(* call / ret frame an operation; between them the operation takes effect  *)
(* at silent Lin steps chosen by TLC.  A history is accepted iff some      *)
(* choice of Lin steps explains every record.  The longest explained       *)
(* prefix is kept in TLC register 1 (run with -workers 1).                 *)
(***************************************************************************)
EXTENDS ChanA, Json, IOUtils, SequencesExt

Rec == ndJsonDeserialize(IOEnv.TRACE)
N == Len(Rec)

VARIABLES
  l,      \* next record to explain
  devs,   \* deviation actions used (open known findings; only when cfg.kf enables them)
  aux     \* bookkeeping for deviation guards: [hoard, revived]
vars == <<chanVars, l, devs, aux>>

Dev(id) == id \in cfg.kf
Aux0 == [hoard |-> 0, revived |-> FALSE, swS |-> FALSE, swR |-> FALSE]

Max2(a, b) == IF a > b THEN a ELSE b
Track == TLCSet(1, Max2(TLCGet(1), l))
\* A state that breaks a Layer A invariant is not an explanation: it is pruned (and does not
\* count as progress), so an invariant can only fail the validation by leaving no explanation.
\* Once every record is explained the search stops (TLC would otherwise go on to enumerate
\* every alternative explanation).
TrackOk == ChanInv /\ Track /\ (l = N + 1 => PrintT(<<"ACCEPTED", N>>) /\ TLCSet("exit", TRUE))

R == Rec[l]
Is(k) == l <= N /\ R.k = k
Next1 == l' = l + 1

SeqToSet(s) == {s[i] : i \in 1..Len(s)}
Without(s, D) == IF cfg.kind = "bc" THEN s ELSE SelectSeq(s, LAMBDA x : x \notin D)
Drop1(f, k) == [x \in DOMAIN f \ {k} |-> f[x]]
Put(f, k, v) == [x \in DOMAIN f \cup {k} |-> IF x = k THEN v ELSE f[x]]

Empty == [x \in {} |-> 0]

Init ==
  /\ TLCSet(1, 0)
  /\ l = 1
  /\ cfg = [kind |-> "q", cap |-> 0, kf |-> {}]
  /\ buf = <<>> /\ tx = Empty /\ rx = Empty /\ disc = {} /\ once = FALSE
  /\ out = {} /\ gone = {} /\ cur = Empty /\ pend = Empty /\ devs = {} /\ aux = Aux0

\* ---- a new history ------------------------------------------------------
New ==
  /\ Is("new")
  /\ cfg' = [kind |-> R.kind, cap |-> R.cap, kf |-> SeqToSet(R.kf)]
  /\ buf' = <<>>
  /\ tx' = [h \in SeqToSet(R.tx) |-> "live"]
  /\ rx' = [h \in SeqToSet(R.rx) |-> "live"]
  /\ disc' = {} /\ once' = FALSE /\ out' = {} /\ gone' = {} /\ cur' = [h \in SeqToSet(R.rx) |-> 0]
  /\ pend' = Empty /\ devs' = {} /\ aux' = Aux0
  /\ Next1

\* ---- values the channel destroys ----------------------------------------
\* D are ids reported dropped by the library that are not explained by the
\* operation itself: they must be buffered values that no receiver can obtain
\* any more (C09: destroyed by the channel, never while still deliverable).
\* `rxAfter` is the receiver map after the current record's own effect.
CanDestroy(D, rxAfter) ==
  /\ D \subseteq SeqToSet(buf)
  /\ IF cfg.kind = "bc"
       THEN D \cap gone = {}      \* broadcast: receivers get clones; the stored original dies once, whenever
       ELSE D # {} => {h \in DOMAIN rxAfter : rxAfter[h] = "live"} = {}

\* ---- call / ret -----------------------------------------------------------
Call ==
  /\ Is("call")
  /\ R.o \notin DOMAIN pend
  /\ R.h \in DOMAIN tx \cup DOMAIN rx
  /\ R.op \in SendOps \cup RecvOps \cup LifeOps
  /\ (R.op \in SendOps => R.h \in DOMAIN tx)
  /\ (R.op \in RecvOps => R.h \in DOMAIN rx)
  /\ pend' = Put(pend, R.o, NewOp(R.h, R.op, R.vs, IF R.op \in SingleRecv THEN 1 ELSE R.max, R.fut))
  /\ UNCHANGED <<cfg, buf, tx, rx, disc, once, out, gone, cur>>
  /\ Next1

\* Future polled, reported Pending.
PollPending ==
  /\ Is("pend")
  /\ R.o \in DOMAIN pend /\ pend[R.o].fut
  /\ pend' = [pend EXCEPT ![R.o] = [@ EXCEPT !.started = TRUE, !.woken = FALSE]]
  /\ aux' = IF IsRecv(R.o) THEN [aux EXCEPT !.hoard = 0] ELSE aux
  /\ UNCHANGED <<cfg, buf, tx, rx, disc, once, out, gone, cur, devs>>
  /\ Next1

Wake ==
  /\ Is("wake")
  /\ IF R.o \in DOMAIN pend
       THEN pend' = [pend EXCEPT ![R.o] = [@ EXCEPT !.woken = TRUE]]
       ELSE UNCHANGED pend                     \* a late or spurious wake is always allowed
  /\ aux' = IF R.o \in DOMAIN pend
              THEN IF IsSend(R.o) THEN [aux EXCEPT !.swS = FALSE] ELSE [aux EXCEPT !.swR = FALSE]
              ELSE aux
  /\ UNCHANGED <<cfg, buf, tx, rx, disc, once, out, gone, cur, devs>>
  /\ Next1

\* The operation returns (thread call returns / future reports Ready).
Ret ==
  /\ Is("ret")
  /\ R.o \in DOMAIN pend
  /\ LET p == pend[R.o]
         unsent == SeqToSet(p.vs)
         dr == SeqToSet(R.dr)
         extra == dr \ unsent
     IN
     /\ p.lin = R.res
     /\ IF p.op \in LifeOps
          THEN /\ R.vals = <<>> /\ R.back = <<>> /\ UNCHANGED out
          ELSE IF p.op \in SendOps
          THEN /\ R.n = p.n
               /\ R.vals = <<>>
               \* C01: the unsent remainder is handed back intact and in order where
               \* the error type carries it, and is otherwise destroyed exactly once.
               /\ IF p.op \in CarryOps
                    THEN R.back = p.vs /\ dr \cap unsent = {}
                    ELSE R.back = <<>> /\ unsent \subseteq dr
               /\ out' = out \cup unsent
          ELSE /\ R.vals = p.got
               /\ R.back = <<>>
               /\ out' = out \cup SeqToSet(p.got)
     /\ CanDestroy(extra, rx)
     /\ buf' = Without(buf, extra)
     /\ gone' = gone \cup extra
     /\ pend' = Drop1(pend, R.o)
  /\ UNCHANGED <<cfg, tx, rx, disc, once, cur>>
  /\ Next1

\* A future is dropped before it reported Ready.
Cancel ==
  /\ Is("cancel")
  /\ R.o \in DOMAIN pend /\ pend[R.o].fut
  /\ LET p == pend[R.o]
         unsent == SeqToSet(p.vs)
         dr == SeqToSet(R.dr)
         extra == dr \ unsent
     IN
     /\ IF p.op \in SendOps
          THEN \* in-place batches keep the unsent tail in the caller's Vec; the other
               \* forms own their unsent values, which die with the future.
               /\ IF p.op \in {"send_batch_mut", "try_send_batch_mut"}
                    THEN R.back = p.vs /\ dr \cap unsent = {}
                    ELSE R.back = <<>> /\ unsent \subseteq dr
               /\ R.vals = <<>>
               /\ out' = out \cup unsent
               /\ UNCHANGED devs
          ELSE \* C06: cancelling a receive loses nothing: whatever it took is with the
               \* caller (in-place batch) -- otherwise it must not have taken anything.
               \* Known finding F10 (rendezvous): a value handed to a pending recv
               \* future dies with the future when it is dropped unpolled.
               /\ \/ R.vals = p.got /\ UNCHANGED devs
                  \/ /\ Dev("F10") /\ cfg.kind = "rv" /\ p.got # <<>> /\ R.vals = <<>>
                     /\ SeqToSet(p.got) \subseteq dr
                     /\ devs' = devs \cup {"F10"}
               /\ R.back = <<>>
               /\ out' = out \cup SeqToSet(p.got)
     /\ CanDestroy(extra \ SeqToSet(p.got), rx)
     /\ buf' = Without(buf, extra)
     /\ gone' = gone \cup (extra \ SeqToSet(p.got))
     /\ pend' = Drop1(pend, R.o)
  \* bookkeeping for known findings F6/F7: a future that had been woken is dropped
  /\ aux' = IF pend[R.o].woken
              THEN IF IsSend(R.o) THEN [aux EXCEPT !.swS = TRUE] ELSE [aux EXCEPT !.swR = TRUE]
              ELSE aux
  /\ UNCHANGED <<cfg, tx, rx, disc, once, cur>>
  /\ Next1

\* ---- handle life cycle --------------------------------------------------
SideOf(h) == IF h \in DOMAIN tx THEN "tx" ELSE "rx"

Close ==
  /\ Is("close")
  /\ R.h \in DOMAIN tx \cup DOMAIN rx
  /\ LET side == SideOf(R.h)
         st == IF side = "tx" THEN tx[R.h] ELSE rx[R.h]
         rxA == IF side = "rx" THEN [rx EXCEPT ![R.h] = "closed"] ELSE rx
         dr == SeqToSet(R.dr)
     IN
     \* C04: close succeeds once; a second close reports CloseError.
     /\ R.res = (IF st = "live" THEN "ok" ELSE "err")
     /\ tx' = IF side = "tx" THEN [tx EXCEPT ![R.h] = "closed"] ELSE tx
     /\ rx' = rxA
     /\ CanDestroy(dr, rxA)
     /\ buf' = Without(buf, dr)
     /\ gone' = gone \cup dr
  /\ UNCHANGED <<cfg, disc, once, out, cur, pend>>
  /\ Next1

HDrop ==
  /\ Is("hdrop")
  /\ R.h \in DOMAIN tx \cup DOMAIN rx
  /\ \A o \in DOMAIN pend : pend[o].h # R.h       \* no operation borrows the handle
  /\ LET side == SideOf(R.h)
         rxA == IF side = "rx" THEN Drop1(rx, R.h) ELSE rx
         txA == IF side = "tx" THEN Drop1(tx, R.h) ELSE tx
         dr == SeqToSet(R.dr)
     IN
     /\ tx' = txA /\ rx' = rxA
     /\ CanDestroy(dr, rxA)
     /\ buf' = Without(buf, dr)
     /\ gone' = gone \cup dr
     \* C09: once the last handle is gone nothing is left inside the channel.
     /\ (DOMAIN txA = {} /\ DOMAIN rxA = {} /\ cfg.kind # "bc") => Without(buf, dr) = <<>>
  /\ UNCHANGED <<cfg, disc, once, out, cur, pend>>
  /\ Next1

Clone ==
  /\ Is("clone")
  /\ R.h \in DOMAIN tx \cup DOMAIN rx
  /\ R.nh \notin DOMAIN tx \cup DOMAIN rx
  \* A clone of a live handle is live.  What a clone of a closed handle is, is not
  \* promised: either; if it is live and its side was already gone, NoValueAfterDisc
  \* still forbids delivering its values to a receiver that saw Disconnected.
  /\ IF R.h \in DOMAIN tx
       THEN /\ \E st \in (IF tx[R.h] = "live" THEN {"live"} ELSE {"live", "closed"}) :
                    /\ tx' = Put(tx, R.nh, st)
                    /\ aux' = [aux EXCEPT !.revived = @ \/ (st = "live" /\ LiveS = {})]
            /\ UNCHANGED rx
       ELSE /\ \E st \in (IF rx[R.h] = "live" THEN {"live"} ELSE {"live", "closed"}) :
                    rx' = Put(rx, R.nh, st)
            /\ UNCHANGED <<tx, aux>>
  \* C07: a clone starts at its parent's current position
  /\ cur' = IF R.h \in DOMAIN rx THEN Put(cur, R.nh, cur[R.h]) ELSE cur
  /\ UNCHANGED <<cfg, buf, disc, once, out, gone, pend, devs>>
  /\ Next1

\* Known finding F24b (broadcast): cloning a receiver handle that was itself closed yields a
\* live handle positioned at the closed handle's frozen cursor: it holds the sender back for
\* good and never sees the values it was lapped by.  Nothing after that point in the history
\* is judged (the rest of the history is skipped).
NextNew(j) == IF \E i \in j+1..N : Rec[i].k = "new" THEN CHOOSE i \in j+1..N : Rec[i].k = "new" /\ \A m \in j+1..i-1 : Rec[m].k # "new" ELSE N + 1
CloneZombie ==
  /\ Is("clone") /\ Dev("F24b") /\ cfg.kind = "bc"
  /\ R.h \in DOMAIN rx /\ rx[R.h] = "closed"
  /\ PrintT(<<"DEV", "F24b">>)
  /\ l' = NextNew(l)
  /\ devs' = devs \cup {"F24b"}
  /\ UNCHANGED <<chanVars, aux>>

\* Known finding F24 (all flavours with clonable handles): cloning a handle that was itself
\* closed when its side has no live handle left revives that side inconsistently (the peers
\* keep reporting Closed / Disconnected, buffered values reappear).  Nothing after that point
\* in the history is judged.
CloneRevive ==
  /\ Is("clone") /\ Dev("F24")
  /\ \/ R.h \in DOMAIN tx /\ tx[R.h] = "closed" /\ LiveS = {}
     \/ R.h \in DOMAIN rx /\ rx[R.h] = "closed" /\ LiveR = {}
  /\ PrintT(<<"DEV", "F24">>)
  /\ l' = NextNew(l)
  /\ devs' = devs \cup {"F24"}
  /\ UNCHANGED <<chanVars, aux>>

\* to_sync / to_async: the same handle in another flavour.
Conv ==
  /\ Is("conv")
  /\ R.h \in DOMAIN tx \cup DOMAIN rx
  /\ \A o \in DOMAIN pend : pend[o].h # R.h
  /\ IF R.h \in DOMAIN tx
       THEN /\ tx' = Put(Drop1(tx, R.h), R.nh, tx[R.h]) /\ UNCHANGED <<rx, disc>>
       ELSE /\ rx' = Put(Drop1(rx, R.h), R.nh, rx[R.h])
            /\ disc' = IF R.h \in disc THEN (disc \ {R.h}) \cup {R.nh} ELSE disc
            /\ UNCHANGED tx
  /\ cur' = IF R.h \in DOMAIN rx THEN Put(cur, R.nh, cur[R.h]) ELSE cur
  /\ UNCHANGED <<cfg, buf, once, out, gone, pend>>
  /\ Next1

\* ---- observers ------------------------------------------------------------
Obs ==
  /\ Is("obs")
  \* C03 (a handle that was itself closed is not constrained: its view is frozen)
  /\ (R.what = "len" /\ Bounded /\ (R.h \in LiveS \/ R.h \in LiveR)) => R.val <= cfg.cap
  /\ (R.what = "len" /\ cfg.kind = "rv") => R.val = 0
  /\ UNCHANGED chanVars
  /\ Next1

\* ---- quiescence -------------------------------------------------------------
\* Nothing is running.  C05: a thread that is still blocked cannot proceed in
\* the abstract state.  C06: if a polled-and-pending future could proceed,
\* some pending future of its side has been woken since it was last polled.
FutSide(S) == {o \in DOMAIN pend : pend[o].fut /\ pend[o].started /\ pend[o].op \in S}

\* Known finding F12 (mpsc bounded release cadence): the consumer publishes freed
\* slots only every K receives or when it goes to wait, so a waiting sender does
\* not see the space freed by the receives since then.  With the deviation enabled
\* such a sender is excused at quiescence.
\* The same finding for async senders ("metered drip"): one release wakes exactly one pending send future; the
\* others sleep next to free slots until the consumer's next call, whatever has been published.
Hoarded(o) == /\ Dev("F12") /\ IsSend(o) /\ pend[o].lin = "" /\ Bounded
              /\ ~SenderRejected(o)
              /\ \/ aux.hoard > 0 /\ Len(buf) + aux.hoard >= cfg.cap
                 \/ pend[o].fut
EnabledQ(o) == Enabled(o) /\ ~Hoarded(o)
Ready(o) == pend[o].lin # "" \/ EnabledQ(o)
\* C06: "an executor that polls only woken tasks never stalls while progress is possible":
\* if some polled-and-pending future could proceed, SOME pending future (of either side: the
\* woken task runs next and passes the baton on) has been woken since its last poll.
\* With S given, only futures of that side are looked at for "could proceed".
AllFuts == {o \in DOMAIN pend : pend[o].fut /\ pend[o].started}
NoStall(S) == (\E o \in FutSide(S) : Ready(o)) => (\E o \in AllFuts : pend[o].woken)

\* Known findings F6 (mpsc bounded) / F7 (mpmc bounded): exactly one pending
\* sender is woken per freed slot; if that future is dropped instead of polled the
\* wake is not passed on and the other pending senders sleep next to a free slot.
Swallowed(S) == Dev("F6") /\ (IF S = SendOps THEN aux.swS ELSE aux.swR)

Quiesce ==
  /\ Is("quiesce")
  /\ \A o \in SeqToSet(R.blocked) :
        /\ o \in DOMAIN pend /\ ~pend[o].fut
        /\ pend[o].lin = ""
        /\ ~EnabledQ(o)
  /\ NoStall(SendOps) \/ Swallowed(SendOps)
  /\ NoStall(RecvOps) \/ Swallowed(RecvOps)
  /\ devs' = devs \cup (IF \E o \in DOMAIN pend : Hoarded(o) /\ Enabled(o) /\ (o \in SeqToSet(R.blocked) \/ pend[o].fut)
                          THEN {"F12"} ELSE {})
                   \cup (IF (~NoStall(SendOps) /\ Swallowed(SendOps)) \/ (~NoStall(RecvOps) /\ Swallowed(RecvOps))
                          THEN {"F6"} ELSE {})
  \* a receiver that is blocked has flushed
  /\ aux' = IF \E o \in SeqToSet(R.blocked) : o \in DOMAIN pend /\ IsRecv(o) THEN [aux EXCEPT !.hoard = 0] ELSE aux
  /\ UNCHANGED chanVars
  /\ Next1

\* Broadcast only: the ring destroys a stored original when its slot is reused,
\* which can happen inside any operation of the sender; the receivers hold clones.
StrayDrop ==
  /\ Is("stray_drop")
  /\ cfg.kind = "bc"
  /\ CanDestroy(SeqToSet(R.dr), rx)
  /\ gone' = gone \cup SeqToSet(R.dr)
  /\ UNCHANGED <<cfg, buf, tx, rx, disc, once, out, cur, pend, devs, aux>>
  /\ Next1

\* The driver abandoned the program here (informational; the preceding quiesce
\* record carries the obligation).
Hung == Is("hung") /\ (\A d \in devs : PrintT(<<"DEV", d>>)) /\ UNCHANGED <<chanVars, devs, aux>> /\ Next1

\* End of history: every handle is gone (HDrop checked the buffer is empty).
End ==
  /\ Is("end")
  /\ DOMAIN tx = {} /\ DOMAIN rx = {} /\ DOMAIN pend = {}
  /\ cfg.kind = "bc" \/ buf = <<>>
  /\ \A d \in devs : PrintT(<<"DEV", d>>)
  /\ UNCHANGED <<chanVars, devs, aux>>
  /\ Next1

\* ---- silent steps -----------------------------------------------------------
\* Known finding F24: cloning a closed sender handle after the sender side was
\* gone revives the channel, so a receiver that already observed Disconnected is
\* handed values again.
DevRecvAfterDisc(o) ==
  /\ Dev("F24") /\ aux.revived
  /\ CanRecvOneBase(o) /\ pend[o].h \in disc
  /\ RecvOneEff(o)
  /\ devs' = devs \cup {"F24"}

\* Silent steps are only explored right before a record that observes or changes
\* the abstract state: a linearization step commutes with `call`, `pend` and `wake`
\* records (they only add operations or flags), so it can always be postponed past
\* them.  This keeps the search small without losing any explanation.
\* A future only runs when it is polled: its own linearization steps can only happen in the
\* poll whose outcome is the next record (a `pend` or `ret` of that very future).  A future that
\* was never polled may have acted at its creation; thread operations can act at any time.
NextKind == Rec[l].k
InWindow(o) ==
  IF pend[o].fut /\ pend[o].started
    THEN (IF NextKind \in {"pend", "ret"} THEN Rec[l].o = o ELSE FALSE)
    ELSE (IF NextKind = "pend" THEN Rec[l].o = o ELSE TRUE)

LinStep ==
  /\ l <= N
  /\ NextKind \notin {"call", "wake", "wake_stale", "new"}
  /\ \/ /\ \E o \in DOMAIN pend : InWindow(o) /\ SendOne(o) /\ UNCHANGED disc
        /\ UNCHANGED <<devs, aux>>
     \/ /\ \E o \in DOMAIN pend : InWindow(o) /\ (SendDone(o) \/ SendClosed(o) \/ SendSent(o) \/ SendFull(o) \/ RecvDone(o))
        /\ UNCHANGED <<devs, aux>>
     \/ /\ \E o \in DOMAIN pend : InWindow(o) /\ RecvOne(o)
        /\ aux' = [aux EXCEPT !.hoard = IF Dev("F12") THEN @ + 1 ELSE 0]
        /\ UNCHANGED devs
     \/ /\ \E o \in DOMAIN pend : InWindow(o) /\ (RecvEmpty(o) \/ RecvDisc(o))
        /\ aux' = [aux EXCEPT !.hoard = 0]
        /\ UNCHANGED devs
     \/ /\ \E s, r \in DOMAIN pend : (InWindow(s) \/ InWindow(r)) /\ Handoff(s, r)
        /\ UNCHANGED <<devs, aux>>
     \/ /\ \E o \in DOMAIN pend : LifeLin(o)
        /\ UNCHANGED <<devs, aux>>
     \/ /\ \E o \in DOMAIN pend : InWindow(o) /\ DevRecvAfterDisc(o)
        /\ aux' = [aux EXCEPT !.hoard = IF Dev("F12") THEN @ + 1 ELSE 0]
  /\ UNCHANGED l

\* the waker of an earlier poll (replaced by a re-poll with another waker) was invoked: it
\* wakes nobody, so it does not count as waking the operation
WakeStale == Is("wake_stale") /\ UNCHANGED <<chanVars, devs, aux>> /\ Next1

\* (LinStep first: TLC's depth-first queue explores the successor generated last first,
\*  so a record is consumed as soon as it can be and silent steps are tried lazily)
Next ==
  \/ LinStep
  \/ WakeStale
  \/ New \/ PollPending \/ Clone \/ CloneZombie \/ CloneRevive \/ Quiesce \/ Hung \/ End \/ StrayDrop
  \/ Wake \/ Cancel
  \/ (Call \/ Ret \/ Close \/ HDrop \/ Conv \/ Obs) /\ UNCHANGED <<devs, aux>>

Spec == Init /\ [][Next]_vars

\* ---- acceptance -------------------------------------------------------------
Accepted ==
  IF TLCGet(1) = N + 1
    THEN TRUE
    ELSE /\ PrintT(<<"REJECT", TLCGet(1), ToJson(Rec[TLCGet(1)])>>)
         /\ FALSE
=========================================================================
