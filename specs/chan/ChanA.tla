----------------------------- MODULE ChanA -----------------------------
(***************************************************************************)
(* Layer A: what a user of a point-to-point fibre channel relies on.       *)
(* Written from the property statements C01-C06 and C09, not from the code.*)
(*                                                                         *)
(* One abstract channel: a FIFO `buf` of value ids, sender and receiver    *)
(* handles that are live or closed, operations in flight (`pend`) that     *)
(* take effect at silent linearization steps between their call and their  *)
(* return, futures (operations whose call is their creation and whose      *)
(* return is the poll that reports Ready, or their drop), and the fate of  *)
(* every value id (`out` = back with the user, `gone` = destroyed by the   *)
(* channel).                                                               *)
(*                                                                         *)
(* The module is a library of guards and effects; ChanTrace.tla drives it  *)
(* from histories recorded from the implementation and MC_ChanA.tla from   *)
(* an enumerated alphabet of API calls.                                    *)
(***************************************************************************)
EXTENDS Naturals, Sequences, FiniteSets, TLC

VARIABLES
  cfg,    \* [kind: "q" | "rv" | "os" | "bc", cap: Nat (0 = unbounded)]   bc = broadcast spmc: buf is the whole log
  buf,    \* sequence of value ids held by the channel, oldest first
  tx,     \* sender handle id   |-> "live" | "closed"   (dropped handles leave the domain)
  rx,     \* receiver handle id |-> "live" | "closed"
  disc,   \* receiver handles that have observed Disconnected
  once,   \* oneshot: a send has succeeded
  out,    \* value ids handed to the user by a receive or handed back by a failed send
  gone,   \* value ids destroyed by the channel
  cur,    \* broadcast (kind "bc"): receiver handle |-> number of values it has consumed
  pend    \* operation id |-> operation in flight (see NewOp)

chanVars == <<cfg, buf, tx, rx, disc, once, out, gone, cur, pend>>

SendOps    == {"send", "try_send", "send_batch", "try_send_batch", "send_batch_mut", "try_send_batch_mut"}
RecvOps    == {"recv", "try_recv", "recv_timeout", "recv_batch", "try_recv_batch",
               "recv_batch_mut", "try_recv_batch_mut", "poll_next"}
TryOps     == {"try_send", "try_send_batch", "try_send_batch_mut",
               "try_recv", "try_recv_batch", "try_recv_batch_mut"}
SingleRecv == {"recv", "try_recv", "recv_timeout", "poll_next"}
\* close() and the drop of a handle, when they overlap other threads' operations,
\* are operations too: their effect becomes visible somewhere between call and return.
LifeOps    == {"close", "drop"}
\* send forms whose error hands the unsent values back to the caller
CarryOps   == {"try_send", "send_batch", "try_send_batch", "send_batch_mut", "try_send_batch_mut"}

LiveS == {h \in DOMAIN tx : tx[h] = "live"}
LiveR == {h \in DOMAIN rx : rx[h] = "live"}

Rng(s) == {s[i] : i \in 1..Len(s)}

Bounded == cfg.cap > 0
\* broadcast: the slowest live receiver holds the sender back (C07)
MinOf(S) == CHOOSE x \in S : \A y \in S : x <= y
Backlog == IF LiveR = {} THEN 0 ELSE Len(buf) - MinOf({cur[h] : h \in LiveR})
Occupancy == IF cfg.kind = "bc" THEN Backlog ELSE Len(buf)
HasSpace == cfg.kind \in {"q", "bc"} /\ (~Bounded \/ Occupancy < cfg.cap)
IsFullNow == cfg.kind \in {"q", "bc"} /\ Bounded /\ Occupancy >= cfg.cap

\* An operation in flight.
\*   h       handle it was called on          op    API name
\*   vs      values still to be sent          n     values sent so far
\*   got     values received so far           max   batch limit
\*   lin     "" while it can still take effect, else its fixed result
\*   fut     TRUE for a future                started  polled at least once (threads: TRUE)
\*   woken   its waker ran since its last poll
NewOp(h, op, vs, max, isFut) ==
  [h |-> h, op |-> op, vs |-> vs, n |-> 0, got |-> <<>>, max |-> max, lin |-> "",
   fut |-> isFut, started |-> ~isFut, woken |-> FALSE]

Others(o) == DOMAIN pend \ {o}
\* Another operation overlaps o (is between its call and its return).
Overlap(o) == Others(o) # {}

IsSend(o) == pend[o].op \in SendOps
IsRecv(o) == pend[o].op \in RecvOps

\* Started, not yet linearized operations of the other side that a rendezvous
\* hand-off can pair with.
WaitingRecvs == {r \in DOMAIN pend : IsRecv(r) /\ pend[r].lin = "" /\ pend[r].started
                                      /\ pend[r].h \in DOMAIN rx /\ rx[pend[r].h] = "live"
                                      /\ pend[r].op \notin TryOps}
WaitingSends == {s \in DOMAIN pend : IsSend(s) /\ pend[s].lin = "" /\ pend[s].started
                                      /\ pend[s].vs # <<>>
                                      /\ pend[s].h \in DOMAIN tx /\ tx[pend[s].h] = "live"
                                      /\ pend[s].op \notin TryOps}

(***************************************************************************)
(* Guards: may operation o take this linearization step now?               *)
(***************************************************************************)
SenderRejected(o) == pend[o].h \notin DOMAIN tx \/ tx[pend[o].h] = "closed" \/ LiveR = {}

CanSendOne(o) ==
  /\ IsSend(o) /\ pend[o].lin = "" /\ pend[o].vs # <<>>
  /\ ~SenderRejected(o)
  /\ CASE cfg.kind \in {"q", "bc"} -> HasSpace
       [] cfg.kind = "os" -> ~once
       [] OTHER           -> FALSE        \* rendezvous: only by Handoff

CanSendClosed(o) == IsSend(o) /\ pend[o].lin = "" /\ SenderRejected(o)

\* (`Sent` while another send is in flight: which of two racing failures is reported is not promised)
CanSendSent(o) == IsSend(o) /\ pend[o].lin = "" /\ cfg.kind = "os"
                  /\ (once \/ \E s \in Others(o) : IsSend(s))

\* `Full`: exact when nothing overlaps; under overlap a claimed-but-unpublished
\* slot may make a non-blocking send report Full (C03 only constrains histories
\* without overlap).
CanSendFull(o) ==
  /\ IsSend(o) /\ pend[o].lin = "" /\ pend[o].op \in TryOps /\ pend[o].vs # <<>>
  /\ \/ IsFullNow
     \/ cfg.kind = "rv" /\ WaitingRecvs = {}
     \/ Overlap(o)

CanSendDone(o) == IsSend(o) /\ pend[o].lin = "" /\ pend[o].vs = <<>>

ReceiverRejected(o) == pend[o].h \notin DOMAIN rx \/ rx[pend[o].h] = "closed"

\* values the receive could take now: the queue head, or (broadcast) the next
\* value of this receiver's own view
Avail(h) == IF cfg.kind = "bc" THEN cur[h] < Len(buf) ELSE buf # <<>>
CanRecvOneBase(o) ==
  /\ IsRecv(o) /\ pend[o].lin = "" /\ ~ReceiverRejected(o)
  /\ cfg.kind # "rv"
  /\ Avail(pend[o].h)
  /\ Len(pend[o].got) < pend[o].max

\* C04 NoValueAfterDisc: a handle that observed Disconnected gets nothing more.
CanRecvOne(o) == CanRecvOneBase(o) /\ pend[o].h \notin disc

\* A receive may stop once it holds at least one value (batch maximality is not promised).
CanRecvDone(o) == IsRecv(o) /\ pend[o].lin = "" /\ pend[o].got # <<>>

CanRecvEmpty(o) ==
  /\ IsRecv(o) /\ pend[o].lin = "" /\ pend[o].got = <<>>
  /\ pend[o].op \in TryOps \cup {"recv_timeout"}
  /\ \/ ~ReceiverRejected(o) /\ ~Avail(pend[o].h) /\ (LiveS # {} \/ cfg.kind = "rv" \/ pend[o].op = "recv_timeout")
     \/ cfg.kind = "os" /\ buf = <<>> /\ once      \* the one value was taken: Empty or Disconnected
     \/ Overlap(o)

\* Senders that could still publish: a live handle, or an operation in flight
\* that already holds values (its handle is alive by construction).
NoSenderLeft == LiveS = {} /\ \A s \in DOMAIN pend : IsSend(s) => pend[s].h \notin DOMAIN tx \/ tx[pend[s].h] = "closed" \/ pend[s].lin # ""

CanRecvDisc(o) ==
  /\ IsRecv(o) /\ pend[o].lin = "" /\ pend[o].got = <<>>
  /\ \/ ReceiverRejected(o)
     \/ ~Avail(pend[o].h) /\ NoSenderLeft
     \/ cfg.kind = "os" /\ buf = <<>> /\ once

(***************************************************************************)
(* Could the operation make progress (complete or move a value) now?  Used  *)
(* for the quiescence obligations of C05 / C06.                            *)
(***************************************************************************)
\* (what a receive MUST be able to report, as opposed to what it MAY report: after the one value of a
\* oneshot was taken a receive may say Disconnected at once, but it is only obliged to once no sender is left)
MustRecvDisc(o) ==
  /\ IsRecv(o) /\ pend[o].lin = "" /\ pend[o].got = <<>>
  /\ \/ ReceiverRejected(o)
     \/ ~Avail(pend[o].h) /\ NoSenderLeft
Enabled(o) ==
  \/ CanSendOne(o) \/ CanSendClosed(o) \/ CanSendSent(o) \/ CanSendDone(o)
  \/ CanRecvOne(o) \/ CanRecvDone(o) \/ MustRecvDisc(o)
  \/ cfg.kind = "rv" /\ IsSend(o) /\ pend[o].lin = "" /\ pend[o].started /\ WaitingRecvs # {} /\ ~SenderRejected(o)
  \/ cfg.kind = "rv" /\ IsRecv(o) /\ pend[o].lin = "" /\ pend[o].started /\ WaitingSends # {} /\ ~ReceiverRejected(o)

(***************************************************************************)
(* Effects.                                                                *)
(***************************************************************************)
SetPend(o, r) == pend' = [pend EXCEPT ![o] = r]

SendOne(o) ==
  /\ CanSendOne(o)
  /\ LET v == Head(pend[o].vs) IN
     /\ buf' = Append(buf, v)
     /\ SetPend(o, [pend[o] EXCEPT !.vs = Tail(@), !.n = @ + 1])
  /\ once' = (once \/ cfg.kind = "os")
  /\ UNCHANGED <<cfg, tx, rx, disc, out, gone, cur>>

Finish(o, res) ==
  /\ SetPend(o, [pend[o] EXCEPT !.lin = res])
  /\ UNCHANGED <<cfg, buf, tx, rx, once, out, gone, cur>>

SendDone(o)   == CanSendDone(o)   /\ Finish(o, "ok")     /\ UNCHANGED disc
SendClosed(o) == CanSendClosed(o) /\ Finish(o, "closed") /\ UNCHANGED disc
SendSent(o)   == CanSendSent(o)   /\ Finish(o, "sent")   /\ UNCHANGED disc
SendFull(o)   == CanSendFull(o)   /\ Finish(o, "full")   /\ UNCHANGED disc

RecvOneEff(o) ==
  /\ IF cfg.kind = "bc"
       THEN /\ UNCHANGED buf
            /\ cur' = [cur EXCEPT ![pend[o].h] = @ + 1]
            /\ SetPend(o, [pend[o] EXCEPT !.got = Append(@, buf[cur[pend[o].h] + 1]),
                                          !.lin = IF pend[o].op \in SingleRecv THEN "val" ELSE @])
       ELSE /\ buf' = Tail(buf)
            /\ UNCHANGED cur
            /\ SetPend(o, [pend[o] EXCEPT !.got = Append(@, Head(buf)),
                                          !.lin = IF pend[o].op \in SingleRecv THEN "val" ELSE @])
  /\ UNCHANGED <<cfg, tx, rx, disc, once, out, gone>>

RecvOne(o) == CanRecvOne(o) /\ RecvOneEff(o)

RecvDone(o)  == CanRecvDone(o) /\ pend[o].op \notin SingleRecv /\ Finish(o, "val") /\ UNCHANGED disc
RecvEmpty(o) == CanRecvEmpty(o) /\ Finish(o, IF pend[o].op = "recv_timeout" THEN "timeout" ELSE "empty") /\ UNCHANGED disc
RecvDisc(o)  == CanRecvDisc(o) /\ Finish(o, "disc") /\ disc' = disc \cup {pend[o].h}

\* Rendezvous: a send and a receive that are both in flight take effect together.
Handoff(s, r) ==
  /\ cfg.kind = "rv" /\ s # r
  /\ s \in DOMAIN pend /\ r \in DOMAIN pend
  /\ IsSend(s) /\ IsRecv(r) /\ pend[s].lin = "" /\ pend[r].lin = ""
  /\ pend[s].vs # <<>> /\ pend[r].got = <<>>
  /\ ~SenderRejected(s) /\ ~ReceiverRejected(r)
  /\ pend[r].h \notin disc
  \* a non-blocking side can only meet a partner that is already waiting
  /\ (pend[s].op \in TryOps => r \in WaitingRecvs)
  /\ (pend[r].op \in TryOps => s \in WaitingSends)
  /\ ~(pend[s].op \in TryOps /\ pend[r].op \in TryOps)
  /\ pend' = [pend EXCEPT ![s] = [@ EXCEPT !.vs = Tail(@), !.n = @ + 1, !.lin = "ok"],
                          ![r] = [@ EXCEPT !.got = <<Head(pend[s].vs)>>, !.lin = "val"]]
  /\ UNCHANGED <<cfg, buf, tx, rx, disc, once, out, gone, cur>>

\* close: succeeds once per handle (C04 CloseIdempotent); drop: the handle is gone.
LifeLin(o) ==
  /\ pend[o].op \in LifeOps /\ pend[o].lin = ""
  /\ LET h == pend[o].h IN
     IF pend[o].op = "close"
       THEN /\ IF h \in DOMAIN tx
                 THEN /\ SetPend(o, [pend[o] EXCEPT !.lin = IF tx[h] = "live" THEN "ok" ELSE "err"])
                      /\ tx' = [tx EXCEPT ![h] = "closed"] /\ UNCHANGED rx
                 ELSE /\ SetPend(o, [pend[o] EXCEPT !.lin = IF rx[h] = "live" THEN "ok" ELSE "err"])
                      /\ rx' = [rx EXCEPT ![h] = "closed"] /\ UNCHANGED tx
            /\ UNCHANGED disc
       ELSE /\ SetPend(o, [pend[o] EXCEPT !.lin = "ok"])
            /\ tx' = [x \in DOMAIN tx \ {h} |-> tx[x]]
            /\ rx' = [x \in DOMAIN rx \ {h} |-> rx[x]]
            /\ disc' = disc \ {h}
  /\ UNCHANGED <<cfg, buf, once, out, gone, cur>>   \* (a dropped receiver's cursor is simply no longer looked at)

Lin(o) ==
  \/ SendOne(o) /\ UNCHANGED disc
  \/ SendDone(o) \/ SendClosed(o) \/ SendSent(o) \/ SendFull(o)
  \/ RecvOne(o) \/ RecvDone(o) \/ RecvEmpty(o) \/ RecvDisc(o)

(***************************************************************************)
(* Properties (state predicates over every reachable state).               *)
(***************************************************************************)
\* C03: never more than `cap` sent-but-unreceived values.
BoundedInv == Bounded => Occupancy <= cfg.cap
\* C01/C09: a value id is in exactly one place.
InFlightSend == UNION {Rng(pend[o].vs) : o \in DOMAIN pend}
InFlightRecv == UNION {Rng(pend[o].got) : o \in DOMAIN pend}
NoDupInv ==
  /\ \A i, j \in 1..Len(buf) : i # j => buf[i] # buf[j]
  /\ cfg.kind = "bc" \/ Rng(buf) \cap out = {}
  /\ cfg.kind = "bc" \/ Rng(buf) \cap gone = {}
  /\ cfg.kind = "bc" \/ out \cap gone = {}
  /\ cfg.kind = "bc" \/ InFlightRecv \cap Rng(buf) = {}
  /\ cfg.kind = "bc" \/ InFlightRecv \cap gone = {}
\* C01: oneshot accepts one value ever.
OneshotInv == cfg.kind = "os" => Len(buf) <= 1
\* C04: a handle that observed Disconnected is never handed a value afterwards
\*      (guard of RecvOne); nothing is buffered for it when it saw it.
RendezvousInv == cfg.kind = "rv" => buf = <<>>

ChanInv == BoundedInv /\ NoDupInv /\ OneshotInv /\ RendezvousInv
=========================================================================
