SPECIFICATION Spec
CONSTANTS
  Kind = "rv"
  Cap = 0
  MaxVal = 4
  Ops = {"send", "try_send", "recv", "try_recv"}
INVARIANT Inv
CHECK_DEADLOCK FALSE
