SPECIFICATION Spec
CONSTANTS
  Producers = {p1, p2}
  Items = 1
  Cap = 1
  K = 1
  SkipNotifies = TRUE
INVARIANT Inv
CHECK_DEADLOCK TRUE
