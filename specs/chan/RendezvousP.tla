---------------------------- MODULE RendezvousP ----------------------------
(***************************************************************************)
(* Layer P: the rendezvous hand-off / cancellation protocol of             *)
(* channels/src/internal/rendezvous.rs, one action per critical section or *)
(* atomic step.  A sender (`send`, blocking) meets a receiver that waits   *)
(* with a deadline (`recv_timeout`); the timeout may fire at any step.     *)
(*                                                                         *)
(* CasUnderLock = TRUE is the code after fix 6a381f1 (the cancellation CAS *)
(* is taken under the core lock).  CasUnderLock = FALSE is the pinned tree: *)
(* TLC then finds the Layer A violation F1 (send Ok, recv Timeout, value   *)
(* destroyed) in a handful of states.                                      *)
(***************************************************************************)
EXTENDS Naturals, Sequences, TLC

CONSTANT CasUnderLock

VARIABLES
  lock,      \* "" = free, "S" / "R" = holder of the core mutex
  waiting,   \* is the receiver's record in the receivers list
  popped,    \* the sender has popped the receiver's record (still under the lock)
  state,     \* the receiver record's state word: "WAITING" | "DONE" | "CANCELLED"
  dest,      \* the receiver's inline destination: "" or the value
  pcS, pcR,  \* program counters
  resS, resR \* results: "" | "ok" | "timeout" | value

vars == <<lock, waiting, popped, state, dest, pcS, pcR, resS, resR>>
V == "v"   \* the value being sent

Init == /\ lock = "" /\ waiting = FALSE /\ popped = FALSE /\ state = "WAITING" /\ dest = ""
        /\ pcS = "s_lock" /\ pcR = "r_lock" /\ resS = "" /\ resR = ""

\* ---- receiver: recv_timeout ---------------------------------------------------
\* (the sender-parked-first case is symmetric; here the receiver registers first or
\*  finds nobody, which is the case in which cancellation matters)
RLock == pcR = "r_lock" /\ lock = "" /\ lock' = "R" /\ pcR' = "r_register"
         /\ UNCHANGED <<waiting, popped, state, dest, pcS, resS, resR>>
RRegister == pcR = "r_register" /\ waiting' = TRUE /\ lock' = "" /\ pcR' = "r_wait"
             /\ UNCHANGED <<popped, state, dest, pcS, resS, resR>>
\* the wait loop: sees a terminal state, or the deadline passes (at any time)
RSeeDone == pcR = "r_wait" /\ state # "WAITING" /\ pcR' = "r_finish"
            /\ UNCHANGED <<lock, waiting, popped, state, dest, pcS, resS, resR>>
RTimeout == pcR = "r_wait" /\ state = "WAITING" /\ pcR' = (IF CasUnderLock THEN "c_lock" ELSE "c_cas")
            /\ UNCHANGED <<lock, waiting, popped, state, dest, pcS, resS, resR>>
\* cancel_receiver, as in the pinned tree: CAS first ...
CCasOutside == pcR = "c_cas" /\ ~CasUnderLock
               /\ (IF state = "WAITING" THEN state' = "CANCELLED" /\ pcR' = "c_lock_after"
                                        ELSE UNCHANGED state /\ pcR' = "r_finish")
               /\ UNCHANGED <<lock, waiting, popped, dest, pcS, resS, resR>>
\* ... then the lock, to unlink the record, and report Timeout
CLockAfter == pcR = "c_lock_after" /\ lock = "" /\ waiting' = FALSE /\ pcR' = "done" /\ resR' = "timeout"
              /\ UNCHANGED <<lock, popped, state, dest, pcS, resS>>
\* cancel_receiver after the fix: lock, then CAS, unlink, unlock -- one critical section
CLocked == pcR = "c_lock" /\ CasUnderLock /\ lock = ""
           /\ (IF state = "WAITING"
                 THEN state' = "CANCELLED" /\ waiting' = FALSE /\ pcR' = "done" /\ resR' = "timeout"
                 ELSE UNCHANGED <<state, waiting, resR>> /\ pcR' = "r_finish")
           /\ UNCHANGED <<lock, popped, dest, pcS, resS>>
RFinish == pcR = "r_finish"
           /\ resR' = (IF state = "DONE" THEN dest ELSE "timeout")
           /\ pcR' = "done" /\ UNCHANGED <<lock, waiting, popped, state, dest, pcS, resS>>

\* ---- sender: send -------------------------------------------------------------------
SLock == pcS = "s_lock" /\ lock = "" /\ lock' = "S" /\ pcS' = "s_pop"
         /\ UNCHANGED <<waiting, popped, state, dest, pcR, resS, resR>>
\* under the lock: a waiting receiver? pop its record (else this model's sender retries)
SPop == pcS = "s_pop" /\ lock = "S"
        /\ (IF waiting THEN waiting' = FALSE /\ popped' = TRUE /\ pcS' = "s_fulfill" /\ UNCHANGED <<lock, resS>>
                       ELSE \* nobody waits: park as a sender (not modelled further) -- here: retry, or give up
                            \* once the receiver has left
                            /\ lock' = "" /\ UNCHANGED <<waiting, popped>>
                            /\ IF pcR = "done" THEN pcS' = "done" /\ resS' = "noreceiver"
                                                ELSE pcS' = "s_lock" /\ UNCHANGED resS)
        /\ UNCHANGED <<state, dest, pcR, resR>>
\* still under the lock: fulfill_receiver writes the destination and publishes DONE
SFulfill == pcS = "s_fulfill" /\ lock = "S"
            /\ dest' = V /\ state' = "DONE" /\ lock' = "" /\ pcS' = "done" /\ resS' = "ok"
            /\ UNCHANGED <<waiting, popped, pcR, resR>>
\* the receiver gave up before the sender arrived: this model's sender gives up too
SGiveUp == pcS = "s_lock" /\ pcR = "done" /\ ~waiting /\ pcS' = "done" /\ resS' = "noreceiver"
           /\ UNCHANGED <<lock, waiting, popped, state, dest, pcR, resR>>

Next == RLock \/ RRegister \/ RSeeDone \/ RTimeout \/ CCasOutside \/ CLockAfter \/ CLocked \/ RFinish
        \/ SLock \/ SPop \/ SFulfill \/ SGiveUp
        \/ (pcS = "done" /\ pcR = "done" /\ UNCHANGED vars)
Spec == Init /\ [][Next]_vars /\ WF_vars(Next) /\ SF_vars(RLock) /\ SF_vars(SLock) /\ SF_vars(CLocked) /\ SF_vars(CLockAfter)

\* ---- Layer A, for this scenario ----------------------------------------------------------
\* C01: a send that reports success is received exactly once: never Ok on one side and
\* Timeout on the other; a receive returns only the value that was sent
Conservation == (pcS = "done" /\ pcR = "done") => ((resS = "ok") <=> (resR = V))
NoInvent == resR \in {"", "timeout", V}
\* C05: nobody is left waiting
Terminates == <>(pcS = "done" /\ pcR = "done")
=============================================================================
