SPECIFICATION Spec
CONSTANTS
  Senders = {s1}
  Leave = TRUE
  Again = FALSE
  F25 = FALSE
  F13 = FALSE
  F27 = FALSE
INVARIANT Inv
CHECK_DEADLOCK TRUE
