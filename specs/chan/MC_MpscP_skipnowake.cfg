SPECIFICATION Spec
CONSTANTS
  Producers = {p1, p2}
  Items = 1
  Cap = 1
  K = 1
  SkipNotifies = FALSE
INVARIANT Inv
CHECK_DEADLOCK TRUE
