SPECIFICATION Spec
CONSTANTS
  Kind = "q"
  Cap = 2
  MaxVal = 3
  Ops = {"send", "try_send", "send_batch", "recv", "try_recv", "recv_batch"}
INVARIANT Inv
CHECK_DEADLOCK FALSE
