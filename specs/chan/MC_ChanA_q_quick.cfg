SPECIFICATION Spec
CONSTANTS
  Kind = "q"
  Cap = 2
  MaxVal = 3
  Ops = {"send", "try_send", "recv", "try_recv"}
INVARIANT Inv
CHECK_DEADLOCK FALSE
