SPECIFICATION Spec
CONSTANTS
  Producers = {p1, p2}
  Items = 2
  Cap = 2
  K = 2
  SkipNotifies = TRUE
INVARIANT Inv
CHECK_DEADLOCK TRUE
