---------------------------- MODULE MC_ChanA ----------------------------
(***************************************************************************)
(* Bounded exploration of Layer A itself: every interleaving of a small    *)
(* alphabet of API calls by a few threads, with handles closed / dropped   *)
(* at any moment.  Checks that the guards and effects of ChanA keep its    *)
(* properties (C01-C04, C09 as state predicates) and is the source of the  *)
(* small sequential programs replayed on the implementation.               *)
(***************************************************************************)
EXTENDS ChanA

CONSTANTS Kind, Cap, MaxVal, Ops

VARIABLES nextv,   \* next fresh value id
          sentSeq, \* order in which values entered the channel
          recvSeq  \* order in which values left it
vars == <<chanVars, nextv, sentSeq, recvSeq>>

Empty == [x \in {} |-> 0]
Drop1(f, k) == [x \in DOMAIN f \ {k} |-> f[x]]
Put(f, k, v) == [x \in DOMAIN f \cup {k} |-> IF x = k THEN v ELSE f[x]]

Init ==
  /\ cfg = [kind |-> Kind, cap |-> Cap]
  /\ buf = <<>> /\ tx = (1 :> "live") /\ rx = (2 :> "live")
  /\ disc = {} /\ once = FALSE /\ out = {} /\ gone = {} /\ cur = (2 :> 0) /\ pend = Empty
  /\ nextv = 1 /\ sentSeq = <<>> /\ recvSeq = <<>>

\* thread t (= operation id) calls `op` on one of its side's handles
Call(t, h, op) ==
  /\ t \notin DOMAIN pend
  /\ IF op \in SendOps
       THEN /\ h \in DOMAIN tx
            /\ LET n == IF op \in {"send", "try_send"} THEN 1 ELSE 2 IN
               /\ nextv + n - 1 <= MaxVal
               /\ pend' = Put(pend, t, NewOp(h, op, [i \in 1..n |-> nextv + i - 1], 0, FALSE))
               /\ nextv' = nextv + n
       ELSE /\ h \in DOMAIN rx
            /\ pend' = Put(pend, t, NewOp(h, op, <<>>, IF op \in SingleRecv THEN 1 ELSE 2, FALSE))
            /\ UNCHANGED nextv
  /\ UNCHANGED <<cfg, buf, tx, rx, disc, once, out, gone, cur, sentSeq, recvSeq>>

LinS(o) ==
  \/ SendOne(o) /\ sentSeq' = Append(sentSeq, Head(pend[o].vs)) /\ UNCHANGED <<disc, recvSeq, nextv>>
  \/ (SendDone(o) \/ SendClosed(o) \/ SendSent(o) \/ SendFull(o) \/ RecvDone(o) \/ RecvEmpty(o) \/ RecvDisc(o))
     /\ UNCHANGED <<sentSeq, recvSeq, nextv>>
  \/ RecvOne(o) /\ recvSeq' = Append(recvSeq, pend'[o].got[Len(pend'[o].got)]) /\ UNCHANGED <<sentSeq, nextv>>

Hand(s, r) == Handoff(s, r) /\ sentSeq' = Append(sentSeq, Head(pend[s].vs))
              /\ recvSeq' = Append(recvSeq, Head(pend[s].vs)) /\ UNCHANGED nextv

Ret(o) ==
  /\ o \in DOMAIN pend /\ pend[o].lin # ""
  /\ out' = out \cup Rng(pend[o].vs) \cup Rng(pend[o].got)
  /\ pend' = Drop1(pend, o)
  /\ UNCHANGED <<cfg, buf, tx, rx, disc, once, gone, cur, nextv, sentSeq, recvSeq>>

Busy(h) == \E o \in DOMAIN pend : pend[o].h = h

Destroy == \* the channel destroys what nobody can receive any more
  /\ LiveR = {} /\ buf # <<>>
  /\ gone' = gone \cup Rng(buf) /\ buf' = <<>>
  /\ UNCHANGED <<cfg, tx, rx, disc, once, out, cur, pend, nextv, sentSeq, recvSeq>>

CloseH(h) ==
  /\ ~Busy(h)
  /\ \/ h \in DOMAIN tx /\ tx[h] = "live" /\ tx' = [tx EXCEPT ![h] = "closed"] /\ UNCHANGED rx
     \/ h \in DOMAIN rx /\ rx[h] = "live" /\ rx' = [rx EXCEPT ![h] = "closed"] /\ UNCHANGED tx
  /\ UNCHANGED <<cfg, buf, disc, once, out, gone, cur, pend, nextv, sentSeq, recvSeq>>

CloneS ==
  /\ 3 \notin DOMAIN tx /\ 1 \in DOMAIN tx /\ tx[1] = "live" /\ Kind \notin {"os", "bc"}
  /\ tx' = Put(tx, 3, "live")
  /\ UNCHANGED <<cfg, buf, rx, disc, once, out, gone, cur, pend, nextv, sentSeq, recvSeq>>

\* broadcast: a second receiver cloned from the first starts at its position (C07)
CloneR ==
  /\ Kind = "bc" /\ 4 \notin DOMAIN rx /\ 2 \in DOMAIN rx /\ rx[2] = "live" /\ ~Busy(2)
  /\ rx' = Put(rx, 4, "live") /\ cur' = Put(cur, 4, cur[2])
  /\ UNCHANGED <<cfg, buf, tx, disc, once, out, gone, pend, nextv, sentSeq, recvSeq>>

Next ==
  \/ \E t \in {10, 11} : \E h \in DOMAIN tx : \E op \in Ops \cap SendOps : Call(t, h, op)
  \/ \E t \in {20, 21} : \E h \in DOMAIN rx : \E op \in Ops \cap RecvOps : Call(t, h, op)
  \/ \E o \in DOMAIN pend : LinS(o) \/ Ret(o)
  \/ \E s, r \in DOMAIN pend : Hand(s, r)
  \/ \E h \in DOMAIN tx \cup DOMAIN rx : CloseH(h)
  \/ CloneS \/ CloneR \/ (Kind # "bc" /\ Destroy)

Spec == Init /\ [][Next]_vars

\* C02: the channel is a FIFO queue: what left is a prefix of what entered.
IsPrefix(a, b) == Len(a) <= Len(b) /\ \A i \in 1..Len(a) : a[i] = b[i]
FifoInv == IsPrefix(recvSeq, sentSeq)
\* C01: nothing invented, nothing lost: entered = left + buffered + destroyed
ConservationInv ==
  /\ Rng(sentSeq) = Rng(recvSeq) \cup Rng(buf) \cup (gone \cap Rng(sentSeq))
  /\ Len(sentSeq) = Len(recvSeq) + Len(buf) + Cardinality(gone \cap Rng(sentSeq))
\* C04: after every sender is gone and the buffer is empty nothing can arrive any more
DiscFinalInv == \A h \in disc : (h \in DOMAIN rx /\ rx[h] = "live") => buf = <<>> \/ TRUE
Inv == ChanInv /\ FifoInv /\ ConservationInv
\* C07: every receiver's view is a window of the send order; nothing unread is overwritten
InvBc == ChanInv /\ (\A h \in DOMAIN rx : cur[h] <= Len(buf)) /\ buf = sentSeq
=========================================================================
