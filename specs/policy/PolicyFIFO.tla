---------------------------- MODULE PolicyFIFO ---------------------------
(***************************************************************************)
(* Refinement of PolicyA for the FIFO policy: "FIFO evicts in insertion    *)
(* order, exactly as its definition says".                                 *)
(*                                                                         *)
(* `order` lists the tracked keys, first inserted first.  Accesses do not  *)
(* matter.  Every nomination is a prefix of `order`.                       *)
(*                                                                         *)
(* Left open by the statement: whether re-admitting a key that is still    *)
(* tracked counts as a new insertion (the entry is replaced, it goes to the*)
(* back of the queue) or not (the key keeps the place of its first         *)
(* insertion).  Both are "insertion order"; a policy has to be one or the  *)
(* other consistently, so the choice is the parameter `refresh`, fixed per *)
(* history.                                                                *)
(***************************************************************************)
EXTENDS PolicyA

VARIABLE order

Without(s, D) == SelectSeq(s, LAMBDA x : x \notin D)
IsPrefix(a, b) == Len(a) <= Len(b) /\ \A i \in 1..Len(a) : a[i] = b[i]
Ins(s, k, refresh) == IF k \in Rng(s) /\ ~refresh THEN s ELSE Append(Without(s, {k}), k)

OrderOk == NoDup(order) /\ Rng(order) = DOMAIN tracked

OrdAdmitGuard(k, d, vs, refresh) == d = "evict" => IsPrefix(vs, Ins(order, k, refresh))
OrdAdmitEff(k, d, vs, refresh) ==
  order' = IF d = "reject" THEN order ELSE Without(Ins(order, k, refresh), Rng(vs))
OrdAccessEff(k) == UNCHANGED order
OrdRemoveEff(k) == order' = Without(order, {k})
OrdEvictGuard(vs) == IsPrefix(vs, order)
OrdEvictEff(vs) == order' = Without(order, Rng(vs))
OrdClearEff == order' = <<>>

FifoAdmit(k, c, d, vs, refresh) ==
  Admit(k, c, d, vs) /\ OrdAdmitGuard(k, d, vs, refresh) /\ OrdAdmitEff(k, d, vs, refresh)
FifoAccess(k) == Access(k) /\ OrdAccessEff(k)
FifoRemove(k) == Remove(k) /\ OrdRemoveEff(k)
FifoEvict(n, vs, f) == Evict(n, vs, f, TRUE) /\ OrdEvictGuard(vs) /\ OrdEvictEff(vs)
FifoClear == Clear /\ OrdClearEff
=========================================================================
