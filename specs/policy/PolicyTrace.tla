--------------------------- MODULE PolicyTrace ---------------------------
(***************************************************************************)
(* Trace validation of histories recorded from the real eviction policies  *)
(* (driver fv-policyx) against Layer A (PolicyA; PolicyLRU / PolicyFIFO    *)
(* for the two policies whose victim order is defined exactly).            *)
(*                                                                         *)
(* One ndjson record per line (env TRACE); a `new` record starts a fresh   *)
(* history.  Histories are sequential and every record carries arguments   *)
(* and results, so validation is deterministic except for                  *)
(*   - the FIFO re-admission reading (fmode, chosen at `new`), and         *)
(*   - deviation actions of open known findings (only when listed in kf).  *)
(*                                                                         *)
(* records:                                                                *)
(*  {"k":"new","pols":[names],"inst":[labels],"kf":[ids],...}              *)
(*      the same history was produced by all these policy instances        *)
(*  {"k":"admit","key":K,"c":C,"d":"admit"|"reject"|"evict","v":[victims]} *)
(*  {"k":"access","key":K,"c":C}                                           *)
(*  {"k":"remove","key":K}                                                 *)
(*  {"k":"evict","n":N,"v":[victims],"f":FREED}                            *)
(*  {"k":"clear"}     {"k":"end"}                                          *)
(*  {"k":"panic",..} / {"k":"hung",..}: never accepted                     *)
(***************************************************************************)
EXTENDS PolicyA, Json, IOUtils, TLC

Rec == ndJsonDeserialize(IOEnv.TRACE)
N == Len(Rec)

VARIABLES
  l,        \* next record to explain
  cfg,      \* [pols: set of policy names, kf: enabled deviations]
  lruOrd,   \* PolicyLRU!order
  fifoOrd,  \* PolicyFIFO!order
  fmode,    \* PolicyFIFO reading of re-admission: TRUE = refresh
  devs      \* deviation actions used
vars == <<tracked, l, cfg, lruOrd, fifoOrd, fmode, devs>>

L == INSTANCE PolicyLRU WITH order <- lruOrd
F == INSTANCE PolicyFIFO WITH order <- fifoOrd

Max2(a, b) == IF a > b THEN a ELSE b
Track == TLCSet(1, Max2(TLCGet(1), l))

R == Rec[l]
Is(k) == l <= N /\ R.k = k
Next1 == l' = l + 1
SeqToSet(s) == {s[i] : i \in 1..Len(s)}

Dev(id) == id \in cfg.kf
Has(P) == cfg.pols \cap P # {}
IsLru == "lru" \in cfg.pols
IsFifo == "fifo" \in cfg.pols
\* Policies documented as never evicting: the "frees at least" clause does not apply.
NonEvicting == {"null"}
Evicting == cfg.pols \ NonEvicting # {}

Init ==
  /\ TLCSet(1, 0)
  /\ l = 1
  /\ cfg = [pols |-> {}, kf |-> {}]
  /\ tracked = Empty /\ lruOrd = <<>> /\ fifoOrd = <<>> /\ fmode = FALSE /\ devs = {}

New ==
  /\ Is("new")
  /\ cfg' = [pols |-> SeqToSet(R.pols), kf |-> SeqToSet(R.kf)]
  /\ tracked' = Empty /\ lruOrd' = <<>> /\ fifoOrd' = <<>> /\ devs' = {}
  /\ fmode' \in (IF "fifo" \in SeqToSet(R.pols) THEN {FALSE, TRUE} ELSE {FALSE})
  /\ Next1

\* ---- known findings ---------------------------------------------------------
\* F18: fifo, slru and clock ignore the cost of a re-admission: the recorded cost
\* stays the one of the first admission (slru: until an access carries the entry's
\* cost into the protected segment).
F18Pols == {"fifo", "slru", "clock"}
DevF18Admit ==
  /\ Dev("F18") /\ Has(F18Pols)
  /\ R.d = "admit" /\ R.v = <<>>
  /\ R.key \in DOMAIN tracked /\ tracked[R.key] # R.c
  /\ UNCHANGED tracked
  /\ devs' = devs \cup {"F18"}
DevF18Access ==
  /\ Dev("F18") /\ Has({"slru"})
  /\ R.key \in DOMAIN tracked /\ tracked[R.key] # R.c
  /\ tracked' = [tracked EXCEPT ![R.key] = R.c]
  /\ UNCHANGED devs

\* Shortfall findings: evict frees less than requested although the tracked keys
\* are worth it.
\*  F19 (arc): on_admit's replace() moves resident keys to the ghost lists without
\*      reporting them; they are never nominated afterwards.
\*  F25 (arc): replace() finds no victim while 0 < cost(T1) < p and T2 is empty.
\*  F26 (tinylfu): evict only looks at the main segment; keys still in the
\*      admission window are never nominated by evict.
\* With one of them enabled the clause "frees at least" is not checked for that
\* policy; all other clauses still are.
ShortDevs == {<<"F19", "arc">>, <<"F25", "arc">>, <<"F26", "tinylfu">>}
DevShort(id) == \E x \in ShortDevs : x[1] = id /\ Dev(id) /\ x[2] \in cfg.pols

\* ---- records ------------------------------------------------------------------
AdmitRec ==
  /\ Is("admit")
  /\ \/ Admit(R.key, R.c, R.d, R.v) /\ UNCHANGED devs
     \/ DevF18Admit
  /\ IsLru => L!OrdAdmitGuard(R.key, R.d, R.v)
  /\ L!OrdAdmitEff(R.key, R.d, R.v)
  /\ IsFifo => F!OrdAdmitGuard(R.key, R.d, R.v, fmode)
  /\ F!OrdAdmitEff(R.key, R.d, R.v, fmode)
  /\ UNCHANGED <<cfg, fmode>>
  /\ Next1

AccessRec ==
  /\ Is("access")
  /\ \/ Access(R.key) /\ UNCHANGED devs
     \/ DevF18Access
  /\ L!OrdAccessEff(R.key) /\ F!OrdAccessEff(R.key)
  /\ UNCHANGED <<cfg, fmode>>
  /\ Next1

RemoveRec ==
  /\ Is("remove")
  /\ Remove(R.key)
  /\ L!OrdRemoveEff(R.key) /\ F!OrdRemoveEff(R.key)
  /\ UNCHANGED <<cfg, fmode, devs>>
  /\ Next1

EvictRec ==
  /\ Is("evict")
  /\ EvictSafe(R.v, R.f)
  /\ IF Evicting => EvictEnough(R.n, R.f)
       THEN UNCHANGED devs
       ELSE \E id \in {"F19", "F25", "F26"} : DevShort(id) /\ devs' = devs \cup {id}
  /\ EvictEff(R.v)
  /\ IsLru => L!OrdEvictGuard(R.v)
  /\ L!OrdEvictEff(R.v)
  /\ IsFifo => F!OrdEvictGuard(R.v)
  /\ F!OrdEvictEff(R.v)
  /\ UNCHANGED <<cfg, fmode>>
  /\ Next1

ClearRec ==
  /\ Is("clear")
  /\ Clear /\ L!OrdClearEff /\ F!OrdClearEff
  /\ UNCHANGED <<cfg, fmode, devs>>
  /\ Next1

EndRec ==
  /\ Is("end")
  /\ \A d \in devs : PrintT(<<"DEV", d>>)
  /\ UNCHANGED <<tracked, cfg, lruOrd, fifoOrd, fmode, devs>>
  /\ Next1

Next == New \/ AdmitRec \/ AccessRec \/ RemoveRec \/ EvictRec \/ ClearRec \/ EndRec

Spec == Init /\ [][Next]_vars

\* evaluated at every step of every real history
PolicyInv == L!OrderOk /\ F!OrderOk

Accepted ==
  IF TLCGet(1) = N + 1
    THEN TRUE
    ELSE /\ PrintT(<<"REJECT", TLCGet(1), ToJson(Rec[TLCGet(1)])>>)
         /\ FALSE
=========================================================================
