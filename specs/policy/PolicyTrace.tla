--------------------------- MODULE PolicyTrace ---------------------------
(***************************************************************************)
(* Trace validation of histories recorded from the real eviction policies  *)
(* (driver fv-policyx) against Layer A (PolicyA; PolicyLRU / PolicyFIFO    *)
(* for the two policies whose victim order is defined exactly).            *)
(*                                                                         *)
(* One ndjson record per line (env TRACE); a `new` record starts a fresh   *)
(* history.  Histories are sequential and every record carries arguments   *)
(* and results, so validation is deterministic: exactly one state per      *)
(* record (both FIFO readings of re-admission are carried along).  The     *)
(* deviations of open known findings (enabled by the kf list of the `new`  *)
(* record) describe what the defective code does, deterministically, and   *)
(* are recorded in `devs` only where a record cannot be explained without  *)
(* them; with kf = [] the spec is strict.                                  *)
(*                                                                         *)
(* Because validation is deterministic, a record that cannot be explained  *)
(* is known to be unexplainable when it is reached: it is printed as       *)
(* <<"REJECT", index, record, history number>> and validation resumes at   *)
(* the next `new` record, so one TLC run judges every history of the file. *)
(* POSTCONDITION Accepted fails iff some record was rejected.              *)
(*                                                                         *)
(* records:                                                                *)
(*  {"k":"new","pols":[names],"inst":[labels],"caps":[..],"kf":[ids],...}  *)
(*      the same history was produced by all these policy instances        *)
(*  {"k":"admit","key":K,"c":C[,"d":"reject"|"evict","v":[victims]]}       *)
(*      (d defaults to "admit", v to [])                                   *)
(*  {"k":"access","key":K,"c":C}                                           *)
(*  {"k":"remove","key":K}                                                 *)
(*  {"k":"evict","n":N,"v":[victims],"f":FREED}                            *)
(*  {"k":"clear"}     {"k":"end"}                                          *)
(*  {"k":"panic",..} / {"k":"hung",..}: never accepted                     *)
(***************************************************************************)
EXTENDS PolicyA, Json, IOUtils, TLC

Rec == ndJsonDeserialize(IOEnv.TRACE)
N == Len(Rec)

VARIABLES
  l,        \* next record to explain
  hno,      \* number of the current history in the file (for the DEV / REJECT lines)
  cfg,      \* [pols: set of policy names, cap: constructor capacity of the first instance, kf: enabled deviations]
  over,     \* (for the guard of POL_F19) an admission happened while the tracked keys were worth >= cfg.cap
  rc,       \* recorded costs as a policy with an open cost finding (POL_F18) keeps them; = tracked otherwise
  lruOrd,   \* PolicyLRU!order
  fifoK,    \* PolicyFIFO!order under the reading "a re-admitted key keeps its place"
  fifoR,    \* PolicyFIFO!order under the reading "a re-admitted key goes to the back"
  fk, fr,   \* the reading is still consistent with this history
  devs      \* deviation actions used
vars == <<tracked, l, hno, cfg, over, rc, lruOrd, fifoK, fifoR, fk, fr, devs>>

L == INSTANCE PolicyLRU WITH order <- lruOrd
FK == INSTANCE PolicyFIFO WITH order <- fifoK
FR == INSTANCE PolicyFIFO WITH order <- fifoR

Max2(a, b) == IF a > b THEN a ELSE b
Track == TLCSet(1, Max2(TLCGet(1), l))

R == Rec[l]
Kind == IF l <= N THEN R.k ELSE "eof"
SeqToSet(s) == {s[i] : i \in 1..Len(s)}
\* fields with defaults
RD == IF "d" \in DOMAIN R THEN R.d ELSE "admit"
RV == IF "v" \in DOMAIN R THEN R.v ELSE <<>>

Dev(id) == id \in cfg.kf
Has(P) == cfg.pols \cap P # {}
IsLru == "lru" \in cfg.pols
IsFifo == "fifo" \in cfg.pols
\* Policies documented as never evicting: the "frees at least" clause does not apply.
NonEvicting == {"null"}
Evicting == cfg.pols \ NonEvicting # {}

Init ==
  /\ TLCSet(1, 0) /\ TLCSet(2, 0)
  /\ l = 1 /\ hno = 0
  /\ cfg = [pols |-> {}, cap |-> 0, kf |-> {}]
  /\ over = FALSE
  /\ tracked = Empty /\ rc = Empty /\ lruOrd = <<>> /\ fifoK = <<>> /\ fifoR = <<>>
  /\ fk = TRUE /\ fr = TRUE /\ devs = {}

\* ---- known findings ---------------------------------------------------------
\* POL_F18: fifo, slru and clock ignore the cost of a re-admission: the recorded cost
\* stays the one of the first admission since the key became tracked; slru
\* overwrites it with the cost carried by the next on_access of the key.
F18Pols == {"fifo", "slru", "clock"}
F18On == Dev("POL_F18") /\ Has(F18Pols)
RcAfterAdmit(k, c) == IF F18On /\ k \in DOMAIN tracked THEN rc ELSE Put(rc, k, c)
RcAfterAccess(k, c) == IF F18On /\ Has({"slru"}) /\ k \in DOMAIN tracked THEN [rc EXCEPT ![k] = c] ELSE rc

\* Shortfall findings: evict frees less than requested although the tracked keys
\* are worth it.  With one of them enabled the clause "frees at least" is checked
\* only as far as the guard below says; all other clauses still are.
\*  POL_F19 (arc): when the keys it tracks are worth its capacity or more, on_admit
\*      makes room with replace(), which moves a resident key to a ghost list
\*      without reporting it; the key is never nominated afterwards.  Guard: such
\*      an admission happened in this history (`over`).
\*  POL_F27 (arc): replace() finds no victim while 0 < cost(T1) < p and T2 is empty, so
\*      evict returns nothing although T1 holds resident keys.  Guard: arc, and
\*      POL_F19 cannot be the reason (or is not an open finding any more).
\*  POL_F28 (tinylfu): evict only looks at the main segment; keys still in the
\*      admission window (worth at most 1 % of the capacity, at least 1) are not
\*      nominated by evict.  Guard: what is left is worth no more than the window.
Window(cap) == IF cap = 0 THEN 0 ELSE Max2(1, (cap + 50) \div 100)
ShortDev(f) ==
  IF "arc" \in cfg.pols
    THEN IF over /\ Dev("POL_F19") THEN {"POL_F19"} ELSE {"POL_F27"} \cap cfg.kf
    ELSE IF "tinylfu" \in cfg.pols /\ Total - f <= Window(cfg.cap) THEN {"POL_F28"} \cap cfg.kf
    ELSE {}

\* ---- records: guard (state predicate) and effect ---------------------------------
Rest == <<cfg, hno>>

NewEff ==
  /\ cfg' = [pols |-> SeqToSet(R.pols), cap |-> IF Len(R.caps) > 0 THEN R.caps[1] ELSE 0, kf |-> SeqToSet(R.kf)]
  /\ hno' = hno + 1 /\ over' = FALSE
  /\ tracked' = Empty /\ rc' = Empty /\ lruOrd' = <<>> /\ fifoK' = <<>> /\ fifoR' = <<>>
  /\ fk' = TRUE /\ fr' = TRUE /\ devs' = {}

FifoAdmitK == fk /\ FK!OrdAdmitGuard(R.key, RD, RV, FALSE)
FifoAdmitR == fr /\ FR!OrdAdmitGuard(R.key, RD, RV, TRUE)
AdmitOk ==
  /\ AdmitGuard(R.key, R.c, RD, RV)
  /\ IsLru => L!OrdAdmitGuard(R.key, RD, RV)
  /\ IsFifo => FifoAdmitK \/ FifoAdmitR
AdmitEff ==
  /\ Admit(R.key, R.c, RD, RV)
  /\ rc' = IF RD = "reject" THEN rc
           ELSE Restrict(RcAfterAdmit(R.key, R.c), DOMAIN RcAfterAdmit(R.key, R.c) \ SeqToSet(RV))
  /\ L!OrdAdmitEff(R.key, RD, RV)
  /\ FK!OrdAdmitEff(R.key, RD, RV, FALSE) /\ FR!OrdAdmitEff(R.key, RD, RV, TRUE)
  /\ fk' = (IF IsFifo THEN FifoAdmitK ELSE fk) /\ fr' = (IF IsFifo THEN FifoAdmitR ELSE fr)
  /\ over' = (over \/ ("arc" \in cfg.pols /\ RD # "reject" /\ Total >= cfg.cap))
  /\ UNCHANGED <<Rest, devs>>

AccessEff ==
  /\ Access(R.key)
  /\ rc' = RcAfterAccess(R.key, R.c)
  /\ L!OrdAccessEff(R.key) /\ FK!OrdAccessEff(R.key) /\ FR!OrdAccessEff(R.key)
  /\ UNCHANGED <<Rest, over, fk, fr, devs>>

RemoveEff ==
  /\ Remove(R.key)
  /\ rc' = Restrict(rc, DOMAIN rc \ {R.key})
  /\ L!OrdRemoveEff(R.key) /\ FK!OrdRemoveEff(R.key) /\ FR!OrdRemoveEff(R.key)
  /\ UNCHANGED <<Rest, over, fk, fr, devs>>

\* rc = tracked unless POL_F18 is enabled for this policy; then this is PolicyA!Evict.
EvStrict == EvictSafe(R.v, R.f) /\ (Evicting => EvictEnough(R.n, R.f))
EvF18 == Evicting => EvictEnoughC(rc, R.n, R.f)            \* differs from EvStrict only when rc # tracked
FifoEvictK == fk /\ FK!OrdEvictGuard(R.v)
FifoEvictR == fr /\ FR!OrdEvictGuard(R.v)
EvictOk ==
  /\ EvictSafeC(rc, R.v, R.f)
  /\ EvStrict \/ EvF18 \/ ShortDev(R.f) # {}
  /\ IsLru => L!OrdEvictGuard(R.v)
  /\ IsFifo => FifoEvictK \/ FifoEvictR
EvictRecEff ==
  /\ devs' = IF EvStrict THEN devs ELSE IF EvF18 THEN devs \cup {"POL_F18"} ELSE devs \cup ShortDev(R.f)
  /\ EvictEff(R.v)
  /\ rc' = Restrict(rc, DOMAIN rc \ SeqToSet(R.v))
  /\ L!OrdEvictEff(R.v) /\ FK!OrdEvictEff(R.v) /\ FR!OrdEvictEff(R.v)
  /\ fk' = (IF IsFifo THEN FifoEvictK ELSE fk) /\ fr' = (IF IsFifo THEN FifoEvictR ELSE fr)
  /\ UNCHANGED <<Rest, over>>

ClearEff ==
  /\ Clear /\ rc' = Empty /\ L!OrdClearEff /\ FK!OrdClearEff /\ FR!OrdClearEff
  /\ over' = FALSE
  /\ UNCHANGED <<Rest, fk, fr, devs>>

EndEff ==
  /\ \A d \in devs : PrintT(<<"DEV", d, hno>>)
  /\ UNCHANGED <<tracked, Rest, over, rc, lruOrd, fifoK, fifoR, fk, fr, devs>>

\* the record at l can be explained from the current state
RecOk ==
  CASE Kind = "new" -> TRUE
    [] Kind = "admit" -> AdmitOk
    [] Kind = "access" -> TRUE
    [] Kind = "remove" -> TRUE
    [] Kind = "evict" -> EvictOk
    [] Kind = "clear" -> TRUE
    [] Kind = "end" -> TRUE
    [] OTHER -> FALSE           \* panic, hung, eof

Step ==
  /\ RecOk
  /\ CASE Kind = "new" -> NewEff
       [] Kind = "admit" -> AdmitEff
       [] Kind = "access" -> AccessEff
       [] Kind = "remove" -> RemoveEff
       [] Kind = "evict" -> EvictRecEff
       [] Kind = "clear" -> ClearEff
       [] Kind = "end" -> EndEff
  /\ l' = l + 1

\* An unexplainable record: report it and resume at the next history.
RECURSIVE NextNew(_)
NextNew(i) == IF i > N THEN i ELSE IF Rec[i].k = "new" THEN i ELSE NextNew(i + 1)
Fail ==
  /\ l <= N /\ ~RecOk
  /\ PrintT(<<"REJECT", l, ToJson(R), hno>>)
  /\ TLCSet(2, TLCGet(2) + 1)
  /\ l' = NextNew(l + 1)
  /\ UNCHANGED <<tracked, Rest, over, rc, lruOrd, fifoK, fifoR, fk, fr, devs>>

Next == Step \/ Fail

Spec == Init /\ [][Next]_vars

\* evaluated at every step of every real history
PolicyInv ==
  /\ L!OrderOk /\ FK!OrderOk /\ FR!OrderOk
  /\ DOMAIN rc = DOMAIN tracked /\ (~F18On => rc = tracked)
  /\ IsFifo => fk \/ fr

Accepted ==
  /\ TLCGet(1) = N + 1 \/ PrintT(<<"STUCK", TLCGet(1)>>)
  /\ TLCGet(1) = N + 1
  /\ TLCGet(2) = 0
=========================================================================
