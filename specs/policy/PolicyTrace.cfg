SPECIFICATION Spec
CONSTRAINT Track
INVARIANT PolicyInv
POSTCONDITION Accepted
CHECK_DEADLOCK FALSE
