SPECIFICATION Spec
CONSTANTS
  NK = 3
  Costs = {0,1,3}
  Ns = {1,4}
  SeqLen = 5
INVARIANT Emit
CHECK_DEADLOCK FALSE
