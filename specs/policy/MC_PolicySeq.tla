--------------------------- MODULE MC_PolicySeq --------------------------
(***************************************************************************)
(* Spec -> code: enumerates every sequence of PolicyA calls of length Len  *)
(* over NK keys, the costs Costs and the eviction requests Ns, up to       *)
(* renaming of keys (a new key is always the smallest unused one; the      *)
(* policies cannot tell keys apart other than by identity).  Each complete *)
(* sequence is printed as one JSON line; the driver fv-policyx replays it  *)
(* on every built-in policy.  Shorter sequences are the prefixes.          *)
(*                                                                         *)
(* A call is <<op, a, b>>:                                                 *)
(*   <<1, k, c>> on_admit(k, c)   <<2, k, 0>> on_access(k, cost last told) *)
(*   <<3, k, 0>> on_remove(k)     <<4, n, 0>> evict(n)    <<5, 0, 0>> clear *)
(***************************************************************************)
EXTENDS Naturals, Sequences, TLC, Json

CONSTANTS NK, Costs, Ns, SeqLen

VARIABLE hist

Min2(a, b) == IF a < b THEN a ELSE b
RECURSIVE MaxKey(_)
MaxKey(h) == IF h = <<>> THEN 0
             ELSE LET x == h[Len(h)]
                      m == MaxKey(SubSeq(h, 1, Len(h) - 1))
                  IN IF x[1] \in {1, 2, 3} /\ x[2] > m THEN x[2] ELSE m

Calls(maxk) ==
  {<<1, k, c>> : k \in 1..maxk, c \in Costs} \cup {<<2, k, 0>> : k \in 1..maxk}
  \cup {<<3, k, 0>> : k \in 1..maxk} \cup {<<4, n, 0>> : n \in Ns} \cup {<<5, 0, 0>>}

Init == hist = <<>>
Next == /\ Len(hist) < SeqLen
        /\ \E c \in Calls(Min2(NK, MaxKey(hist) + 1)) : hist' = Append(hist, c)
Spec == Init /\ [][Next]_hist

Emit == Len(hist) = SeqLen => PrintT(<<"SEQ", ToJson(hist)>>)
=========================================================================
