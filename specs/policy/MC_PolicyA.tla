---------------------------- MODULE MC_PolicyA ---------------------------
(***************************************************************************)
(* Bounded exhaustive exploration of Layer A for eviction policies: every  *)
(* sequence of admit/access/remove/evict/clear calls over a small alphabet,*)
(* every outcome PolicyA (Mode "any"), PolicyLRU ("lru") or PolicyFIFO     *)
(* ("fifo") allows, with the cache's side of the contract played by the    *)
(* history variables                                                       *)
(*   resident  keys the caller holds: admitted, not removed, not nominated *)
(*   told      cost the caller passed with the last accepted admission     *)
(*   nom       keys nominated and not re-admitted since                    *)
(*   last      outcome of the last evict                                   *)
(* The clauses of C14 are checked as invariants over these.                *)
(***************************************************************************)
EXTENDS PolicyA, TLC

CONSTANTS Keys, Costs, Ns, Mode, Refresh, Evicts

VARIABLES lruOrd, fifoOrd, resident, told, nom, last
vars == <<tracked, lruOrd, fifoOrd, resident, told, nom, last>>

L == INSTANCE PolicyLRU WITH order <- lruOrd
F == INSTANCE PolicyFIFO WITH order <- fifoOrd

\* all duplicate-free sequences over S
SeqsOver(S) == {s \in UNION {[1..n -> S] : n \in 0..Cardinality(S)} : NoDup(s)}

NoLast == [n |-> 0, f |-> 0, total |-> 0]

Init ==
  /\ tracked = Empty /\ lruOrd = <<>> /\ fifoOrd = <<>>
  /\ resident = {} /\ told = Empty /\ nom = {} /\ last = NoLast

OrdAdmit(k, d, vs) ==
  /\ Mode = "lru" => L!OrdAdmitGuard(k, d, vs)
  /\ L!OrdAdmitEff(k, d, vs)
  /\ Mode = "fifo" => F!OrdAdmitGuard(k, d, vs, Refresh)
  /\ F!OrdAdmitEff(k, d, vs, Refresh)

\* on_admit returns Admit: the caller keeps the entry.
AdmitOk(k, c) ==
  /\ Admit(k, c, "admit", <<>>) /\ OrdAdmit(k, "admit", <<>>)
  /\ resident' = resident \cup {k} /\ told' = Put(told, k, c) /\ nom' = nom \ {k}
  /\ last' = NoLast

\* on_admit returns Reject: "the insertion is aborted" (trait documentation): a new
\* key does not become resident, a resident one stays as it was.
AdmitReject(k, c) ==
  /\ Admit(k, c, "reject", <<>>) /\ OrdAdmit(k, "reject", <<>>)
  /\ UNCHANGED <<resident, told, nom>>
  /\ last' = NoLast

\* on_admit returns AdmitAndEvict(vs): the caller removes the victims.
AdmitEvict(k, c) ==
  \E vs \in SeqsOver(DOMAIN tracked \cup {k}) :
    /\ vs # <<>>
    /\ Admit(k, c, "evict", vs) /\ OrdAdmit(k, "evict", vs)
    /\ resident' = (resident \cup {k}) \ Rng(vs)
    /\ told' = Put(told, k, c)
    /\ nom' = (nom \ {k}) \cup Rng(vs)
    /\ last' = NoLast

DoAccess(k) ==
  /\ Access(k) /\ L!OrdAccessEff(k) /\ F!OrdAccessEff(k)
  /\ UNCHANGED <<resident, told, nom>> /\ last' = NoLast

DoRemove(k) ==
  /\ Remove(k) /\ L!OrdRemoveEff(k) /\ F!OrdRemoveEff(k)
  /\ resident' = resident \ {k}
  /\ UNCHANGED <<told, nom>> /\ last' = NoLast

DoEvict(n) ==
  \E vs \in SeqsOver(DOMAIN tracked) :
    LET f == SumCost(tracked, Rng(vs)) IN
    /\ Evict(n, vs, f, Evicts)
    /\ Mode = "lru" => L!OrdEvictGuard(vs)
    /\ L!OrdEvictEff(vs)
    /\ Mode = "fifo" => F!OrdEvictGuard(vs)
    /\ F!OrdEvictEff(vs)
    /\ resident' = resident \ Rng(vs)
    /\ nom' = nom \cup Rng(vs)
    /\ UNCHANGED told
    /\ last' = [n |-> n, f |-> f, total |-> Total]

DoClear ==
  /\ Clear /\ L!OrdClearEff /\ F!OrdClearEff
  /\ resident' = {} /\ UNCHANGED <<told, nom>> /\ last' = NoLast

Next ==
  \/ \E k \in Keys, c \in Costs : AdmitOk(k, c) \/ AdmitReject(k, c) \/ AdmitEvict(k, c)
  \/ \E k \in Keys : DoAccess(k) \/ DoRemove(k)
  \/ \E n \in Ns : DoEvict(n)
  \/ DoClear

Spec == Init /\ [][Next]_vars

\* ---- C14 as state predicates ----------------------------------------------------
TypeOK ==
  /\ DOMAIN tracked \subseteq Keys /\ \A k \in DOMAIN tracked : tracked[k] \in Costs
\* every resident key stays evictable, and nothing else is tracked
ResidentTracked == resident = DOMAIN tracked
\* re-admission updates the cost: the recorded cost is the one last told
CostsExact == \A k \in DOMAIN tracked : tracked[k] = told[k]
\* a nominated key is not nominated again without re-admission
NomFresh == nom \cap DOMAIN tracked = {}
\* no duplicates in the LRU / FIFO bookkeeping
OrdersOk == L!OrderOk /\ F!OrderOk
\* frees at least the requested cost whenever the tracked keys are worth it
EnoughFreed == (Evicts /\ last.total >= last.n) => last.f >= last.n
\* the contract is implementable: whatever is asked, some outcome is allowed
Implementable ==
  \A n \in Ns : \E vs \in SeqsOver(DOMAIN tracked) :
      /\ EvictSafe(vs, SumCost(tracked, Rng(vs))) /\ (Evicts => EvictEnough(n, SumCost(tracked, Rng(vs))))
      /\ Mode = "lru" => L!OrdEvictGuard(vs)
      /\ Mode = "fifo" => F!OrdEvictGuard(vs)

Inv == TypeOK /\ ResidentTracked /\ CostsExact /\ NomFresh /\ OrdersOk /\ EnoughFreed /\ Implementable
=========================================================================
