SPECIFICATION Spec
CONSTANTS
  Keys = {1,2,3}
  Costs = {0,1,2,3}
  Ns = {0,1,2,4,7}
  Mode = "fifo"
  Refresh = TRUE
  Evicts = TRUE
INVARIANT Inv
CHECK_DEADLOCK FALSE
