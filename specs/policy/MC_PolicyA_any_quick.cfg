SPECIFICATION Spec
CONSTANTS
  Keys = {1,2,3}
  Costs = {0,1,3}
  Ns = {0,1,4}
  Mode = "any"
  Refresh = FALSE
  Evicts = TRUE
INVARIANT Inv
CHECK_DEADLOCK FALSE
