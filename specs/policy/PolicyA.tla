----------------------------- MODULE PolicyA -----------------------------
(***************************************************************************)
(* Layer A: what the cache (the janitor) relies on from an eviction policy *)
(* (property C14).  Written from the property statement, not from the code.*)
(*                                                                         *)
(* The only abstract state is `tracked`: the keys the policy is currently  *)
(* tracking, each with its recorded cost (the cost it was last admitted    *)
(* with).  One action per observable outcome of the `CachePolicy` trait:   *)
(*                                                                         *)
(*   on_admit(k, c) -> Admit | Reject | AdmitAndEvict(victims)             *)
(*   on_access(k, c)                                                       *)
(*   on_remove(k)                                                          *)
(*   evict(n) -> (victims, freed)                                          *)
(*   clear()                                                               *)
(*                                                                         *)
(* Reading of the statement, clause by clause:                             *)
(*  - "only ever nominates keys it is currently tracking": victims (of     *)
(*    evict and of AdmitAndEvict) are in DOMAIN tracked.                   *)
(*  - "reports exactly their recorded costs": evict's `freed` is the sum of*)
(*    the recorded costs of its victims (the trait reports one total).     *)
(*  - "never nominates a key twice without re-admission": a victim list has*)
(*    no duplicates and a nominated key leaves `tracked`.                  *)
(*  - "stops tracking an admitted key only by nominating it or on being    *)
(*    told it was removed, so every resident key stays evictable": no other*)
(*    action shrinks `tracked` (clear() empties it: the cache is cleared). *)
(*    Observable consequence: the next clause is evaluated on ALL tracked  *)
(*    keys -- "its evictable keys" are the tracked keys.                   *)
(*  - "frees at least the requested cost whenever its evictable keys are   *)
(*    worth that much": Total >= n  =>  freed >= n.                        *)
(*  - "re-admitting a key updates its cost rather than duplicating it":    *)
(*    Admit overwrites tracked[k].                                         *)
(*                                                                         *)
(* Deliberately left open (the statement does not say):                    *)
(*  - which keys are chosen (except LRU / FIFO, see PolicyLRU/PolicyFIFO), *)
(*    and whether more than necessary is evicted (no minimality);          *)
(*  - what evict does when the tracked keys are worth less than n;         *)
(*  - victims returned by on_admit (any tracked keys, including the key    *)
(*    being admitted: an admission filter turning it away);                *)
(*  - Reject: the admission has no effect on the tracked set (no built-in  *)
(*    policy returns it);                                                  *)
(*  - the cost argument of on_access: the caller passes the entry's cost,  *)
(*    i.e. the cost of the last admission; it does not change the record.  *)
(*  - a policy documented as non-evicting (NullPolicy: "never evicts       *)
(*    anything", installed for unbounded caches whose janitor never calls  *)
(*    evict) has no evictable keys: the "frees at least" clause is vacuous *)
(*    for it (`ev = FALSE`); whatever it does nominate is still checked.   *)
(***************************************************************************)
EXTENDS Naturals, Sequences, FiniteSets

VARIABLE tracked      \* tracked key |-> recorded cost

Empty == [x \in {} |-> 0]
Put(f, k, v) == [x \in DOMAIN f \cup {k} |-> IF x = k THEN v ELSE f[x]]
Restrict(f, S) == [x \in S |-> f[x]]
Rng(s) == {s[i] : i \in 1..Len(s)}
NoDup(s) == \A i, j \in 1..Len(s) : i # j => s[i] # s[j]

RECURSIVE SumCost(_, _)
SumCost(f, S) == IF S = {} THEN 0
                 ELSE LET k == CHOOSE x \in S : TRUE IN f[k] + SumCost(f, S \ {k})

Total == SumCost(tracked, DOMAIN tracked)

Decisions == {"admit", "reject", "evict"}

\* ---- on_admit(k, c) -> d, vs (vs = <<>> unless d = "evict") -----------------
AfterAdmit(k, c) == Put(tracked, k, c)
AdmitVictimsOk(k, c, vs) == NoDup(vs) /\ Rng(vs) \subseteq DOMAIN AfterAdmit(k, c)

\* guard only (what the outcome must satisfy), for callers that need it as a state predicate
AdmitGuard(k, c, d, vs) ==
  \/ d \in {"admit", "reject"} /\ vs = <<>>
  \/ d = "evict" /\ AdmitVictimsOk(k, c, vs)

Admit(k, c, d, vs) ==
  \/ /\ d = "admit" /\ vs = <<>>
     /\ tracked' = AfterAdmit(k, c)
  \/ /\ d = "reject" /\ vs = <<>>
     /\ UNCHANGED tracked
  \/ /\ d = "evict"
     /\ AdmitVictimsOk(k, c, vs)
     /\ tracked' = Restrict(AfterAdmit(k, c), DOMAIN AfterAdmit(k, c) \ Rng(vs))

\* ---- on_access(k, c) ----------------------------------------------------------
Access(k) == UNCHANGED tracked

\* ---- on_remove(k) -------------------------------------------------------------
Remove(k) == tracked' = Restrict(tracked, DOMAIN tracked \ {k})

\* ---- evict(n) -> (vs, f) ------------------------------------------------------
\* (the ...C forms take the recorded costs as a parameter; PolicyTrace uses them to
\* describe known deviations of the recorded cost)
EvictSafeC(rc, vs, f) ==
  /\ NoDup(vs)
  /\ Rng(vs) \subseteq DOMAIN tracked
  /\ f = SumCost(rc, Rng(vs))
EvictEnoughC(rc, n, f) == SumCost(rc, DOMAIN tracked) >= n => f >= n
EvictSafe(vs, f) == EvictSafeC(tracked, vs, f)
EvictEnough(n, f) == EvictEnoughC(tracked, n, f)
EvictEff(vs) == tracked' = Restrict(tracked, DOMAIN tracked \ Rng(vs))

Evict(n, vs, f, ev) ==
  /\ EvictSafe(vs, f)
  /\ ev => EvictEnough(n, f)
  /\ EvictEff(vs)

\* ---- clear() ------------------------------------------------------------------
Clear == tracked' = Empty
=========================================================================
