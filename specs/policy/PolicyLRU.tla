---------------------------- MODULE PolicyLRU ----------------------------
(***************************************************************************)
(* Refinement of PolicyA for the LRU policy: "LRU evicts in least-recently-*)
(* used order, exactly as its definition says".                            *)
(*                                                                         *)
(* `order` lists the tracked keys, least recently used first.  A key is    *)
(* used when it is admitted (first time or again: being written is a use)  *)
(* and when it is accessed while tracked.  Every nomination is a prefix of *)
(* `order`: the victims are the least recently used keys, reported least   *)
(* recently used first.  How long the prefix is, is PolicyA's business     *)
(* (enough cost; minimality is not demanded).                              *)
(*                                                                         *)
(* Every action is the PolicyA action conjoined with a guard and an effect *)
(* on `order`, so PolicyLRU => PolicyA holds by construction.              *)
(***************************************************************************)
EXTENDS PolicyA

VARIABLE order

Without(s, D) == SelectSeq(s, LAMBDA x : x \notin D)
IsPrefix(a, b) == Len(a) <= Len(b) /\ \A i \in 1..Len(a) : a[i] = b[i]
Touch(s, k) == Append(Without(s, {k}), k)

OrderOk == NoDup(order) /\ Rng(order) = DOMAIN tracked

OrdAdmitGuard(k, d, vs) == d = "evict" => IsPrefix(vs, Touch(order, k))
OrdAdmitEff(k, d, vs) == order' = IF d = "reject" THEN order ELSE Without(Touch(order, k), Rng(vs))
OrdAccessEff(k) == order' = IF k \in DOMAIN tracked THEN Touch(order, k) ELSE order
OrdRemoveEff(k) == order' = Without(order, {k})
OrdEvictGuard(vs) == IsPrefix(vs, order)
OrdEvictEff(vs) == order' = Without(order, Rng(vs))
OrdClearEff == order' = <<>>

LruAdmit(k, c, d, vs) == Admit(k, c, d, vs) /\ OrdAdmitGuard(k, d, vs) /\ OrdAdmitEff(k, d, vs)
LruAccess(k) == Access(k) /\ OrdAccessEff(k)
LruRemove(k) == Remove(k) /\ OrdRemoveEff(k)
LruEvict(n, vs, f) == Evict(n, vs, f, TRUE) /\ OrdEvictGuard(vs) /\ OrdEvictEff(vs)
LruClear == Clear /\ OrdClearEff
=========================================================================
