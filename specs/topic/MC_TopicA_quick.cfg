SPECIFICATION Spec
CONSTANTS
  Cap = 1
  MaxVal = 4
  Topics = {0}
INVARIANT Inv
CHECK_DEADLOCK FALSE
