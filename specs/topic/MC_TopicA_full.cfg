SPECIFICATION Spec
CONSTANTS
  Cap = 1
  MaxVal = 6
  Topics = {0, 1}
INVARIANT Inv
CHECK_DEADLOCK FALSE
