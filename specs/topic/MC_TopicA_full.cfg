SPECIFICATION Spec
CONSTANTS
  Cap = 1
  MaxVal = 3
  Topics = {0, 1}
INVARIANT Inv
CHECK_DEADLOCK FALSE
