---------------------------- MODULE MC_TopicA ----------------------------
(* Bounded exploration of TopicA: 2 sender handles, 2 receivers, 2 topics. *)
EXTENDS TopicA

CONSTANTS Cap, MaxVal, Topics

VARIABLES nextv,
          pubLog,  \* sequence of [t, v, subs]: every accepted publish with the receivers subscribed (and live) at that time
          got      \* receiver |-> sequence of values it received
vars == <<topicVars, nextv, pubLog, got>>

Empty == [x \in {} |-> 0]

Init ==
  /\ cap = Cap /\ stx = (1 :> "live") /\ fut = Empty
  /\ rcv = (2 :> [st |-> "live", subs |-> {}, box |-> <<>>])
  /\ nextv = 1 /\ pubLog = <<>> /\ got = (2 :> <<>>)

Pub(h, t) ==
  /\ nextv <= MaxVal /\ h \in DOMAIN stx /\ ~PubRejected(h)
  /\ rcv' = Deliver(t, nextv)
  /\ pubLog' = Append(pubLog, [t |-> t, v |-> nextv, subs |-> {r \in LiveRx : t \in rcv[r].subs}])
  /\ nextv' = nextv + 1
  /\ UNCHANGED <<cap, stx, fut, got>>

Recv(r) ==
  /\ r \in DOMAIN rcv /\ CanVal(r)
  /\ got' = [got EXCEPT ![r] = Append(@, Head(rcv[r].box)[2])]
  /\ rcv' = TakeHead(r)
  /\ UNCHANGED <<cap, stx, fut, nextv, pubLog>>

Sub(r, t) == r \in LiveRx /\ rcv' = [rcv EXCEPT ![r].subs = @ \cup {t}] /\ UNCHANGED <<cap, stx, fut, nextv, pubLog, got>>
Unsub(r, t) == r \in LiveRx /\ t \in rcv[r].subs /\ rcv' = [rcv EXCEPT ![r].subs = @ \ {t}] /\ UNCHANGED <<cap, stx, fut, nextv, pubLog, got>>
CloneR == /\ 4 \notin DOMAIN rcv /\ 2 \in LiveRx
          /\ rcv' = Put(rcv, 4, [st |-> "live", subs |-> rcv[2].subs, box |-> <<>>])
          /\ got' = Put(got, 4, <<>>) /\ UNCHANGED <<cap, stx, fut, nextv, pubLog>>
CloneS == /\ 3 \notin DOMAIN stx /\ 1 \in LiveTx /\ stx' = Put(stx, 3, "live")
          /\ UNCHANGED <<cap, rcv, fut, nextv, pubLog, got>>
CloseS(h) == h \in LiveTx /\ stx' = [stx EXCEPT ![h] = "closed"] /\ UNCHANGED <<cap, rcv, fut, nextv, pubLog, got>>
CloseR(r) == r \in LiveRx /\ rcv' = [rcv EXCEPT ![r].st = "closed"] /\ UNCHANGED <<cap, stx, fut, nextv, pubLog, got>>

Next ==
  \/ \E h \in DOMAIN stx, t \in Topics : Pub(h, t)
  \/ \E r \in DOMAIN rcv : Recv(r) \/ CloseR(r) \/ \E t \in Topics : Sub(r, t) \/ Unsub(r, t)
  \/ \E h \in DOMAIN stx : CloseS(h)
  \/ CloneR \/ CloneS
Spec == Init /\ [][Next]_vars

\* C08: what a receiver got is, in publish order, a subsequence of the publishes it was
\* subscribed to at publish time, each at most once
Mine(r) == SelectSeq(pubLog, LAMBDA p : r \in p.subs)
IsSubseq(a, b) == \* a is a subsequence of b (both duplicate free)
  /\ \A i \in 1..Len(a) : \E j \in 1..Len(b) : b[j] = a[i]
  /\ \A i, k \in 1..Len(a) : i < k => \E j, m \in 1..Len(b) : j < m /\ b[j] = a[i] /\ b[m] = a[k]
RoutedInv == \A r \in DOMAIN got :
   IsSubseq(got[r] \o [i \in 1..Len(rcv[r].box) |-> rcv[r].box[i][2]], [i \in 1..Len(Mine(r)) |-> Mine(r)[i].v])
\* C08: Disconnected is observable exactly when every sender is gone and the mailbox is drained
DiscInv == \A r \in LiveRx : CanDisc(r) <=> (rcv[r].box = <<>> /\ LiveTx = {})
Inv == TopicInv /\ RoutedInv /\ DiscInv
=========================================================================
