--------------------------- MODULE TopicTrace ---------------------------
(* Trace validation of topic histories against TopicA (same idiom as ChanTrace). *)
EXTENDS TopicA, Json, IOUtils, SequencesExt

Rec == ndJsonDeserialize(IOEnv.TRACE)
N == Len(Rec)
VARIABLES l, kf, devs, aux
vars == <<topicVars, l, kf, devs, aux>>

Max2(a, b) == IF a > b THEN a ELSE b
Track == TLCSet(1, Max2(TLCGet(1), l))
\* A state that breaks a Layer A invariant is not an explanation: it is pruned (and does not
\* count as progress), so an invariant can only fail the validation by leaving no explanation.
TrackOk == TopicInv /\ Track /\ (l = N + 1 => PrintT(<<"ACCEPTED", N>>) /\ TLCSet("exit", TRUE))
R == Rec[l]
Is(k) == l <= N /\ R.k = k
Next1 == l' = l + 1
SeqToSet(s) == {s[i] : i \in 1..Len(s)}
Empty == [x \in {} |-> 0]
Dev(id) == id \in kf

Init ==
  /\ TLCSet(1, 0) /\ l = 1 /\ kf = {} /\ devs = {} /\ aux = [dropped |-> FALSE, blk |-> 0, revived |-> FALSE, pres |-> ""]
  /\ cap = 1 /\ stx = Empty /\ rcv = Empty /\ fut = Empty

New ==
  /\ Is("new")
  /\ cap' = R.cap /\ kf' = SeqToSet(R.kf) /\ devs' = {} /\ aux' = [dropped |-> FALSE, blk |-> 0, revived |-> FALSE, pres |-> ""]
  /\ stx' = [h \in SeqToSet(R.tx) |-> "live"]
  /\ rcv' = [h \in SeqToSet(R.rx) |-> [st |-> "live", subs |-> {}, box |-> <<>>]]
  /\ fut' = Empty
  /\ Next1

\* Known finding F11a: sender handles are not counted: closing or dropping ONE
\* sender clone disconnects every subscribed mailbox although another sender
\* handle is alive.  aux.dropped remembers that some sender handle went away.
SendersGoneDev == Dev("F11a") /\ aux.dropped

Pub ==
  /\ Is("pub") /\ R.h \in DOMAIN stx
  /\ IF PubRejected(R.h)
       THEN R.res = "closed" /\ UNCHANGED rcv
       ELSE R.res = "ok" /\ rcv' = Deliver(R.topic, R.v)
  /\ UNCHANGED <<cap, stx, fut, kf, devs, aux>>
  /\ Next1

\* Threaded scenarios (topic-thr): the main thread records a publish in two records, `pubc` BEFORE the call
\* (the message is in the mailboxes from here on: a receiver thread may log that it got it before the
\* publisher logs its return) and `pubr` after it with the result; sender handles are dropped after
\* their `hdrop` record.  Receiver threads log `fcall` before a blocking receive and `fret` after it.
PubC ==
  /\ Is("pubc") /\ R.h \in DOMAIN stx
  /\ IF PubRejected(R.h)
       THEN aux' = [aux EXCEPT !.pres = "closed"] /\ UNCHANGED rcv
       ELSE aux' = [aux EXCEPT !.pres = "ok"] /\ rcv' = Deliver(R.topic, R.v)
  /\ UNCHANGED <<cap, stx, fut, kf, devs>>
  /\ Next1

PubR ==
  /\ Is("pubr") /\ R.res = aux.pres
  /\ UNCHANGED <<topicVars, kf, devs, aux>> /\ Next1

\* a receiver thread is still inside its blocking receive long after the last action of the main thread:
\* legitimate only if that receive cannot complete (C08: Disconnected is observed once every sender is gone
\* and the mailbox is drained; a delivered message wakes the receiver)
TBlocked ==
  /\ Is("tblocked") /\ R.o \in DOMAIN fut
  /\ ~RecvEnabled(fut[R.o].h)
  /\ UNCHANGED <<topicVars, kf, devs, aux>> /\ Next1

\* a timed receive of a receiver thread gave up: not judged (the timeout races with the publisher's records)
TGiveUp ==
  /\ Is("tgiveup") /\ R.o \in DOMAIN fut
  /\ fut' = Drop1(fut, R.o)
  /\ UNCHANGED <<cap, stx, rcv, kf, devs, aux>> /\ Next1

\* one receive call (sequential: call and return in one record)
RecvRes(r, res, t, v) ==
  \/ res = "val" /\ CanVal(r) /\ Head(rcv[r].box) = <<t, v>> /\ rcv' = TakeHead(r) /\ UNCHANGED devs
  \/ res \in {"empty", "timeout"} /\ CanEmpty(r) /\ UNCHANGED <<rcv, devs>>
  \/ res = "disc" /\ CanDisc(r) /\ UNCHANGED <<rcv, devs>>
  \* F11a: Disconnected (or a missing message) although a sender handle is alive
  \/ res = "disc" /\ SendersGoneDev /\ ~RecvRejected(r) /\ rcv[r].box = <<>> /\ UNCHANGED rcv /\ devs' = devs \cup {"F11a"}
  \* F24 (topic): cloning a closed sender after the sender side was gone revives it, but the
  \* mailboxes stay disconnected: Disconnected while a sender handle is alive again
  \/ res = "disc" /\ Dev("F24") /\ aux.revived /\ ~RecvRejected(r) /\ rcv[r].box = <<>> /\ UNCHANGED rcv /\ devs' = devs \cup {"F24"}
  \* F11b: a receiver whose mailbox is on no subscriber list is never told that the senders are gone
  \/ res \in {"empty", "timeout"} /\ Dev("F11b") /\ ~RecvRejected(r) /\ rcv[r].box = <<>> /\ LiveTx = {}
     /\ UNCHANGED rcv /\ devs' = devs \cup {"F11b"}

\* a blocking recv() is about to be called on h
RCall ==
  /\ Is("rcall") /\ R.h \in DOMAIN rcv
  /\ aux' = [aux EXCEPT !.blk = R.h]
  /\ UNCHANGED <<topicVars, kf, devs>> /\ Next1

Recv ==
  /\ Is("recv") /\ R.h \in DOMAIN rcv
  /\ \A o \in DOMAIN fut : fut[o].h # R.h
  /\ RecvRes(R.h, R.res, R.topic, R.v)
  /\ aux' = [aux EXCEPT !.blk = 0]
  /\ UNCHANGED <<cap, stx, fut, kf>>
  /\ Next1

\* the program never returned from the blocking recv (C05 for the topic receiver):
\* legitimate only if that receive cannot complete
Hung ==
  /\ Is("hung") /\ aux.blk \in DOMAIN rcv
  /\ \/ ~RecvEnabled(aux.blk) /\ UNCHANGED devs
     \/ Dev("F11b") /\ ~RecvRejected(aux.blk) /\ rcv[aux.blk].box = <<>> /\ LiveTx = {} /\ devs' = devs \cup {"F11b"}
  /\ \A d \in devs' : PrintT(<<"DEV", d>>)
  /\ UNCHANGED <<topicVars, kf, aux>> /\ Next1

FCall ==
  /\ Is("fcall") /\ R.h \in DOMAIN rcv /\ R.o \notin DOMAIN fut
  /\ fut' = Put(fut, R.o, [h |-> R.h, started |-> FALSE, woken |-> FALSE])
  /\ UNCHANGED <<cap, stx, rcv, kf, devs, aux>> /\ Next1

FPend ==
  /\ Is("fpend") /\ R.o \in DOMAIN fut
  \* a poll may report Pending only if the receive cannot complete (sequential history)
  /\ ~RecvEnabled(fut[R.o].h) \/ (Dev("F11b") /\ rcv[fut[R.o].h].box = <<>> /\ LiveTx = {})
  /\ fut' = [fut EXCEPT ![R.o] = [@ EXCEPT !.started = TRUE, !.woken = FALSE]]
  /\ UNCHANGED <<cap, stx, rcv, kf, devs, aux>> /\ Next1

FRet ==
  /\ Is("fret") /\ R.o \in DOMAIN fut
  /\ RecvRes(fut[R.o].h, R.res, R.topic, R.v)
  /\ fut' = Drop1(fut, R.o)
  /\ UNCHANGED <<cap, stx, kf, aux>> /\ Next1

FCancel ==
  /\ Is("fcancel") /\ R.o \in DOMAIN fut
  /\ fut' = Drop1(fut, R.o)
  /\ UNCHANGED <<cap, stx, rcv, kf, devs, aux>> /\ Next1

Wake ==
  /\ Is("wake")
  /\ fut' = IF R.o \in DOMAIN fut THEN [fut EXCEPT ![R.o] = [@ EXCEPT !.woken = TRUE]] ELSE fut
  /\ UNCHANGED <<cap, stx, rcv, kf, devs, aux>> /\ Next1

Sub ==
  /\ Is("sub") /\ R.h \in DOMAIN rcv
  /\ rcv' = [rcv EXCEPT ![R.h].subs = @ \cup {R.topic}]
  /\ UNCHANGED <<cap, stx, fut, kf, devs, aux>> /\ Next1

Unsub ==
  /\ Is("unsub") /\ R.h \in DOMAIN rcv
  /\ rcv' = [rcv EXCEPT ![R.h].subs = @ \ {R.topic}]
  /\ UNCHANGED <<cap, stx, fut, kf, devs, aux>> /\ Next1

\* a clone of a receiver has its own empty mailbox and the same subscriptions;
\* a clone of a sender is one more sender handle
Clone ==
  /\ Is("clone")
  /\ IF R.h \in DOMAIN stx
       THEN /\ \E st \in (IF stx[R.h] = "live" THEN {"live"} ELSE {"live", "closed"}) :
                 /\ stx' = Put(stx, R.nh, st)
                 /\ aux' = [aux EXCEPT !.revived = @ \/ (st = "live" /\ LiveTx = {})]
            /\ UNCHANGED rcv
       ELSE /\ R.h \in DOMAIN rcv
            \* (what a clone of a closed handle is, is not promised: either)
            \* (nor what a clone made after every sender handle was dropped is)
            \* (closing a receiver ends its subscriptions; whether a clone made afterwards gets the
            \* set it had or none is not promised either)
            /\ \E st \in (IF rcv[R.h].st = "live" /\ DOMAIN stx # {} THEN {"live"} ELSE {"live", "closed"}) :
               \E sb \in (IF rcv[R.h].st = "live" THEN {rcv[R.h].subs} ELSE {rcv[R.h].subs, {}}) :
                 rcv' = Put(rcv, R.nh, [st |-> st, subs |-> sb, box |-> <<>>])
            /\ UNCHANGED <<stx, aux>>
  /\ UNCHANGED <<cap, fut, kf, devs>> /\ Next1

Conv ==
  /\ Is("conv")
  /\ IF R.h \in DOMAIN stx
       THEN stx' = Put(Drop1(stx, R.h), R.nh, stx[R.h]) /\ UNCHANGED rcv
       ELSE R.h \in DOMAIN rcv /\ rcv' = Put(Drop1(rcv, R.h), R.nh, rcv[R.h]) /\ UNCHANGED stx
  /\ \A o \in DOMAIN fut : fut[o].h # R.h
  /\ UNCHANGED <<cap, fut, kf, devs, aux>> /\ Next1

Close ==
  /\ Is("close")
  /\ IF R.h \in DOMAIN stx
       THEN /\ R.res = (IF stx[R.h] = "live" THEN "ok" ELSE "err")
            /\ stx' = [stx EXCEPT ![R.h] = "closed"] /\ UNCHANGED rcv
            /\ aux' = [aux EXCEPT !.dropped = TRUE]
       ELSE /\ R.h \in DOMAIN rcv
            /\ R.res = (IF rcv[R.h].st = "live" THEN "ok" ELSE "err")
            /\ rcv' = [rcv EXCEPT ![R.h].st = "closed"] /\ UNCHANGED <<stx, aux>>
  /\ UNCHANGED <<cap, fut, kf, devs>> /\ Next1

HDrop ==
  /\ Is("hdrop")
  /\ \A o \in DOMAIN fut : fut[o].h # R.h
  /\ IF R.h \in DOMAIN stx
       THEN stx' = Drop1(stx, R.h) /\ UNCHANGED rcv /\ aux' = [aux EXCEPT !.dropped = TRUE]
       ELSE R.h \in DOMAIN rcv /\ rcv' = Drop1(rcv, R.h) /\ UNCHANGED <<stx, aux>>
  /\ UNCHANGED <<cap, fut, kf, devs>> /\ Next1

\* C06 for the topic receiver: a pending, polled recv future that could complete has been woken
Quiesce ==
  /\ Is("quiesce")
  /\ \A o \in DOMAIN fut :
        (fut[o].started /\ RecvEnabled(fut[o].h)) => fut[o].woken \/ (Dev("F11b") /\ rcv[fut[o].h].box = <<>>)
  /\ UNCHANGED <<topicVars, kf, devs, aux>> /\ Next1

End ==
  /\ Is("end")
  /\ \A d \in devs : PrintT(<<"DEV", d>>)
  /\ UNCHANGED <<topicVars, kf, devs, aux>> /\ Next1

\* the waker of an earlier poll (replaced by a re-poll with another waker) was invoked: it
\* wakes nobody, so it does not count as waking the operation
WakeStale == Is("wake_stale") /\ UNCHANGED <<topicVars, kf, devs, aux>> /\ Next1

Next ==
  \/ WakeStale \/ New \/ Pub \/ PubC \/ PubR \/ TBlocked \/ TGiveUp \/ Recv \/ RCall \/ Hung \/ FCall \/ FPend \/ FRet \/ FCancel \/ Wake \/ Sub \/ Unsub \/ Clone \/ Conv \/ Close \/ HDrop \/ Quiesce \/ End
Spec == Init /\ [][Next]_vars

Accepted ==
  IF TLCGet(1) = N + 1 THEN TRUE
  ELSE /\ PrintT(<<"REJECT", TLCGet(1), ToJson(Rec[TLCGet(1)])>>) /\ FALSE
=========================================================================
