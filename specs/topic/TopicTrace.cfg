SPECIFICATION Spec
CONSTRAINT Track
INVARIANT TopicInv
POSTCONDITION Accepted
CHECK_DEADLOCK FALSE
