----------------------------- MODULE TopicA -----------------------------
(***************************************************************************)
(* Layer A for the topic pub/sub channel (C08, and the topic part of C04).  *)
(* Written from the property statement.                                    *)
(*                                                                         *)
(* Sender handles publish (topic, value); every receiver handle owns a     *)
(* bounded mailbox and a set of subscribed topics.  A publish appends to    *)
(* the mailbox of every receiver subscribed to the topic at that moment,   *)
(* except that a full mailbox omits the newest message; it never blocks.   *)
(* A receiver observes Disconnected exactly when every sender handle is    *)
(* gone (dropped or closed) and its mailbox is drained, whatever it is     *)
(* subscribed to.                                                          *)
(***************************************************************************)
EXTENDS Naturals, Sequences, FiniteSets, TLC

VARIABLES
  cap,   \* mailbox capacity
  stx,   \* sender handle   |-> "live" | "closed"   (dropped handles leave the domain)
  rcv,   \* receiver handle |-> [st, subs, box]  box: sequence of <<topic, value>>
  fut    \* pending recv futures: op id |-> [h, started, woken]

topicVars == <<cap, stx, rcv, fut>>

LiveTx == {h \in DOMAIN stx : stx[h] = "live"}
LiveRx == {h \in DOMAIN rcv : rcv[h].st = "live"}

Put(f, k, v) == [x \in DOMAIN f \cup {k} |-> IF x = k THEN v ELSE f[x]]
Drop1(f, k) == [x \in DOMAIN f \ {k} |-> f[x]]

\* ---- publish ---------------------------------------------------------------
\* Closed: this handle was closed, or no receiver handle is left (C04).
PubRejected(h) == stx[h] = "closed" \/ LiveRx = {}

Deliver(t, v) ==
  [r \in DOMAIN rcv |->
     IF rcv[r].st = "live" /\ t \in rcv[r].subs /\ Len(rcv[r].box) < cap
       THEN [rcv[r] EXCEPT !.box = Append(@, <<t, v>>)]
       ELSE rcv[r]]            \* not subscribed, or full mailbox: the newest message is omitted

\* ---- receive -----------------------------------------------------------------
\* result of a receive on handle r, and the state after it
RecvRejected(r) == rcv[r].st = "closed"
CanVal(r)   == ~RecvRejected(r) /\ rcv[r].box # <<>>
CanEmpty(r) == ~RecvRejected(r) /\ rcv[r].box = <<>> /\ LiveTx # {}
CanDisc(r)  == RecvRejected(r) \/ (rcv[r].box = <<>> /\ LiveTx = {})
TakeHead(r) == [rcv EXCEPT ![r].box = Tail(@)]

\* Could a pending receive on r complete now?
RecvEnabled(r) == CanVal(r) \/ CanDisc(r)

\* ---- invariants ----------------------------------------------------------------
BoxBounded == \A r \in DOMAIN rcv : Len(rcv[r].box) <= cap
OnlySubscribedTopics == TRUE   \* enforced by construction of Deliver; see TopicTrace for the observation side
TopicInv == BoxBounded
=========================================================================
