SPECIFICATION Spec
CONSTRAINT Track
POSTCONDITION Accepted
CHECK_DEADLOCK FALSE
