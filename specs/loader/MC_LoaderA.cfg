SPECIFICATION Spec
CONSTANTS
  Callers = {1, 2, 3}
  Keys = {1, 2}
  MaxLoads = 2
INVARIANT Inv
CHECK_DEADLOCK FALSE
