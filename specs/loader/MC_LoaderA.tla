--------------------------- MODULE MC_LoaderA ---------------------------
(* Bounded exploration of LoaderA: callers fetch keys concurrently, a load   *)
(* starts only for a miss (or as the refresh of a stale value) with no load  *)
(* running, every caller returns a value loaded for its key, an invalidation *)
(* makes the next fetch miss, a value past its TTL inside the stale window   *)
(* is served while one refresh runs and is then replaced.                    *)
EXTENDS LoaderA
CONSTANTS Callers, Keys, MaxLoads
VARIABLES loads,   \* key |-> number of loads started
          nextv, invalidated, expired
vars == <<loaderVars, loads, nextv, invalidated, expired>>
Empty == [x \in {} |-> 0]
Init == /\ live = Empty /\ loading = {} /\ pend = Empty /\ stale = {} /\ landing = Empty
        /\ loads = [k \in Keys |-> 0] /\ nextv = 1 /\ invalidated = 0 /\ expired = 0

Call(c, k) == /\ c \notin DOMAIN pend
              /\ pend' = Put(pend, c, [op |-> "fetch", key |-> k, cand |-> CandNow(k)])
              /\ UNCHANGED <<live, loading, stale, landing, loads, nextv, invalidated, expired>>
\* a miss with no load in flight elects a leader, a stale hit starts the refresh: the loader starts
LoadStart(k) == /\ CanLoadStart(k)
                /\ \E c \in DOMAIN pend : pend[c].key = k /\ (pend[c].cand = {} \/ k \in stale)
                /\ loads[k] < MaxLoads
                /\ loading' = loading \cup {k} /\ loads' = [loads EXCEPT ![k] = @ + 1]
                /\ UNCHANGED <<live, pend, stale, landing, nextv, invalidated, expired>>
LoadDone(k) == /\ k \in loading /\ k \notin DOMAIN landing
               /\ landing' = Put(landing, k, nextv) /\ nextv' = nextv + 1
               /\ pend' = [c \in DOMAIN pend |-> IF pend[c].key = k THEN [pend[c] EXCEPT !.cand = @ \cup {nextv}] ELSE pend[c]]
               /\ UNCHANGED <<live, loading, stale, loads, invalidated, expired>>
Land(k) == LandEffect(k) /\ UNCHANGED <<pend, loads, nextv, invalidated, expired>>
\* a caller returns a value of its key; the value a load delivered is resident by then
Ret(c) == /\ c \in DOMAIN pend /\ pend[c].cand # {}
          /\ \E v \in pend[c].cand : ~(pend[c].key \in DOMAIN landing /\ landing[pend[c].key] = v)
          /\ pend' = Drop1(pend, c)
          /\ UNCHANGED <<live, loading, stale, landing, loads, nextv, invalidated, expired>>
Invalidate(k) == /\ invalidated < 1 /\ Live(k) # 0 /\ k \notin loading /\ DOMAIN pend = {}
                 /\ live' = Put(live, k, 0) /\ stale' = stale \ {k} /\ invalidated' = invalidated + 1
                 /\ UNCHANGED <<loading, pend, landing, loads, nextv, expired>>
\* the clock passes the TTL of every resident value
Expire == /\ expired < 1 /\ stale' = {k \in Keys : Live(k) # 0} /\ expired' = expired + 1
          /\ UNCHANGED <<live, loading, pend, landing, loads, nextv, invalidated>>
Next == \/ \E c \in Callers, k \in Keys : Call(c, k)
        \/ \E k \in Keys : LoadStart(k) \/ LoadDone(k) \/ Land(k) \/ Invalidate(k)
        \/ \E c \in Callers : Ret(c)
        \/ Expire
Spec == Init /\ [][Next]_vars /\ WF_vars(Next)
\* C15: never a load for a fresh resident key, never two loads of one key at once; a caller
\* that waits always has a load to wait for or a value to return
SingleFlightInv == \A k \in Keys : (k \in loading => Live(k) = 0 \/ k \in stale)
NoOrphanWaiter == \A c \in DOMAIN pend : pend[c].cand # {} \/ pend[c].key \in loading \/ CanLoadStart(pend[c].key)
LoadsBounded == \A k \in Keys : loads[k] <= 1 + invalidated + expired
StaleIsLive == \A k \in stale : Live(k) # 0
Inv == SingleFlightInv /\ NoOrphanWaiter /\ LoadsBounded /\ StaleIsLive
=========================================================================
