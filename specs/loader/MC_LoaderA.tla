--------------------------- MODULE MC_LoaderA ---------------------------
(* Bounded exploration of LoaderA: callers fetch keys concurrently, a load   *)
(* starts only for a miss with no load running, every caller returns a      *)
(* value loaded for its key, an invalidation makes the next fetch miss.     *)
EXTENDS LoaderA
CONSTANTS Callers, Keys, MaxLoads
VARIABLES loads,   \* key |-> number of loads started
          nextv, invalidated
vars == <<loaderVars, loads, nextv, invalidated>>
Empty == [x \in {} |-> 0]
Init == live = Empty /\ loading = {} /\ pend = Empty /\ loads = [k \in Keys |-> 0] /\ nextv = 1 /\ invalidated = 0

Call(c, k) == /\ c \notin DOMAIN pend
              /\ pend' = Put(pend, c, [op |-> "fetch", key |-> k, cand |-> IF Live(k) # 0 THEN {Live(k)} ELSE {}])
              /\ UNCHANGED <<live, loading, loads, nextv, invalidated>>
\* a miss with no load in flight elects a leader: the loader starts
LoadStart(k) == /\ CanLoadStart(k) /\ \E c \in DOMAIN pend : pend[c].key = k /\ pend[c].cand = {}
                /\ loads[k] < MaxLoads
                /\ loading' = loading \cup {k} /\ loads' = [loads EXCEPT ![k] = @ + 1]
                /\ UNCHANGED <<live, pend, nextv, invalidated>>
LoadDone(k) == /\ k \in loading /\ loading' = loading \ {k} /\ live' = Put(live, k, nextv) /\ nextv' = nextv + 1
               /\ pend' = [c \in DOMAIN pend |-> IF pend[c].key = k THEN [pend[c] EXCEPT !.cand = @ \cup {nextv}] ELSE pend[c]]
               /\ UNCHANGED <<loads, invalidated>>
Ret(c) == /\ c \in DOMAIN pend /\ pend[c].cand # {} /\ pend' = Drop1(pend, c)
          /\ UNCHANGED <<live, loading, loads, nextv, invalidated>>
Invalidate(k) == /\ invalidated < 1 /\ Live(k) # 0 /\ k \notin loading /\ DOMAIN pend = {}
                 /\ live' = Put(live, k, 0) /\ invalidated' = invalidated + 1
                 /\ UNCHANGED <<loading, pend, loads, nextv>>
Next == \/ \E c \in Callers, k \in Keys : Call(c, k)
        \/ \E k \in Keys : LoadStart(k) \/ LoadDone(k) \/ Invalidate(k)
        \/ \E c \in Callers : Ret(c)
Spec == Init /\ [][Next]_vars /\ WF_vars(Next)
\* C15: never a load for a resident key, never two loads of one key at once; a caller
\* that waits always has a load to wait for or a value to return
SingleFlightInv == \A k \in Keys : (k \in loading => Live(k) = 0)
NoOrphanWaiter == \A c \in DOMAIN pend : pend[c].cand # {} \/ pend[c].key \in loading \/ CanLoadStart(pend[c].key)
LoadsBounded == \A k \in Keys : loads[k] <= 1 + invalidated
Inv == SingleFlightInv /\ NoOrphanWaiter /\ LoadsBounded
=========================================================================
