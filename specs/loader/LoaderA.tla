----------------------------- MODULE LoaderA -----------------------------
(***************************************************************************)
(* Layer A for the cache loader (C15): for any number of concurrent         *)
(* fetch_with calls that miss on the same key the loader runs exactly once  *)
(* per miss, every caller returns that one loaded value, nobody waits       *)
(* forever once the loader has returned, a later miss after invalidation    *)
(* triggers exactly one new load, loads of different keys do not block each *)
(* other.  Written from the property statement.                             *)
(***************************************************************************)
EXTENDS Naturals, Sequences, FiniteSets, TLC

VARIABLES
  live,     \* key |-> value resident (0 = none)
  loading,  \* keys whose loader is running
  pend,     \* operation id |-> [op, k, cand]  cand: values this fetch may return
  stale,    \* keys whose resident value is past its TTL but inside the stale-while-revalidate window
  landing   \* key |-> value the loader returned that is not resident yet (the task inserts it next)

loaderVars == <<live, loading, pend, stale, landing>>
Put(f, k, v) == [x \in DOMAIN f \cup {k} |-> IF x = k THEN v ELSE f[x]]
Drop1(f, k) == [x \in DOMAIN f \ {k} |-> f[x]]
Live(k) == IF k \in DOMAIN live THEN live[k] ELSE 0

\* the loader closure is entered for key k: only for a miss or for the refresh of a stale value,
\* and only one at a time (a load counts as running until its value is resident)
CanLoadStart(k) == k \notin loading /\ (Live(k) = 0 \/ k \in stale)
\* values a fetch of k called now may return without a further load finishing
CandNow(k) == (IF Live(k) # 0 THEN {Live(k)} ELSE {}) \cup (IF k \in DOMAIN landing THEN {landing[k]} ELSE {})
\* the value the loader returned becomes resident (fresh) and the load is over
LandEffect(k) == /\ k \in DOMAIN landing
                 /\ live' = Put(live, k, landing[k]) /\ stale' = stale \ {k}
                 /\ loading' = loading \ {k} /\ landing' = Drop1(landing, k)
\* a fetch of k can only be waiting for something while a load of k is running
FetchHasReasonToWait(k) == k \in loading
=========================================================================
