--------------------------- MODULE LoaderTrace ---------------------------
(* Trace validation of fetch_with histories against LoaderA.               *)
EXTENDS LoaderA, Json, IOUtils, SequencesExt
Rec == ndJsonDeserialize(IOEnv.TRACE)
N == Len(Rec)
VARIABLES l, kf, devs
vars == <<loaderVars, l, kf, devs>>
Max2(a, b) == IF a > b THEN a ELSE b
Track == TLCSet(1, Max2(TLCGet(1), l)) /\ (l = N + 1 => TLCSet("exit", TRUE))
R == Rec[l]
Is(k) == l <= N /\ R.k = k
Next1 == l' = l + 1
SeqToSet(s) == {s[i] : i \in 1..Len(s)}
Empty == [x \in {} |-> 0]
Dev(id) == id \in kf

Init == TLCSet(1, 0) /\ l = 1 /\ live = Empty /\ loading = {} /\ pend = Empty /\ stale = {} /\ landing = Empty /\ kf = {} /\ devs = {}

New == Is("new") /\ live' = Empty /\ loading' = {} /\ pend' = Empty /\ stale' = {} /\ landing' = Empty /\ kf' = SeqToSet(R.kf) /\ devs' = {} /\ Next1

\* fetch_with(key) is called: it may return the resident value, or any value a load of
\* this key delivers while the call is in flight
Call ==
  /\ Is("call") /\ R.o \notin DOMAIN pend
  /\ pend' = Put(pend, R.o, [op |-> R.op, key |-> R.key,
                             cand |-> IF R.op = "fetch" THEN CandNow(R.key) ELSE {}, landed |-> FALSE])
  /\ UNCHANGED <<live, loading, stale, landing, kf, devs>> /\ Next1

\* the loader closure starts for key: exactly once per miss (C15 SingleFlight)
LoadStart ==
  /\ Is("lstart")
  /\ \/ CanLoadStart(R.key) /\ UNCHANGED devs
     \* Known finding F20: a caller that missed before the first load inserted its value and
     \* reaches the pending-load stripe after the marker was removed starts a second load
     \/ /\ Dev("F20") /\ R.key \notin loading /\ Live(R.key) # 0
        /\ \E o \in DOMAIN pend : pend[o].op = "fetch" /\ pend[o].key = R.key
        /\ devs' = devs \cup {"F20"}
  /\ loading' = loading \cup {R.key}
  /\ UNCHANGED <<live, pend, stale, landing, kf>> /\ Next1

\* the loader closure returns value v for key: it is a candidate result of every fetch of
\* that key in flight; the loader task makes it resident next (Land, not recorded)
LoadDone ==
  /\ Is("ldone") /\ R.key \in loading /\ R.key \notin DOMAIN landing
  /\ landing' = Put(landing, R.key, R.v)
  /\ UNCHANGED <<live, loading, stale>>
  /\ pend' = [o \in DOMAIN pend |->
                IF pend[o].op = "fetch" /\ pend[o].key = R.key THEN [pend[o] EXCEPT !.cand = @ \cup {R.v}] ELSE pend[o]]
  /\ UNCHANGED <<kf, devs>> /\ Next1

\* silent: the loader task inserts the value it loaded (fresh) and the load is over; an
\* invalidation of the key in flight may have been ordered before or after the insert
Land ==
  /\ l <= N /\ \E k \in DOMAIN landing :
       /\ LandEffect(k)
       /\ pend' = [o \in DOMAIN pend |->
                IF pend[o].op = "invalidate" /\ pend[o].key = k THEN [pend[o] EXCEPT !.landed = TRUE] ELSE pend[o]]
  /\ UNCHANGED <<l, kf, devs>>

Ret ==
  /\ Is("ret") /\ R.o \in DOMAIN pend
  /\ LET k == pend[R.o].key IN
     /\ IF pend[R.o].op = "fetch"
          \* every caller returns a loaded value of its key, and a value a load delivered is
          \* resident by the time a caller returns it
          THEN R.v \in pend[R.o].cand /\ ~(k \in DOMAIN landing /\ landing[k] = R.v)
          ELSE TRUE
     /\ IF pend[R.o].op = "invalidate"
          THEN \/ live' = Put(live, k, 0) /\ stale' = stale \ {k}
               \/ pend[R.o].landed /\ UNCHANGED <<live, stale>>
          ELSE UNCHANGED <<live, stale>>
  /\ pend' = Drop1(pend, R.o)
  /\ UNCHANGED <<loading, landing, kf, devs>> /\ Next1

\* the clock passes the TTL of every resident value (inside the stale-while-revalidate window)
Adv ==
  /\ Is("adv")
  /\ stale' = {k \in DOMAIN live : live[k] # 0}
  /\ UNCHANGED <<live, loading, pend, landing, kf, devs>> /\ Next1

\* nothing can run: a blocked fetch must be waiting for a load that is still running
Quiesce ==
  /\ Is("quiesce") /\ DOMAIN landing = {}
  /\ \A o \in SeqToSet(R.blocked) : o \in DOMAIN pend /\ pend[o].op = "fetch" /\ FetchHasReasonToWait(pend[o].key)
  /\ UNCHANGED <<loaderVars, kf, devs>> /\ Next1

Hung == (Is("hung") \/ Is("inconclusive")) /\ UNCHANGED <<loaderVars, kf, devs>> /\ Next1
End == /\ Is("end") /\ DOMAIN pend = {} /\ loading = {} /\ DOMAIN landing = {}
       /\ \A d \in devs : PrintT(<<"DEV", d>>)
       /\ UNCHANGED <<loaderVars, kf, devs>> /\ Next1

Next == Land \/ Adv \/ New \/ Call \/ LoadStart \/ LoadDone \/ Ret \/ Quiesce \/ Hung \/ End
Spec == Init /\ [][Next]_vars
Accepted == IF TLCGet(1) = N + 1 THEN TRUE ELSE PrintT(<<"REJECT", TLCGet(1), ToJson(Rec[TLCGet(1)])>>) /\ FALSE
=========================================================================
