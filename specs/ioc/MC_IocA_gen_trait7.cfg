SPECIFICATION Spec
CONSTANTS
  Threads = {1}
  KeySet <- Keys_SQN2
  TraitTypes = {"Q0", "Q1"}
  PlainKinds <- Plain_All
  MaxDeps = 0
  ViaSet <- Vias_Get
  MaxOps = 7
  MaxRegs = 7
  MaxDepth = 2
  SymClasses <- Sym_None
  Gen = TRUE
VIEW GenView
ACTION_CONSTRAINT Emit
INVARIANT Inv
CHECK_DEADLOCK FALSE
