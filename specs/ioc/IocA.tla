------------------------------ MODULE IocA ------------------------------
(***************************************************************************)
(* Layer A: what a user of the fibre IoC containers relies on (C18).       *)
(* Written from the property statement, not from the code.                 *)
(*                                                                         *)
(*   "Resolving a singleton from any number of threads runs its factory    *)
(*    at most once and gives every caller the same instance, while a       *)
(*    transient registration yields a fresh instance on every resolution.  *)
(*    Services are keyed by type and optional name, so differently typed   *)
(*    or named registrations never alias, an unregistered key resolves to  *)
(*    None, the latest registration of a key is the one resolved           *)
(*    afterwards, and a dependency cycle is reported by a panic instead of *)
(*    a hang or stack overflow."                                           *)
(*                                                                         *)
(* A key is <<container, type, name>> (name "-" = unnamed, "=x" = named x; *)
(* the container is part of the key because every container is its own     *)
(* registry).  Every registration call gets a unique generation number     *)
(* `gen` from the user (the driver), every constructed object a unique     *)
(* instance id `inst`; the user's factories report when they start, end    *)
(* or unwind.                                                              *)
(*                                                                         *)
(* A resolution is a frame on its thread's stack: call, a silent Lookup    *)
(* (the moment it reads the registry: "the latest registration ... is the  *)
(* one resolved afterwards" = the registration that is current at some     *)
(* moment between the call and the return; exact in histories without      *)
(* overlapping registration of that key), possibly one factory run, and    *)
(* the return.  Factories may resolve other services (nested frames).      *)
(*                                                                         *)
(* The module is a library of guards and effects; IocTrace.tla drives it   *)
(* from histories recorded from the implementation and MC_IocA.tla from an *)
(* enumerated alphabet of API calls.                                       *)
(*                                                                         *)
(* What the statement leaves open is left open here:                       *)
(*  - at which depth / moment of the repeated resolution a cycle is        *)
(*    reported (any moment before the repeated frame produces a result);   *)
(*  - which thread of a cross-thread cycle panics (at least one must,      *)
(*    none may hang);                                                      *)
(*  - whether a factory that unwound (because a resolution inside it       *)
(*    panicked) is run again by a later resolution: it is, "at most once"  *)
(*    counts the runs that produced an instance;                           *)
(*  - a repeated key on the stack whose registration was replaced by       *)
(*    another thread in the meantime may panic or resolve the new one       *)
(*    (TrueCycle below is the strict notion, used by MC_IocA only).        *)
(* Registration from inside a factory is not modelled (not in C18).        *)
(***************************************************************************)
EXTENDS Naturals, Sequences, FiniteSets, TLC

VARIABLES
  prov,   \* key |-> gen            the current registration of each registered key
  regs,   \* gen |-> [key, kind]    every registration that has taken effect
  cell,   \* gen |-> [st: "empty" | "running" | "done" | "na", v: thread / inst / 0]
  made,   \* inst |-> gen           every instance identity constructed so far
  stk,    \* thread |-> sequence of frames (resolutions in progress, outermost first)
  preg,   \* thread |-> registration call in progress
  unw     \* thread |-> "" | "cycle" | "missing"   (a panic is unwinding the thread's frames)

iocVars == <<prov, regs, cell, made, stk, preg, unw>>

Kinds == {"instance", "singleton", "transient", "trait"}
\* one instance per registration, built by the first resolution
LazyKinds == {"singleton", "trait"}
\* resolution forms that report a missing service by a panic instead of None
PanickingVias == {"resolve_from", "resolve"}
Vias == {"get", "maybe_resolve_from", "maybe_resolve"} \cup PanickingVias

Empty == [x \in {} |-> 0]
Put(f, k, v) == [x \in DOMAIN f \cup {k} |-> IF x = k THEN v ELSE f[x]]
Drop1(f, k) == [x \in DOMAIN f \ {k} |-> f[x]]

EmptyCell == [st |-> "empty", v |-> 0]
Running(t) == [st |-> "running", v |-> t]
Done(i) == [st |-> "done", v |-> i]
NoCell == [st |-> "na", v |-> 0]           \* transient registrations hold no instance

Stk(t) == IF t \in DOMAIN stk THEN stk[t] ELSE <<>>
Unw(t) == IF t \in DOMAIN unw THEN unw[t] ELSE ""
Depth(t) == Len(Stk(t))
Top(t) == Stk(t)[Depth(t)]
Below(t) == SubSeq(Stk(t), 1, Depth(t) - 1)
Idle(t) == Stk(t) = <<>> /\ t \notin DOMAIN preg

\* A frame:  o    operation id            key   what is resolved       via   API form
\*           lk   "no" (registry not read yet) | "none" (read: unregistered) | "gen" (read: bound to b)
\*           b    generation it is bound to
\*           fac  "no" | "run" | "done" | "panicked"   this frame's factory run
\*           res  instance its factory run produced
NewFrame(o, key, via) == [o |-> o, key |-> key, via |-> via, lk |-> "no", b |-> 0, fac |-> "no", res |-> 0]

SetTop(t, f) == stk' = Put(stk, t, [Stk(t) EXCEPT ![Depth(t)] = f])
Pop(t) == stk' = Put(stk, t, Below(t))

(***************************************************************************)
(* Cycles.                                                                 *)
(***************************************************************************)
\* The key of the newest frame of t is already being resolved by t.
OnStack(t) == \E j \in 1..(Depth(t) - 1) : Stk(t)[j].key = Top(t).key
\* ... and it is still the same registration: a dependency cycle in the strict sense.
TrueCycle(t) ==
  \E j \in 1..(Depth(t) - 1) :
     /\ Stk(t)[j].key = Top(t).key /\ Stk(t)[j].lk = "gen"
     /\ Top(t).key \in DOMAIN prov /\ prov[Top(t).key] = Stk(t)[j].b

\* t cannot proceed before thread WaitOn(t) finishes a factory (t itself = not waiting).
WaitOn(t) ==
  IF /\ Stk(t) # <<>> /\ Unw(t) = ""
     /\ Top(t).lk = "gen" /\ Top(t).fac = "no"
     /\ regs[Top(t).b].kind \in LazyKinds
     /\ cell[Top(t).b].st = "running" /\ cell[Top(t).b].v # t
    THEN cell[Top(t).b].v ELSE t
\* The waits-for relation is a partial function on threads, so: a thread in a set of waiting
\* threads that is closed under WaitOn can never return; it is ON a cycle iff, in addition,
\* every member of the set is waited for by a member (WaitOn permutes the set).
\* A cycle of waiting threads is a dependency cycle spread over several threads.
Waiting == {x \in DOMAIN stk : WaitOn(x) # x}
ClosedW(C) == \A x \in C : WaitOn(x) \in C
InWaitCycle(t) == \E C \in SUBSET Waiting : /\ t \in C /\ ClosedW(C)
                                              /\ \A x \in C : \E y \in C : WaitOn(y) = x

(***************************************************************************)
(* Registration:  call, silent RegLin (takes effect), return.              *)
(***************************************************************************)
RegCall(t, o, key, kind, g, i) ==
  /\ Idle(t) /\ Unw(t) = ""
  /\ kind \in Kinds
  /\ g \notin DOMAIN regs /\ \A u \in DOMAIN preg : preg[u].g # g
  /\ (kind = "instance") => (i \notin DOMAIN made /\ \A u \in DOMAIN preg : preg[u].i # i)
  /\ preg' = Put(preg, t, [o |-> o, key |-> key, kind |-> kind, g |-> g,
                            i |-> IF kind = "instance" THEN i ELSE 0, lin |-> FALSE])
  /\ UNCHANGED <<prov, regs, cell, made, stk, unw>>

\* "the latest registration of a key is the one resolved afterwards": it replaces the
\* previous one of exactly this key and of no other key.
RegLin(t) ==
  /\ t \in DOMAIN preg /\ ~preg[t].lin
  /\ LET p == preg[t] IN
     /\ prov' = Put(prov, p.key, p.g)
     /\ regs' = Put(regs, p.g, [key |-> p.key, kind |-> p.kind])
     /\ cell' = Put(cell, p.g, CASE p.kind = "instance" -> Done(p.i)
                                 [] p.kind = "transient" -> NoCell
                                 [] OTHER -> EmptyCell)
     /\ made' = IF p.kind = "instance" THEN Put(made, p.i, p.g) ELSE made
     /\ preg' = [preg EXCEPT ![t].lin = TRUE]
  /\ UNCHANGED <<stk, unw>>

RegRet(t, o) ==
  /\ t \in DOMAIN preg /\ preg[t].o = o /\ preg[t].lin
  /\ preg' = Drop1(preg, t)
  /\ UNCHANGED <<prov, regs, cell, made, stk, unw>>

(***************************************************************************)
(* Resolution.                                                             *)
(***************************************************************************)
\* A resolution starts: at top level, or from inside the factory this thread is running.
ResCall(t, o, key, via) ==
  /\ t \notin DOMAIN preg /\ Unw(t) = ""
  /\ Stk(t) # <<>> => Top(t).fac = "run"
  /\ stk' = Put(stk, t, Append(Stk(t), NewFrame(o, key, via)))
  /\ UNCHANGED <<prov, regs, cell, made, preg, unw>>

\* The resolution reads the registry.  (On a dependency cycle this is left possible: the
\* statement does not say at which repetition the cycle is reported.  A repeated singleton
\* frame is then bound to a registration whose factory is running on this very thread, so
\* it can neither start the factory nor return: all it can do is panic.  A repeated
\* transient may recurse further; a history in which it never panics ends in a `crash`
\* or `hung` record, which nothing accepts.)
Lookup(t) ==
  /\ Stk(t) # <<>> /\ Unw(t) = ""
  /\ Top(t).lk = "no"
  /\ IF Top(t).key \in DOMAIN prov
       THEN SetTop(t, [Top(t) EXCEPT !.lk = "gen", !.b = prov[Top(t).key]])
       ELSE SetTop(t, [Top(t) EXCEPT !.lk = "none"])
  /\ UNCHANGED <<prov, regs, cell, made, preg, unw>>

\* The factory of registration g starts on behalf of t's newest frame.
\* Singleton / trait singleton: only when no instance exists and no other run is in progress
\* ("runs its factory at most once").  Transient: every resolution runs it.
FacStart(t, g) ==
  /\ Stk(t) # <<>> /\ Unw(t) = ""
  /\ Top(t).lk = "gen" /\ Top(t).b = g /\ Top(t).fac = "no"
  /\ \/ /\ regs[g].kind \in LazyKinds /\ cell[g].st = "empty"
        /\ cell' = [cell EXCEPT ![g] = Running(t)]
     \/ /\ regs[g].kind = "transient"
        /\ UNCHANGED cell
  /\ SetTop(t, [Top(t) EXCEPT !.fac = "run"])
  /\ UNCHANGED <<prov, regs, made, preg, unw>>

\* The factory returns a brand-new object i.
FacEnd(t, g, i) ==
  /\ Stk(t) # <<>> /\ Unw(t) = ""
  /\ Top(t).b = g /\ Top(t).fac = "run"
  /\ i \notin DOMAIN made /\ \A u \in DOMAIN preg : preg[u].i # i
  /\ made' = Put(made, i, g)
  /\ cell' = IF regs[g].kind \in LazyKinds THEN [cell EXCEPT ![g] = Done(i)] ELSE cell
  /\ SetTop(t, [Top(t) EXCEPT !.fac = "done", !.res = i])
  /\ UNCHANGED <<prov, regs, preg, unw>>

\* The factory unwinds because a resolution inside it panicked: no instance.
FacPanic(t, g) ==
  /\ Stk(t) # <<>> /\ Unw(t) # ""
  /\ Top(t).b = g /\ Top(t).fac = "run"
  /\ cell' = IF regs[g].kind \in LazyKinds THEN [cell EXCEPT ![g] = EmptyCell] ELSE cell
  /\ SetTop(t, [Top(t) EXCEPT !.fac = "panicked"])
  /\ UNCHANGED <<prov, regs, made, preg, unw>>

\* The resolution returns instance i.
RetSome(t, o, i) ==
  /\ Stk(t) # <<>> /\ Unw(t) = ""
  /\ Top(t).o = o /\ Top(t).lk = "gen"
  /\ LET g == Top(t).b
         k == regs[g].kind
     IN
     CASE k = "instance" -> cell[g] = Done(i) /\ Top(t).fac = "no"
       [] k \in LazyKinds -> /\ cell[g] = Done(i)                       \* the one instance of g
                             /\ Top(t).fac \in {"no", "done"}
                             /\ Top(t).fac = "done" => Top(t).res = i
       [] k = "transient" -> Top(t).fac = "done" /\ Top(t).res = i      \* the one it just built
  /\ Pop(t)
  /\ UNCHANGED <<prov, regs, cell, made, preg, unw>>

\* The resolution reports that nothing is registered under the key.
RetNone(t, o) ==
  /\ Stk(t) # <<>> /\ Unw(t) = ""
  /\ Top(t).o = o /\ Top(t).lk = "none"
  /\ Top(t).via \notin PanickingVias
  /\ Pop(t)
  /\ UNCHANGED <<prov, regs, cell, made, preg, unw>>

\* The resolution panics.  The only reasons: a dependency cycle (on this thread's stack
\* or spread over threads), a missing service asked for through a panicking form, or
\* the factory it was running unwound.
RetPanic(t, o, pk) ==
  /\ Stk(t) # <<>>
  /\ Top(t).o = o
  /\ \/ /\ pk = "cycle" /\ Unw(t) = "" /\ Top(t).fac = "no"
        /\ OnStack(t) \/ InWaitCycle(t)
     \/ /\ pk = "missing" /\ Unw(t) = "" /\ Top(t).lk = "none"
        /\ Top(t).via \in PanickingVias
     \/ /\ pk # "" /\ Unw(t) = pk /\ Top(t).fac = "panicked"
  /\ Pop(t)
  /\ unw' = Put(unw, t, IF Depth(t) = 1 THEN "" ELSE pk)      \* caught by the caller of the outermost resolution
  /\ UNCHANGED <<prov, regs, cell, made, preg>>

(***************************************************************************)
(* State invariants of C18 (history-free part; MC_IocA adds the rest).     *)
(***************************************************************************)
LazyGens == {g \in DOMAIN regs : regs[g].kind \in LazyKinds}
\* every instance was made by one registration and the cell of a singleton holds one it made
CellInv == \A g \in DOMAIN regs :
              /\ cell[g].st = "done" => (cell[g].v \in DOMAIN made /\ made[cell[g].v] = g)
              /\ cell[g].st = "running" => (\E j \in 1..Depth(cell[g].v) :
                                               Stk(cell[g].v)[j].b = g /\ Stk(cell[g].v)[j].fac = "run")
\* at most one instance per singleton registration
OnceInv == \A g \in LazyGens : Cardinality({i \in DOMAIN made : made[i] = g}) <= 1
\* at most one factory run of a singleton registration in progress, and none once it has its instance
AllFrames == UNION {{t} \X (1..Depth(t)) : t \in DOMAIN stk}
RunFrames(g) == {f \in AllFrames : /\ Stk(f[1])[f[2]].lk = "gen" /\ Stk(f[1])[f[2]].b = g
                                   /\ Stk(f[1])[f[2]].fac = "run"}
RunInv == \A g \in LazyGens : Cardinality(RunFrames(g)) = (IF cell[g].st = "running" THEN 1 ELSE 0)
\* keys never alias: the current provider of a key is a registration of that key
KeyInv == \A k \in DOMAIN prov : prov[k] \in DOMAIN regs /\ regs[prov[k]].key = k
IocInv == CellInv /\ OnceInv /\ RunInv /\ KeyInv
=========================================================================
