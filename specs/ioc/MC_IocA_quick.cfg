SPECIFICATION Spec
CONSTANTS
  Threads = {1, 2}
  KeySet <- Keys_AB
  TraitTypes = {"Q0", "Q1"}
  PlainKinds <- Plain_All
  MaxDeps = 1
  ViaSet <- Vias_Both
  MaxOps = 3
  MaxRegs = 2
  MaxDepth = 3
  SymClasses <- Sym_None
  Gen = FALSE
VIEW McView
INVARIANT Inv
INVARIANT CrossCycleEscapes
CHECK_DEADLOCK FALSE
