---------------------------- MODULE MC_IocA ----------------------------
(***************************************************************************)
(* Bounded exploration of Layer A (IocA) itself.                           *)
(*                                                                         *)
(* 1. Concurrency configurations (MC_IocA_quick.cfg, MC_IocA.cfg): every   *)
(*    interleaving of a few threads registering and resolving a small key  *)
(*    space, factories that resolve other services (including cycles, on   *)
(*    one thread and across threads).  Checks that the guards and effects  *)
(*    of IocA keep the C18 properties, stated here once more over history  *)
(*    variables (independent of the guards).                               *)
(* 2. Generator configurations (MC_IocA_gen*.cfg): one thread; every       *)
(*    transition that starts a top-level call prints the program that      *)
(*    leads there (PROG lines).  The driver replays each program on        *)
(*    Container, LocalContainer and global() and the recorded histories    *)
(*    go back through IocTrace.  VIEW merges idle states that differ only  *)
(*    in the numbering of generations / instances (it keeps, per key, the  *)
(*    kind, the cell state, the dependencies and whether the registration  *)
(*    has been resolved 0, 1 or more times), so the programs cover every   *)
(*    transition of the abstract registry up to the length bound.          *)
(*    Interchangeable types and names are used in canonical first-use      *)
(*    order (SymClasses); the driver permutes them back.                   *)
(***************************************************************************)
EXTENDS IocA, Json

CONSTANTS
  Threads,     \* thread ids
  KeySet,      \* keys <<container, type, name>>
  TraitTypes,  \* types that are trait objects: only kind "trait" applies; the others take PlainKinds
  PlainKinds,  \* subset of {"instance", "singleton", "transient"}
  MaxDeps,     \* a factory resolves at most this many other services (0, 1 or 2)
  ViaSet,      \* resolution forms of top-level calls
  MaxOps,      \* top-level calls per behaviour
  MaxRegs,     \* ... of which registrations
  MaxDepth,    \* nested resolutions per thread
  SymClasses,  \* set of sequences of interchangeable atoms (types or names), canonical order
  Gen          \* TRUE: print programs

VARIABLES
  hist,     \* top-level calls so far: [op, key, kind, via, deps]
  depsOf,   \* gen |-> sequence of keys its factory resolves
  todo,     \* thread |-> sequence (parallel to stk) of the dependencies each running factory still resolves
  snap,     \* thread |-> sequence (parallel to stk) of [c0, quiet]: provider at call time, no overlapping registration
  nextg, nexti,
  rcnt,     \* key |-> number of resolutions that returned an instance since its last registration, capped at 2
            \* (keeps "first resolution" and "later resolutions" apart in the generator's VIEW)
  \* history variables for the properties
  facEnds,  \* gen |-> completed factory runs
  rets,     \* set of [key, g, i, kind] of every resolution that returned an instance
  fresh,    \* every transient resolution returned an instance no resolution had returned before
  latest    \* every resolution without overlapping registration of its key saw the provider current at its call

mcVars == <<hist, depsOf, todo, snap, nextg, nexti, rcnt, facEnds, rets, fresh, latest>>
vars == <<iocVars, mcVars>>

Todo(t) == IF t \in DOMAIN todo THEN todo[t] ELSE <<>>
Snap(t) == IF t \in DOMAIN snap THEN snap[t] ELSE <<>>
ButLast(s) == SubSeq(s, 1, Len(s) - 1)
Last1(s) == s[Len(s)]

KindsFor(key) == IF key[2] \in TraitTypes THEN {"trait"} ELSE PlainKinds
DepChoices(key) ==
  {<<>>} \cup (IF MaxDeps >= 1 THEN {<<k>> : k \in KeySet} ELSE {})
         \cup (IF MaxDeps >= 2 THEN {d \in {<<k1, k2>> : k1 \in KeySet, k2 \in KeySet} : d[1] # d[2]} ELSE {})

\* ---- canonical use of interchangeable atoms ------------------------------
Atoms(key) == {key[1], key[2], key[3]}
OpAtoms(op) == Atoms(op.key) \cup UNION {Atoms(op.deps[j]) : j \in 1..Len(op.deps)}
UsedAtoms == UNION {OpAtoms(hist[j]) : j \in 1..Len(hist)}
\* atoms become usable in class order: an atom may appear once its predecessor has appeared
\* (earlier in the history or in this very operation, in order: key first, then deps).
OpAtomSeq(op) == <<op.key[1], op.key[2], op.key[3]>> \o
                 (IF Len(op.deps) >= 1 THEN <<op.deps[1][1], op.deps[1][2], op.deps[1][3]>> ELSE <<>>) \o
                 (IF Len(op.deps) >= 2 THEN <<op.deps[2][1], op.deps[2][2], op.deps[2][3]>> ELSE <<>>)
CanonOK(op) ==
  LET s == OpAtomSeq(op) IN
  \A c \in SymClasses : \A p \in 2..Len(c) : \A j \in 1..Len(s) :
     s[j] = c[p] => (c[p - 1] \in UsedAtoms \/ \E j2 \in 1..(j - 1) : s[j2] = c[p - 1])

NumRegs == Cardinality({j \in 1..Len(hist) : hist[j].op = "reg"})

Init ==
  /\ prov = Empty /\ regs = Empty /\ cell = Empty /\ made = Empty
  /\ stk = [t \in Threads |-> <<>>] /\ preg = Empty /\ unw = [t \in Threads |-> ""]
  /\ hist = <<>> /\ depsOf = Empty
  /\ todo = [t \in Threads |-> <<>>] /\ snap = [t \in Threads |-> <<>>]
  /\ nextg = 1 /\ nexti = 1 /\ rcnt = [k \in KeySet |-> 0]
  /\ facEnds = Empty /\ rets = {} /\ fresh = TRUE /\ latest = TRUE

\* a registration of `key` starts: frames resolving that key are no longer "quiet"
Disturb(key) ==
  [t \in DOMAIN snap |-> [j \in 1..Len(snap[t]) |->
      IF stk[t][j].key = key THEN [snap[t][j] EXCEPT !.quiet = FALSE] ELSE snap[t][j]]]

DoRegCall(t, key, kind, deps) ==
  LET op == [op |-> "reg", key |-> key, kind |-> kind, via |-> "", deps |-> deps] IN
  /\ Len(hist) < MaxOps /\ NumRegs < MaxRegs
  /\ kind = "instance" => deps = <<>>
  /\ CanonOK(op)
  /\ RegCall(t, 0, key, kind, nextg, nexti)
  /\ hist' = Append(hist, op)
  /\ depsOf' = Put(depsOf, nextg, deps)
  /\ facEnds' = Put(facEnds, nextg, 0)
  /\ snap' = Disturb(key)
  /\ nextg' = nextg + 1
  /\ nexti' = IF kind = "instance" THEN nexti + 1 ELSE nexti
  /\ UNCHANGED <<todo, rcnt, rets, fresh, latest>>

DoRegLin(t) ==
  /\ RegLin(t)
  /\ rcnt' = [rcnt EXCEPT ![preg[t].key] = 0]
  /\ UNCHANGED <<hist, depsOf, todo, snap, nextg, nexti, facEnds, rets, fresh, latest>>
DoRegRet(t) == t \in DOMAIN preg /\ RegRet(t, preg[t].o) /\ UNCHANGED mcVars

NewSnap(key) == [c0 |-> IF key \in DOMAIN prov THEN prov[key] ELSE 0,
                 quiet |-> \A u \in DOMAIN preg : preg[u].key # key \/ preg[u].lin]

DoResCallTop(t, key, via) ==
  LET op == [op |-> "res", key |-> key, kind |-> "", via |-> via, deps |-> <<>>] IN
  /\ Len(hist) < MaxOps
  /\ Stk(t) = <<>>
  /\ CanonOK(op)
  /\ ResCall(t, 1, key, via)
  /\ hist' = Append(hist, op)
  /\ snap' = [snap EXCEPT ![t] = <<NewSnap(key)>>]
  /\ todo' = [todo EXCEPT ![t] = <<>>]
  /\ UNCHANGED <<depsOf, nextg, nexti, rcnt, facEnds, rets, fresh, latest>>

\* the running factory resolves its next dependency
DoResCallNested(t) ==
  /\ Stk(t) # <<>> /\ Depth(t) < MaxDepth
  /\ Todo(t) # <<>> /\ Last1(Todo(t)) # <<>>
  /\ LET key == Head(Last1(Todo(t))) IN
     /\ ResCall(t, Depth(t) + 1, key, "get")
     /\ snap' = [snap EXCEPT ![t] = Append(@, NewSnap(key))]
     /\ todo' = [todo EXCEPT ![t] = Append(ButLast(@), Tail(Last1(@)))]
  /\ UNCHANGED <<hist, depsOf, nextg, nexti, rcnt, facEnds, rets, fresh, latest>>

DoLookup(t) == Lookup(t) /\ UNCHANGED mcVars

DoFacStart(t) ==
  /\ Stk(t) # <<>> /\ Top(t).lk = "gen"
  /\ FacStart(t, Top(t).b)
  /\ todo' = [todo EXCEPT ![t] = Append(@, depsOf[Top(t).b])]
  /\ UNCHANGED <<hist, depsOf, snap, nextg, nexti, rcnt, facEnds, rets, fresh, latest>>

DoFacEnd(t) ==
  /\ Stk(t) # <<>> /\ Top(t).fac = "run"
  /\ Last1(Todo(t)) = <<>>
  /\ FacEnd(t, Top(t).b, nexti)
  /\ todo' = [todo EXCEPT ![t] = ButLast(@)]
  /\ facEnds' = [facEnds EXCEPT ![Top(t).b] = @ + 1]
  /\ nexti' = nexti + 1
  /\ UNCHANGED <<hist, depsOf, snap, nextg, rcnt, rets, fresh, latest>>

DoFacPanic(t) ==
  /\ Stk(t) # <<>> /\ Top(t).fac = "run"
  /\ FacPanic(t, Top(t).b)
  /\ todo' = [todo EXCEPT ![t] = ButLast(@)]
  /\ UNCHANGED <<hist, depsOf, snap, nextg, nexti, rcnt, facEnds, rets, fresh, latest>>

PopSnap(t) == snap' = [snap EXCEPT ![t] = ButLast(@)]

DoRetSome(t) ==
  /\ Stk(t) # <<>>
  /\ \E i \in DOMAIN made :
       /\ RetSome(t, Top(t).o, i)
       /\ rets' = rets \cup {[key |-> Top(t).key, g |-> made[i], i |-> i, kind |-> regs[made[i]].kind]}
       /\ fresh' = (fresh /\ (regs[Top(t).b].kind = "transient" => \A r \in rets : r.i # i))
       /\ latest' = (latest /\ (Last1(Snap(t)).quiet => made[i] = Last1(Snap(t)).c0))
  /\ rcnt' = [rcnt EXCEPT ![Top(t).key] = IF @ < 2 THEN @ + 1 ELSE 2]
  /\ PopSnap(t)
  /\ UNCHANGED <<hist, depsOf, todo, nextg, nexti, facEnds>>

DoRetNone(t) ==
  /\ Stk(t) # <<>>
  /\ RetNone(t, Top(t).o)
  /\ latest' = (latest /\ (Last1(Snap(t)).quiet => Last1(Snap(t)).c0 = 0))
  /\ PopSnap(t)
  /\ UNCHANGED <<hist, depsOf, todo, nextg, nexti, rcnt, facEnds, rets, fresh>>

DoRetPanic(t, pk) ==
  /\ Stk(t) # <<>>
  /\ RetPanic(t, Top(t).o, pk)
  /\ PopSnap(t)
  /\ UNCHANGED <<hist, depsOf, todo, nextg, nexti, rcnt, facEnds, rets, fresh, latest>>

Next ==
  \E t \in Threads :
     \/ \E key \in KeySet : \E kind \in KindsFor(key) : \E deps \in DepChoices(key) : DoRegCall(t, key, kind, deps)
     \/ DoRegLin(t) \/ DoRegRet(t)
     \/ \E key \in KeySet : \E via \in ViaSet : DoResCallTop(t, key, via)
     \/ DoResCallNested(t)
     \/ DoLookup(t) \/ DoFacStart(t) \/ DoFacEnd(t) \/ DoFacPanic(t)
     \/ DoRetSome(t) \/ DoRetNone(t)
     \/ \E pk \in {"cycle", "missing"} : DoRetPanic(t, pk)

Spec == Init /\ [][Next]_vars

\* ---- C18 over the history variables ---------------------------------------
\* "runs its factory at most once": at most one completed run per singleton registration
AtMostOnce == \A g \in DOMAIN facEnds : (g \in DOMAIN regs /\ regs[g].kind \in LazyKinds) => facEnds[g] <= 1
\* "gives every caller the same instance"
SameInstance == \A r1, r2 \in rets : (r1.g = r2.g /\ r1.kind # "transient") => r1.i = r2.i
\* "a transient registration yields a fresh instance on every resolution"
TransientFresh == fresh
\* "differently typed or named registrations never alias": what a resolution of key k
\* returns was built by (or given to) a registration of exactly k
NoAlias == \A r \in rets : regs[r.g].key = r.key
\* "the latest registration of a key is the one resolved afterwards" / "an unregistered key resolves to None"
LatestWins == latest
\* "a dependency cycle is reported by a panic": a frame that repeats a key of its own
\* stack under the same registration never holds a result
CycleNoResult == \A t \in Threads : Stk(t) # <<>> =>
                    (TrueCycle(t) /\ regs[prov[Top(t).key]].kind \in LazyKinds => Top(t).fac = "no")
\* no thread is ever stuck behind a cross-thread cycle without a panic being possible
CrossCycleEscapes == \A t \in Threads : InWaitCycle(t) => ENABLED DoRetPanic(t, "cycle")

Inv == IocInv /\ AtMostOnce /\ SameInstance /\ TransientFresh /\ NoAlias /\ LatestWins /\ CycleNoResult

\* ---- constants for the configurations (cfg files cannot write tuples) ----------
Keys_AB   == {<<"c0", "S0", "-">>, <<"c0", "S1", "-">>}
Keys_ABQ  == {<<"c0", "S0", "-">>, <<"c0", "S1", "-">>, <<"c0", "Q0", "=a">>}
Keys_T2N3 == {<<"c0", ty, nm>> : ty \in {"S0", "S1"}, nm \in {"-", "=a", "=b"}}
Keys_SQN2 == {<<"c0", ty, nm>> : ty \in {"S0", "Q0"}, nm \in {"-", "=a"}}
Keys_C2   == {<<"c0", "S0", "-">>, <<"c1", "S0", "-">>, <<"c0", "S1", "-">>}
Sym_None  == {}
Sym_TN    == {<<"S0", "S1">>, <<"=a", "=b">>}
Sym_T     == {<<"S0", "S1">>}
Sym_C     == {<<"c0", "c1">>}
Plain_All == {"instance", "singleton", "transient"}
Plain_Lazy == {"singleton", "transient"}
Plain_Sing == {"singleton"}
Vias_Get  == {"get"}
Vias_Both == {"get", "resolve_from"}

\* ---- generator ---------------------------------------------------------------
Emit == (Gen /\ hist' # hist) => PrintT(<<"PROG", ToJson(hist')>>)

\* Idle states that differ only in numbering are one state for the generator.
KeyView(k) == IF k \in DOMAIN prov
                THEN <<regs[prov[k]].kind, cell[prov[k]].st, depsOf[prov[k]], rcnt[k]>>
                ELSE <<"unregistered", "", <<>>, 0>>
\* the concurrency configurations do not need the order of the calls
McView == <<iocVars, depsOf, todo, snap, nextg, nexti, rcnt, facEnds, rets, fresh, latest, Len(hist), NumRegs>>
AllIdle == \A t \in Threads : Idle(t)
GenView == IF AllIdle THEN <<[k \in KeySet |-> KeyView(k)], UsedAtoms, NumRegs = MaxRegs, <<>>>>
                      ELSE <<[k \in KeySet |-> KeyView(k)], UsedAtoms, NumRegs = MaxRegs, vars>>
=========================================================================
