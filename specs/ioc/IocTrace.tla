--------------------------- MODULE IocTrace ---------------------------
(***************************************************************************)
(* Trace validation of histories recorded from the real fibre_ioc          *)
(* containers against Layer A (IocA).  One ndjson record per line (env     *)
(* TRACE), in the order of one global log; a `new` record starts a fresh   *)
(* history, so many histories share one TLC run.                           *)
(*                                                                         *)
(*   new    c, mode, kf                          fresh containers          *)
(*   call   t, o, op = "reg", key, kind, g, i    registration call         *)
(*   call   t, o, op = "res", key, via           resolution call           *)
(*   fstart t, g        the user's factory of registration g starts        *)
(*   fend   t, g, i     ... returns the new object i                       *)
(*   fpanic t, g        ... unwinds                                        *)
(*   ret    t, o, res = "ok" | "some" (i, ig, peq) | "none" | "panic" (pk) *)
(*   hung   ts          the watchdog gave up on these threads              *)
(*   crash  status      the process running the history died               *)
(*   end                                                                   *)
(*                                                                         *)
(* Between a call and its return the operation takes effect at silent      *)
(* steps chosen by TLC (RegLin, Lookup).  A history is accepted iff some   *)
(* choice explains every record.  The longest explained prefix is kept in  *)
(* TLC register 1 (run with -workers 1).                                   *)
(*                                                                         *)
(* Open known findings (deviation actions, only when listed in new.kf):    *)
(*   FIOC1  a dependency cycle spread over threads hangs all of them       *)
(*   FIOC2  resolving a key from inside a factory of the same (type, name) *)
(*          key of ANOTHER container is reported as a circular dependency  *)
(***************************************************************************)
EXTENDS IocA, Json, IOUtils

Rec == ndJsonDeserialize(IOEnv.TRACE)
N == Len(Rec)

VARIABLES
  l,     \* next record to explain
  kf,    \* known findings whose deviation actions are enabled in this history
  devs   \* deviation actions used
vars == <<iocVars, l, kf, devs>>

Dev(id) == id \in kf

Max2(a, b) == IF a > b THEN a ELSE b
Track == TLCSet(1, Max2(TLCGet(1), l))

R == Rec[l]
Is(k) == l <= N /\ R.k = k
Next1 == l' = l + 1
SeqToSet(s) == {s[i] : i \in 1..Len(s)}

Init ==
  /\ TLCSet(1, 0)
  /\ l = 1 /\ kf = {} /\ devs = {}
  /\ prov = Empty /\ regs = Empty /\ cell = Empty /\ made = Empty
  /\ stk = Empty /\ preg = Empty /\ unw = Empty

New ==
  /\ Is("new")
  /\ kf' = SeqToSet(R.kf) /\ devs' = {}
  /\ prov' = Empty /\ regs' = Empty /\ cell' = Empty /\ made' = Empty
  /\ stk' = Empty /\ preg' = Empty /\ unw' = Empty
  /\ Next1

CallReg ==
  /\ Is("call") /\ R.op = "reg"
  /\ RegCall(R.t, R.o, R.key, R.kind, R.g, R.i)
  /\ Next1 /\ UNCHANGED <<kf, devs>>

CallRes ==
  /\ Is("call") /\ R.op = "res"
  /\ R.via \in Vias
  /\ ResCall(R.t, R.o, R.key, R.via)
  /\ Next1 /\ UNCHANGED <<kf, devs>>

FStart == Is("fstart") /\ FacStart(R.t, R.g) /\ Next1 /\ UNCHANGED <<kf, devs>>
FEnd   == Is("fend") /\ FacEnd(R.t, R.g, R.i) /\ Next1 /\ UNCHANGED <<kf, devs>>
FPanic == Is("fpanic") /\ FacPanic(R.t, R.g) /\ Next1 /\ UNCHANGED <<kf, devs>>

\* FIOC2: the newest frame's (type, name) is being resolved by this thread in another container.
SameNameOtherContainer(t) ==
  \E j \in 1..(Depth(t) - 1) :
     /\ Stk(t)[j].key[1] # Top(t).key[1]
     /\ Stk(t)[j].key[2] = Top(t).key[2] /\ Stk(t)[j].key[3] = Top(t).key[3]

DevFalseCycle(t, o) ==
  /\ Dev("FIOC2")
  /\ Stk(t) # <<>> /\ Top(t).o = o /\ Unw(t) = "" /\ Top(t).fac = "no"
  /\ ~OnStack(t) /\ SameNameOtherContainer(t)
  /\ Pop(t)
  /\ unw' = Put(unw, t, IF Depth(t) = 1 THEN "" ELSE "cycle")
  /\ UNCHANGED <<prov, regs, cell, made, preg>>
  /\ devs' = devs \cup {"FIOC2"}

Ret ==
  /\ Is("ret")
  /\ \/ /\ R.res = "ok" /\ RegRet(R.t, R.o) /\ UNCHANGED devs
     \/ /\ R.res = "some"
        /\ R.peq                                        \* Arc::ptr_eq / Rc::ptr_eq with the object of that id
        /\ R.i \in DOMAIN made /\ made[R.i] = R.ig      \* the object says which registration built it
        /\ RetSome(R.t, R.o, R.i) /\ UNCHANGED devs
     \/ /\ R.res = "none" /\ RetNone(R.t, R.o) /\ UNCHANGED devs
     \/ /\ R.res = "panic"
        /\ \/ RetPanic(R.t, R.o, R.pk) /\ UNCHANGED devs
           \/ R.pk = "cycle" /\ DevFalseCycle(R.t, R.o)
  /\ Next1 /\ UNCHANGED kf

\* FIOC1: the watchdog found these threads blocked for good.  Never acceptable (C18: "a
\* dependency cycle is reported by a panic instead of a hang"); with the deviation
\* enabled it is excused exactly when the threads are stuck behind a cross-thread cycle.
HungRec ==
  /\ Is("hung")
  /\ Dev("FIOC1")
  /\ R.ts # <<>>
  \* the threads that never came back form a set closed under "waits for": each of them
  \* waits for a singleton that another one of them is building (=> Stuck, and some of
  \* them are on a cycle)
  /\ LET H == SeqToSet(R.ts) IN \A t \in H : t \in DOMAIN stk /\ WaitOn(t) # t /\ WaitOn(t) \in H
  /\ devs' = devs \cup {"FIOC1"}                              \* the history ends here
  /\ UNCHANGED <<iocVars, kf>>
  /\ Next1

End ==
  /\ Is("end")
  /\ "FIOC1" \in devs \/ (preg = Empty /\ \A t \in DOMAIN stk : stk[t] = <<>>)
  /\ \A d \in devs : PrintT(<<"DEV", d>>)
  /\ UNCHANGED <<iocVars, kf, devs>>
  /\ Next1

\* Silent steps, with a hand-made partial-order reduction.  A Lookup only reads prov[key]
\* and only enables later steps of its own thread (plus the waits-for graph, which matters at
\* `hung` records and at cross-thread cycle panics); a RegLin only writes prov[key].  So it
\* is enough to take a Lookup (a) right before the next record of its own thread, (b) while
\* a registration of its key is waiting to take effect, (c) right before a record that
\* looks at the waits-for graph; and a RegLin right before its own `ret` record, while
\* some resolution of its key has not read the registry yet, or while another registration
\* of the same key is in flight (their order matters).
NextIsMine(t) ==
  /\ l <= N
  /\ \/ (R.k \in {"fstart", "ret"} /\ R.t = t)
     \/ (R.k = "ret" /\ R.res = "panic" /\ R.pk = "cycle")
     \/ /\ R.k = "hung" /\ t \in SeqToSet(R.ts)       \* in thread order: the order is irrelevant
        /\ \A u \in SeqToSet(R.ts) : u < t => (u \notin DOMAIN stk \/ stk[u] = <<>> \/ Top(u).lk # "no")
Silent ==
  /\ l <= N
  /\ \/ \E t \in DOMAIN stk :
          /\ stk[t] # <<>>
          /\ \/ NextIsMine(t)
             \/ \E u \in DOMAIN preg : preg[u].key = Top(t).key /\ ~preg[u].lin
          /\ Lookup(t)
     \/ \E t \in DOMAIN preg :
          /\ \/ NextIsMine(t)
             \/ \E u \in DOMAIN stk : stk[u] # <<>> /\ Top(u).key = preg[t].key /\ Top(u).lk = "no"
             \/ \E u \in DOMAIN preg \ {t} : preg[u].key = preg[t].key
          /\ RegLin(t)
  /\ UNCHANGED <<l, kf, devs>>

Next == New \/ CallReg \/ CallRes \/ FStart \/ FEnd \/ FPanic \/ Ret \/ HungRec \/ End \/ Silent

Spec == Init /\ [][Next]_vars

Accepted ==
  IF TLCGet(1) = N + 1
    THEN TRUE
    ELSE /\ PrintT(<<"REJECT", TLCGet(1), ToJson(Rec[TLCGet(1)])>>)
         /\ FALSE
=========================================================================
