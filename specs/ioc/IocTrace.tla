--------------------------- MODULE IocTrace ---------------------------
(***************************************************************************)
(* Trace validation of histories recorded from the real fibre_ioc          *)
(* containers against Layer A (IocA).  One ndjson record per line (env     *)
(* TRACE), in the order of one global log; a `new` record starts a fresh   *)
(* history, so many histories share one TLC run.                           *)
(*                                                                         *)
(*   new    c, mode, kf                          fresh containers          *)
(*   call   t, o, op = "reg", key, kind, g, i    registration call         *)
(*   call   t, o, op = "res", key, via           resolution call           *)
(*   fstart t, g        the user's factory of registration g starts        *)
(*   fend   t, g, i     ... returns the new object i                       *)
(*   fpanic t, g        ... unwinds                                        *)
(*   ret    t, o, res = "ok" | "some" (i, ig, peq) | "none" | "panic" (pk) *)
(*   hung   ts          the watchdog gave up on these threads              *)
(*   crash  status      the process running the history died               *)
(*   end                                                                   *)
(*                                                                         *)
(* Between a call and its return the operation takes effect at silent      *)
(* steps chosen by TLC (RegLin, Lookup).  A history is accepted iff some   *)
(* choice explains every record.  The longest explained prefix is kept in  *)
(* TLC register 1 (run with -workers 1).                                   *)
(*                                                                         *)
(* Open known findings (deviation actions, only when listed in new.kf):    *)
(*   FIOC1  a dependency cycle spread over threads hangs all of them       *)
(*   FIOC2  resolving a key from inside a factory of the same (type, name) *)
(*          key of ANOTHER container is reported as a circular dependency  *)
(***************************************************************************)
EXTENDS IocA, Json, IOUtils

Rec == ndJsonDeserialize(IOEnv.TRACE)
N == Len(Rec)

VARIABLES
  l,     \* next record to explain
  kf,    \* known findings whose deviation actions are enabled in this history
  devs   \* deviation actions used
vars == <<iocVars, l, kf, devs>>

Dev(id) == id \in kf

Max2(a, b) == IF a > b THEN a ELSE b
Track == TLCSet(1, Max2(TLCGet(1), l))

R == Rec[l]
Is(k) == l <= N /\ R.k = k
Next1 == l' = l + 1
SeqToSet(s) == {s[i] : i \in 1..Len(s)}

Init ==
  /\ TLCSet(1, 0)
  /\ l = 1 /\ kf = {} /\ devs = {}
  /\ prov = Empty /\ regs = Empty /\ cell = Empty /\ made = Empty
  /\ stk = Empty /\ preg = Empty /\ unw = Empty

New ==
  /\ Is("new")
  /\ kf' = SeqToSet(R.kf) /\ devs' = {}
  /\ prov' = Empty /\ regs' = Empty /\ cell' = Empty /\ made' = Empty
  /\ stk' = Empty /\ preg' = Empty /\ unw' = Empty
  /\ Next1

CallReg ==
  /\ Is("call") /\ R.op = "reg"
  /\ RegCall(R.t, R.o, R.key, R.kind, R.g, R.i)
  /\ Next1 /\ UNCHANGED <<kf, devs>>

CallRes ==
  /\ Is("call") /\ R.op = "res"
  /\ R.via \in Vias
  /\ ResCall(R.t, R.o, R.key, R.via)
  /\ Next1 /\ UNCHANGED <<kf, devs>>

FStart == Is("fstart") /\ FacStart(R.t, R.g) /\ Next1 /\ UNCHANGED <<kf, devs>>
FEnd   == Is("fend") /\ FacEnd(R.t, R.g, R.i) /\ Next1 /\ UNCHANGED <<kf, devs>>
FPanic == Is("fpanic") /\ FacPanic(R.t, R.g) /\ Next1 /\ UNCHANGED <<kf, devs>>

\* FIOC2: the newest frame's (type, name) is being resolved by this thread in another container.
SameNameOtherContainer(t) ==
  \E j \in 1..(Depth(t) - 1) :
     /\ Stk(t)[j].key[1] # Top(t).key[1]
     /\ Stk(t)[j].key[2] = Top(t).key[2] /\ Stk(t)[j].key[3] = Top(t).key[3]

DevFalseCycle(t, o) ==
  /\ Dev("FIOC2")
  /\ Stk(t) # <<>> /\ Top(t).o = o /\ Unw(t) = "" /\ Top(t).fac = "no"
  /\ ~OnStack(t) /\ SameNameOtherContainer(t)
  /\ Pop(t)
  /\ unw' = Put(unw, t, IF Depth(t) = 1 THEN "" ELSE "cycle")
  /\ UNCHANGED <<prov, regs, cell, made, preg>>
  /\ devs' = devs \cup {"FIOC2"}

Ret ==
  /\ Is("ret")
  /\ \/ /\ R.res = "ok" /\ RegRet(R.t, R.o) /\ UNCHANGED devs
     \/ /\ R.res = "some"
        /\ R.peq                                        \* Arc::ptr_eq / Rc::ptr_eq with the object of that id
        /\ R.i \in DOMAIN made /\ made[R.i] = R.ig      \* the object says which registration built it
        /\ RetSome(R.t, R.o, R.i) /\ UNCHANGED devs
     \/ /\ R.res = "none" /\ RetNone(R.t, R.o) /\ UNCHANGED devs
     \/ /\ R.res = "panic"
        /\ \/ RetPanic(R.t, R.o, R.pk) /\ UNCHANGED devs
           \/ R.pk = "cycle" /\ DevFalseCycle(R.t, R.o)
  /\ Next1 /\ UNCHANGED kf

\* FIOC1: the watchdog found these threads blocked for good.  Never acceptable (C18: "a
\* dependency cycle is reported by a panic instead of a hang"); with the deviation
\* enabled it is excused exactly when the threads are stuck behind a cross-thread cycle.
HungRec ==
  /\ Is("hung")
  /\ Dev("FIOC1")
  /\ R.ts # <<>>
  /\ \A t \in SeqToSet(R.ts) : t \in DOMAIN stk /\ Stuck(t)
  /\ \E t \in SeqToSet(R.ts) : InWaitCycle(t)
  /\ devs' = devs \cup {"FIOC1"}                              \* the history ends here
  /\ UNCHANGED <<iocVars, kf>>
  /\ Next1

End ==
  /\ Is("end")
  /\ "FIOC1" \in devs \/ (preg = Empty /\ \A t \in DOMAIN stk : stk[t] = <<>>)
  /\ \A d \in devs : PrintT(<<"DEV", d>>)
  /\ UNCHANGED <<iocVars, kf, devs>>
  /\ Next1

Silent ==
  /\ l <= N
  /\ \/ \E t \in DOMAIN stk : Lookup(t)
     \/ \E t \in DOMAIN preg : RegLin(t)
  /\ UNCHANGED <<l, kf, devs>>

Next == New \/ CallReg \/ CallRes \/ FStart \/ FEnd \/ FPanic \/ Ret \/ HungRec \/ End \/ Silent

Spec == Init /\ [][Next]_vars

Accepted ==
  IF TLCGet(1) = N + 1
    THEN TRUE
    ELSE /\ PrintT(<<"REJECT", TLCGet(1), ToJson(Rec[TLCGet(1)])>>)
         /\ FALSE
=========================================================================
