SPECIFICATION Spec
CONSTANTS
  Threads = {1}
  KeySet <- Keys_T2N3
  TraitTypes = {"Q0", "Q1"}
  PlainKinds <- Plain_All
  MaxDeps = 0
  ViaSet <- Vias_Get
  MaxOps = 4
  MaxRegs = 4
  MaxDepth = 2
  SymClasses <- Sym_TN
  Gen = TRUE
VIEW GenView
ACTION_CONSTRAINT Emit
INVARIANT Inv
CHECK_DEADLOCK FALSE
