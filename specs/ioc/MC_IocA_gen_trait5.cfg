SPECIFICATION Spec
CONSTANTS
  Threads = {1}
  KeySet <- Keys_SQN2
  TraitTypes = {"Q0", "Q1"}
  PlainKinds <- Plain_All
  MaxDeps = 0
  ViaSet <- Vias_Get
  MaxOps = 5
  MaxRegs = 5
  MaxDepth = 2
  SymClasses <- Sym_None
  Gen = TRUE
VIEW GenView
ACTION_CONSTRAINT Emit
INVARIANT Inv
CHECK_DEADLOCK FALSE
