SPECIFICATION Spec
CONSTRAINT Track
INVARIANT IocInv
POSTCONDITION Accepted
CHECK_DEADLOCK FALSE
