SPECIFICATION Spec
CONSTANTS
  Threads = {1}
  KeySet <- Keys_C2
  TraitTypes = {"Q0", "Q1"}
  PlainKinds <- Plain_Lazy
  MaxDeps = 1
  ViaSet <- Vias_Get
  MaxOps = 3
  MaxRegs = 3
  MaxDepth = 4
  SymClasses <- Sym_C
  Gen = TRUE
VIEW GenView
ACTION_CONSTRAINT Emit
INVARIANT Inv
CHECK_DEADLOCK FALSE
