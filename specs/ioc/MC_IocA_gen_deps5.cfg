SPECIFICATION Spec
CONSTANTS
  Threads = {1}
  KeySet <- Keys_ABQ
  TraitTypes = {"Q0", "Q1"}
  PlainKinds <- Plain_Lazy
  MaxDeps = 1
  ViaSet <- Vias_Get
  MaxOps = 5
  MaxRegs = 5
  MaxDepth = 4
  SymClasses <- Sym_None
  Gen = TRUE
VIEW GenView
ACTION_CONSTRAINT Emit
INVARIANT Inv
CHECK_DEADLOCK FALSE
