---------------------------- MODULE RollerTrace ----------------------------
(***************************************************************************)
(* Trace validation of the real rolling file appender against RollerA.     *)
(* The driver replays a program (writes of given sizes, clock steps,       *)
(* restarts over the existing directory) on the real roller with an        *)
(* injected clock and, after every step and a flush, projects the          *)
(* directory to                                                            *)
(*     act   : record ids in the active file                               *)
(*     files : rolled files sorted by name = (period p, sequence s,        *)
(*             compressed z), each with its (decompressed) record ids      *)
(* A partial record is logged as a negative id and bytes nobody wrote as   *)
(* -1000, so they match no RollerA state (a record is never torn).         *)
(*                                                                         *)
(*   new      policy (granularity, size limit, retention, compression)     *)
(*   w        write of record id (size sz) at clock t, result, observation *)
(*   tick     the clock moved to period t                                  *)
(*   restart  the roller was dropped and opened again, observation         *)
(* A `w` record is explained by RollerA.AfterWrite for some choice of      *)
(* rolls before / after the record; candidates for the new keys are the    *)
(* keys that appear in the observation (or Hidden for a file that          *)
(* retention removed within the same step).                                *)
(***************************************************************************)
EXTENDS RollerA, Json, IOUtils, TLC

Rec == ndJsonDeserialize(IOEnv.TRACE)
N == Len(Rec)

VARIABLES l, kf, retain, st, written, now, devs
vars == <<l, kf, retain, st, written, now, devs>>

Max2(a, b) == IF a > b THEN a ELSE b
Track == TLCSet(1, Max2(TLCGet(1), l))

R == Rec[l]
Is(k) == l <= N /\ R.k = k
Next1 == l' = l + 1
SeqToSet(s) == {s[i] : i \in 1..Len(s)}

St0 == [active |-> <<>>, rolled |-> <<>>]
Init == TLCSet(1, 0) /\ l = 1 /\ kf = {} /\ retain = -1 /\ st = St0 /\ written = <<>> /\ now = 0 /\ devs = {}

New ==
  /\ Is("new")
  /\ kf' = SeqToSet(R.kf) /\ retain' = R.retain
  /\ st' = St0 /\ written' = <<>> /\ now' = 0 /\ devs' = {}
  /\ Next1

\* the observed directory as a RollerA state: files in name order
Seen(r) == [active |-> r.act,
            rolled |-> [i \in 1..Len(r.files) |-> [key |-> <<r.files[i].p, r.files[i].s>>, ids |-> r.files[i].ids]]]
ObsKeys(r) == {<<r.files[i].p, r.files[i].s>> : i \in 1..Len(r.files)}
OldKeys == {st.rolled[i].key : i \in 1..Len(st.rolled)}

Write ==
  /\ Is("w")
  /\ R.res = "ok"
  /\ R.id = Len(written) + 1
  /\ \E pre, post \in {None, Hidden} \cup (ObsKeys(R) \ OldKeys) :
        /\ WriteOk(st, pre, post, R.id, retain) = TRUE
        /\ AfterWrite(st, R.id, pre, post, retain) = Seen(R)
  /\ st' = Seen(R)
  /\ written' = Append(written, R.id)
  /\ UNCHANGED <<kf, retain, now, devs>>
  /\ Next1

Tick ==
  /\ Is("tick")
  /\ R.t >= now /\ now' = R.t
  /\ UNCHANGED <<kf, retain, st, written, devs>>
  /\ Next1

\* a restart over the existing directory loses, rewrites and renames nothing
Restart ==
  /\ Is("restart")
  /\ R.res = "ok"
  /\ Seen(R) = st
  /\ UNCHANGED <<kf, retain, st, written, now, devs>>
  /\ Next1

End ==
  /\ Is("end")
  /\ UNCHANGED <<kf, retain, st, written, now, devs>>
  /\ Next1

Next == New \/ Write \/ Tick \/ Restart \/ End
Spec == Init /\ [][Next]_vars

\* the RollerA properties at every step of every real history
RollerInv == Lossless(st, written, retain) /\ KeysAscend(st) /\ Retained(st, retain)

Accepted ==
  IF TLCGet(1) = N + 1
    THEN TRUE
    ELSE /\ PrintT(<<"REJECT", TLCGet(1), ToJson(Rec[TLCGet(1)])>>)
         /\ FALSE
=============================================================================
