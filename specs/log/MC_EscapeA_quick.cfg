SPECIFICATION Spec
CONSTANTS
  MaxLen = 3
INVARIANT WordInv
CHECK_DEADLOCK FALSE
