------------------------------- MODULE PipeA -------------------------------
(***************************************************************************)
(* Layer A of the log pipeline (C19, second half), from the statement:     *)
(*                                                                         *)
(*   "Each selected appender gets the event exactly once, identically      *)
(*    whether it was emitted through log or tracing, and in emission order *)
(*    per emitting thread.  With the blocking overflow policy no accepted  *)
(*    event is lost, including at shutdown: shutting down or dropping the  *)
(*    guard flushes everything buffered, after which custom streams drain  *)
(*    and then disconnect."                                                *)
(*                                                                         *)
(* Part 1: the properties as predicates over what was observed.            *)
(*   ev  : event id |-> [t : emitting thread, i : position in that         *)
(*         thread's emission order, dst : the appenders the router selects]*)
(*   s   : the sequence of event ids an appender's sink holds (file order, *)
(*         or order of reception on a custom stream)                       *)
(*   acc : the accepted events = those whose emitting call RETURNED BEFORE *)
(*         shutdown was CALLED.  Events racing with shutdown are not       *)
(*         constrained by the statement (they may or may not arrive), but  *)
(*         exactly-once, selection and order apply to them as well.        *)
(* Part 2: an abstract machine of the pipeline (emitters -> bounded        *)
(* channel per appender -> writer / stream consumer, Shutdown at any       *)
(* moment) on which MC_PipeA checks that a blocking pipeline satisfies     *)
(* these predicates for exactly this notion of `accepted`.                 *)
(***************************************************************************)
EXTENDS Naturals, Sequences, FiniteSets

Ids(s) == {s[k] : k \in 1..Len(s)}

\* exactly once: no event twice in one sink
Once(s) == \A j, k \in 1..Len(s) : j # k => s[j] # s[k]
\* only events that exist and whose route selects this appender
OnlySelected(ev, a, s) == \A k \in 1..Len(s) : s[k] \in DOMAIN ev /\ a \in ev[s[k]].dst
\* emission order per emitting thread
ThreadOrder(ev, s) ==
  \A j, k \in 1..Len(s) : (j < k /\ ev[s[j]].t = ev[s[k]].t) => ev[s[j]].i < ev[s[k]].i
\* nothing accepted is lost
NoLoss(ev, acc, a, s) == \A e \in acc : a \in ev[e].dst => e \in Ids(s)

SinkOk(ev, a, s) == Once(s) /\ OnlySelected(ev, a, s) /\ ThreadOrder(ev, s)

(***************************************************************************)
(* The abstract machine.                                                   *)
(***************************************************************************)
CONSTANTS Threads,     \* emitting threads
          PerThread,   \* events each thread emits
          ByteApps,    \* appenders with a writer thread and a file
          StreamApps,  \* custom streams (the application is the consumer)
          Cap          \* channel capacity of every appender

Apps == ByteApps \cup StreamApps
EvId(t, j) == t * 10 + j
Events == {EvId(t, j) : t \in Threads, j \in 1..PerThread}
ThreadOf(e) == e \div 10
IndexOf(e) == e % 10
\* a fixed routing table that exercises "not every appender": the 2nd event of a thread skips the streams
DstOf(e) == IF IndexOf(e) = 2 THEN ByteApps ELSE Apps
Ev == [e \in Events |-> [t |-> ThreadOf(e), i |-> IndexOf(e), dst |-> DstOf(e)]]

VARIABLES
  done,    \* done[t]: events thread t has emitted (calls returned)
  cur,     \* cur[t]: 0, or the event thread t is emitting
  todo,    \* todo[t]: appenders the current event still has to be enqueued to
  chan,    \* chan[a]: bounded channel contents
  sink,    \* sink[a]: file contents / events received by the stream consumer
  acc,     \* accepted events
  phase,   \* "up", "closing" (shutdown called), "closed" (channels closed), "down" (shutdown returned)
  disc     \* streams whose consumer observed Disconnected
pvars == <<done, cur, todo, chan, sink, acc, phase, disc>>

PInit ==
  /\ done = [t \in Threads |-> 0] /\ cur = [t \in Threads |-> 0] /\ todo = [t \in Threads |-> {}]
  /\ chan = [a \in Apps |-> <<>>] /\ sink = [a \in Apps |-> <<>>]
  /\ acc = {} /\ phase = "up" /\ disc = {}

Closed == phase \in {"closed", "down"}

EmitCall(t) ==
  /\ cur[t] = 0 /\ done[t] < PerThread
  /\ cur' = [cur EXCEPT ![t] = EvId(t, done[t] + 1)]
  /\ todo' = [todo EXCEPT ![t] = DstOf(EvId(t, done[t] + 1))]
  /\ UNCHANGED <<done, chan, sink, acc, phase, disc>>

\* blocking overflow policy: the emitter waits for room
Enq(t, a) ==
  /\ cur[t] # 0 /\ a \in todo[t] /\ ~Closed /\ Len(chan[a]) < Cap
  /\ chan' = [chan EXCEPT ![a] = Append(@, cur[t])]
  /\ todo' = [todo EXCEPT ![t] = @ \ {a}]
  /\ UNCHANGED <<done, cur, sink, acc, phase, disc>>

\* after the channels are closed an event is silently discarded
Discard(t, a) ==
  /\ cur[t] # 0 /\ a \in todo[t] /\ Closed
  /\ todo' = [todo EXCEPT ![t] = @ \ {a}]
  /\ UNCHANGED <<done, cur, chan, sink, acc, phase, disc>>

EmitRet(t) ==
  /\ cur[t] # 0 /\ todo[t] = {}
  /\ acc' = IF phase = "up" THEN acc \cup {cur[t]} ELSE acc   \* returned before shutdown was called
  /\ done' = [done EXCEPT ![t] = @ + 1]
  /\ cur' = [cur EXCEPT ![t] = 0]
  /\ UNCHANGED <<todo, chan, sink, phase, disc>>

\* writer thread of a byte appender / the application receiving from a custom stream
Take(a) ==
  /\ chan[a] # <<>> /\ a \notin disc
  /\ sink' = [sink EXCEPT ![a] = Append(@, Head(chan[a]))]
  /\ chan' = [chan EXCEPT ![a] = Tail(@)]
  /\ UNCHANGED <<done, cur, todo, acc, phase, disc>>

ShutdownCall == phase = "up" /\ phase' = "closing" /\ UNCHANGED <<done, cur, todo, chan, sink, acc, disc>>
CloseChannels == phase = "closing" /\ phase' = "closed" /\ UNCHANGED <<done, cur, todo, chan, sink, acc, disc>>
\* shutdown returns once every writer has drained and flushed its channel
ShutdownRet ==
  /\ phase = "closed" /\ \A a \in ByteApps : chan[a] = <<>>
  /\ phase' = "down" /\ UNCHANGED <<done, cur, todo, chan, sink, acc, disc>>

\* a custom stream drains, then disconnects
StreamDisc(a) ==
  /\ a \in StreamApps \ disc /\ Closed /\ chan[a] = <<>>
  /\ disc' = disc \cup {a}
  /\ UNCHANGED <<done, cur, todo, chan, sink, acc, phase>>

PNext ==
  \/ \E t \in Threads : EmitCall(t) \/ EmitRet(t) \/ \E a \in Apps : Enq(t, a) \/ Discard(t, a)
  \/ \E a \in Apps : Take(a) \/ StreamDisc(a)
  \/ ShutdownCall \/ CloseChannels \/ ShutdownRet

PSpec == PInit /\ [][PNext]_pvars

\* ---- the properties on the machine -------------------------------------------------
InFlight(a) == sink[a] \o chan[a]
ExactlyOnceInOrder == \A a \in Apps : SinkOk(Ev, a, InFlight(a))
\* after shutdown returned every accepted event is in its files
FlushedAtShutdown == phase = "down" => \A a \in ByteApps : NoLoss(Ev, acc, a, sink[a])
\* a stream never loses an accepted event: it is received or still buffered; once it
\* disconnected everything accepted was received
StreamsDrainThenDisconnect ==
  /\ \A a \in StreamApps : NoLoss(Ev, acc, a, InFlight(a))
  /\ \A a \in disc : chan[a] = <<>> /\ NoLoss(Ev, acc, a, sink[a])
PipeInv == ExactlyOnceInOrder /\ FlushedAtShutdown /\ StreamsDrainThenDisconnect
=============================================================================
