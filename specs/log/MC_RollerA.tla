----------------------------- MODULE MC_RollerA -----------------------------
(***************************************************************************)
(* Bounded exploration of RollerA: every sequence of writes, clock steps   *)
(* and restarts up to a length bound, with a roll possible before and      *)
(* after every write and any admissible key.  Checks that rolls as         *)
(* constrained by RollerA (whole file renamed, fresh ascending key,        *)
(* retention trims the oldest) keep the properties of the statement.       *)
(***************************************************************************)
EXTENDS RollerA, TLC

CONSTANTS RetainCfg, \* the retention count, 99 = keep everything (cfg files have no negative literals)
          MaxWrites, MaxPeriod, MaxSeq, MaxLen

Retain == IF RetainCfg = 99 THEN -1 ELSE RetainCfg

VARIABLES st,       \* [active, rolled]
          written, now, steps
vars == <<st, written, now, steps>>

Init == st = [active |-> <<>>, rolled |-> <<>>] /\ written = <<>> /\ now = 0 /\ steps = 0

Keys == {<<p, s>> : p \in 0..MaxPeriod, s \in 1..MaxSeq}
\* the model rolls to a key of the current or an earlier period (the statement does not constrain this)
RollKeys == {None, Hidden} \cup {k \in Keys : k[1] <= now}

Write ==
  /\ Len(written) < MaxWrites /\ steps < MaxLen
  /\ \E pre, post \in RollKeys :
       LET id == Len(written) + 1 IN
       /\ WriteOk(st, pre, post, id, Retain)
       \* a hidden file must really be gone by the end of the step
       /\ \A i \in 1..Len(AfterWrite(st, id, pre, post, Retain).rolled) :
             AfterWrite(st, id, pre, post, Retain).rolled[i].key # Hidden
       /\ st' = AfterWrite(st, id, pre, post, Retain)
       /\ written' = Append(written, id)
  /\ steps' = steps + 1 /\ UNCHANGED now

Tick == now < MaxPeriod /\ steps < MaxLen /\ now' = now + 1 /\ steps' = steps + 1 /\ UNCHANGED <<st, written>>
\* a restart over the existing directory changes nothing that is on disk
Restart == steps < MaxLen /\ steps' = steps + 1 /\ UNCHANGED <<st, written, now>>

Next == Write \/ Tick \/ Restart
Spec == Init /\ [][Next]_vars

Inv == Lossless(st, written, Retain) /\ KeysAscend(st) /\ Retained(st, Retain)
\* no record is torn or duplicated: every id at most once on disk
NoDup == \A i, j \in 1..Len(OnDisk(st)) : i # j => OnDisk(st)[i] # OnDisk(st)[j]
=============================================================================
