------------------------------ MODULE EscapeA ------------------------------
(***************************************************************************)
(* Input classes for the encoders (C20, first sentence).  TLA+ does not    *)
(* decide whether bytes are valid JSON (DESIGN.md section 9: that is an    *)
(* independent parser in the driver); it enumerates the inputs: every      *)
(* string is a word over character classes, and the statement's            *)
(* "arbitrary strings (quotes, backslashes, newlines, control and          *)
(* non-ASCII characters)", "empty and very long strings" become all words  *)
(* up to a length bound.  The driver maps a class to concrete characters   *)
(* (several per class, rotating).                                          *)
(***************************************************************************)
EXTENDS Naturals, Sequences, FiniteSets

Classes == {"plain", "quote", "backslash", "newline", "ctrl", "nonascii", "empty", "long"}

\* classes a JSON string may not contain unescaped (the case analysis behind "valid JSON on a single line")
MustEscape == {"quote", "backslash", "newline", "ctrl"}
\* classes that would break "a single line" if written raw
BreaksLine == {"newline"}

WordsOfLen(n) == [1..n -> Classes]
Words(maxLen) == UNION {WordsOfLen(n) : n \in 0..maxLen}

\* keys the JSON-lines encoder writes itself; a custom field may carry the same name
CoreKeys == {"timestamp", "level", "target", "message", "name", "span_id", "parent_id", "thread_id", "thread_name", "fields"}

NonFinite == {"nan", "inf", "-inf"}
=============================================================================
