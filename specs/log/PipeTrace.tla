----------------------------- MODULE PipeTrace -----------------------------
(***************************************************************************)
(* Trace validation of end-to-end histories of the logging pipeline (C19). *)
(* A history is produced by one child process: init_from_file on a         *)
(* generated configuration, events emitted through the log and tracing     *)
(* macros from free-running threads, shutdown() / drop of the guard at a   *)
(* seeded moment, then what the custom streams delivered and what the      *)
(* appender files contain.  All records are written under one lock, so     *)
(* the order of `er` (emitting call returned) and `sc` (shutdown called)   *)
(* is real-time order.                                                     *)
(*                                                                         *)
(*   new   configuration: loggers (RouteA form), appenders (name, kind)    *)
(*   ec/er emitting call of event e (thread, target path, level, via) / its return *)
(*   sc/sr shutdown (or drop of the guard) called / returned               *)
(*   rv/rd a custom stream delivered event e / reported Disconnected       *)
(*   file  ids found in an appender's file(s), in file order, after `sr`   *)
(*   end                                                                    *)
(* The routing oracle is RouteA.Deliver, the delivery oracle the PipeA     *)
(* predicates.  Every check is deterministic (no silent steps).            *)
(*                                                                         *)
(* Open known finding LOG_F25 (only when listed in `kf`): loggers that name no *)
(* appender are ignored by the router; an event may then be delivered      *)
(* according to the configuration without those loggers.                   *)
(***************************************************************************)
EXTENDS RouteA, Json, IOUtils, TLC

\* the PipeA predicates (PipeA's machine constants are irrelevant here)
P == INSTANCE PipeA WITH Threads <- {}, PerThread <- 0, ByteApps <- {}, StreamApps <- {}, Cap <- 0,
                         done <- 0, cur <- 0, todo <- 0, chan <- 0, sink <- 0, acc <- 0, phase <- 0, disc <- 0

Rec == ndJsonDeserialize(IOEnv.TRACE)
N == Len(Rec)

VARIABLES
  l, kf,
  cfg,    \* RouteA configuration
  kind,   \* appender |-> "stream" | "file_pat" | "file_json" | "roll"
  ev,     \* event id |-> [t, i, dst (strict route), alt (route under the enabled known findings)]
  cnt,    \* cnt[t]: events thread t has started to emit
  acc,    \* events whose emitting call returned before shutdown was called
  down,   \* 0 up, 1 shutdown called, 2 shutdown returned
  got,    \* appender |-> ids received (stream) / found in the file
  fin,    \* appenders whose observation is complete (stream disconnected, file read back)
  devs
vars == <<l, kf, cfg, kind, ev, cnt, acc, down, got, fin, devs>>

Max2(a, b) == IF a > b THEN a ELSE b
Track == TLCSet(1, Max2(TLCGet(1), l))

R == Rec[l]
Is(k) == l <= N /\ R.k = k
Next1 == l' = l + 1
SeqToSet(s) == {s[i] : i \in 1..Len(s)}
Dev(id) == id \in kf
Empty == [x \in {} |-> 0]
Put(f, k, v) == [x \in DOMAIN f \cup {k} |-> IF x = k THEN v ELSE f[x]]

Init ==
  /\ TLCSet(1, 0) /\ l = 1 /\ kf = {} /\ cfg = Empty /\ kind = Empty /\ ev = Empty /\ cnt = Empty
  /\ acc = {} /\ down = 0 /\ got = Empty /\ fin = {} /\ devs = {}

CfgOf(lg) == [n \in {lg[i].n : i \in 1..Len(lg)} |->
                LET r == CHOOSE i \in 1..Len(lg) : lg[i].n = n
                IN [lv |-> lg[r].lv, add |-> lg[r].add, apps |-> SeqToSet(lg[r].apps)]]
WithoutEmpty(c) == [n \in {m \in DOMAIN c : c[m].apps # {}} |-> c[n]]

New ==
  /\ Is("new")
  /\ kf' = SeqToSet(R.kf)
  /\ cfg' = CfgOf(R.lg)
  /\ kind' = [a \in {R.apps[i].n : i \in 1..Len(R.apps)} |->
                 R.apps[CHOOSE i \in 1..Len(R.apps) : R.apps[i].n = a].kind]
  /\ ev' = Empty /\ cnt' = [t \in 1..R.threads |-> 0] /\ acc' = {} /\ down' = 0
  /\ got' = [a \in {R.apps[i].n : i \in 1..Len(R.apps)} |-> <<>>] /\ fin' = {} /\ devs' = {}
  /\ Next1

EmitCall ==
  /\ Is("ec")
  /\ R.e \notin DOMAIN ev /\ R.t \in DOMAIN cnt /\ R.lv \in 1..5
  /\ LET d == Deliver(cfg, R.tg, R.lv)
         x == IF Dev("LOG_F25") THEN Deliver(WithoutEmpty(cfg), R.tg, R.lv) ELSE d
     IN ev' = Put(ev, R.e, [t |-> R.t, i |-> cnt[R.t] + 1, dst |-> d, alt |-> x])
  /\ cnt' = [cnt EXCEPT ![R.t] = @ + 1]
  /\ UNCHANGED <<kf, cfg, kind, acc, down, got, fin, devs>>
  /\ Next1

EmitRet ==
  /\ Is("er")
  /\ R.e \in DOMAIN ev
  /\ acc' = IF down = 0 THEN acc \cup {R.e} ELSE acc
  /\ UNCHANGED <<kf, cfg, kind, ev, cnt, down, got, fin, devs>>
  /\ Next1

ShutCall == Is("sc") /\ down = 0 /\ down' = 1 /\ UNCHANGED <<kf, cfg, kind, ev, cnt, acc, got, fin, devs>> /\ Next1
ShutRet == Is("sr") /\ down = 1 /\ down' = 2 /\ UNCHANGED <<kf, cfg, kind, ev, cnt, acc, got, fin, devs>> /\ Next1

\* the event table seen by the PipeA predicates: an appender is "selected" for an event if the strict
\* route says so, or the route under an enabled known finding does
Sel == [e \in DOMAIN ev |-> [t |-> ev[e].t, i |-> ev[e].i, dst |-> ev[e].dst \cup ev[e].alt]]

\* P!SinkOk(Sel, a, Append(s, e)) given P!SinkOk(Sel, a, s): only the pairs with the new element
\* (keeps validation linear in the length of the stream)
ExtendOk(a, s, e) ==
  /\ e \in DOMAIN ev /\ a \in ev[e].dst \cup ev[e].alt          \* OnlySelected
  /\ \A k \in 1..Len(s) : /\ s[k] # e                             \* Once
                           /\ ev[s[k]].t = ev[e].t => ev[s[k]].i < ev[e].i   \* ThreadOrder

\* a custom stream hands over one more event
StreamRecv ==
  /\ Is("rv")
  /\ R.a \in DOMAIN kind /\ kind[R.a] = "stream"
  /\ R.a \notin fin                                   \* nothing after Disconnected
  /\ ExtendOk(R.a, got[R.a], R.e) = TRUE                      \* selected, exactly once, per-thread order
  /\ got' = [got EXCEPT ![R.a] = Append(@, R.e)]
  /\ UNCHANGED <<kf, cfg, kind, ev, cnt, acc, down, fin, devs>>
  /\ Next1

\* ... and disconnects: only once shutdown has been called ("after which custom streams drain and then disconnect")
StreamDisc ==
  /\ Is("rd")
  /\ R.a \in DOMAIN kind /\ kind[R.a] = "stream" /\ R.a \notin fin
  /\ down >= 1
  /\ fin' = fin \cup {R.a}
  /\ UNCHANGED <<kf, cfg, kind, ev, cnt, acc, down, got, devs>>
  /\ Next1

\* contents of an appender's file(s) after shutdown returned
File ==
  /\ Is("file")
  /\ R.a \in DOMAIN kind /\ kind[R.a] # "stream" /\ R.a \notin fin
  /\ down = 2
  /\ P!SinkOk(Sel, R.a, R.es) = TRUE
  /\ got' = [got EXCEPT ![R.a] = R.es]
  /\ fin' = fin \cup {R.a}
  /\ UNCHANGED <<kf, cfg, kind, ev, cnt, acc, down, devs>>
  /\ Next1

\* informational: an emitting call that raced with shutdown has not returned (not constrained by C19)
Stuck == Is("stuck") /\ UNCHANGED <<kf, cfg, kind, ev, cnt, acc, down, got, fin, devs>> /\ Next1

GotBy(e) == {a \in DOMAIN got : e \in P!Ids(got[a])}

\* State predicates are compared with TRUE so that TLC evaluates them as values (an action-level
\* "\A e : A \/ B" would be expanded into 2^n branches).
\* no accepted event lost, none delivered elsewhere: exactly the selected appenders have it
AcceptedDelivered == \A e \in acc : GotBy(e) = ev[e].dst \/ (Dev("LOG_F25") /\ GotBy(e) = ev[e].alt)
\* an event that raced with shutdown reaches a subset of its route
RacingBounded == \A e \in DOMAIN ev \ acc : GotBy(e) \subseteq ev[e].dst \/ (Dev("LOG_F25") /\ GotBy(e) \subseteq ev[e].alt)
StrictFails == \E e \in DOMAIN ev : ~(GotBy(e) \subseteq ev[e].dst) \/ (e \in acc /\ GotBy(e) # ev[e].dst)

End ==
  /\ Is("end")
  /\ down = 2
  /\ fin = DOMAIN kind                                \* every stream disconnected, every file read back
  /\ AcceptedDelivered = TRUE
  /\ RacingBounded = TRUE
  /\ devs' = IF StrictFails THEN devs \cup {"LOG_F25"} ELSE devs
  /\ (StrictFails => PrintT(<<"DEV", "LOG_F25", l>>)) = TRUE
  /\ UNCHANGED <<kf, cfg, kind, ev, cnt, acc, down, got, fin>>
  /\ Next1

\* `rt` (a stream neither delivered nor disconnected after shutdown), `hung`, `crash`, `panic`, `error` match nothing.
Next == New \/ EmitCall \/ EmitRet \/ ShutCall \/ ShutRet \/ StreamRecv \/ StreamDisc \/ File \/ Stuck \/ End
Spec == Init /\ [][Next]_vars

Accepted ==
  IF TLCGet(1) = N + 1
    THEN TRUE
    ELSE /\ PrintT(<<"REJECT", TLCGet(1), ToJson(Rec[TLCGet(1)])>>)
         /\ FALSE
=============================================================================
