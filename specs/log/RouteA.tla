------------------------------ MODULE RouteA ------------------------------
(***************************************************************************)
(* Layer A of log routing (C19, first sentence), written from the property *)
(* statement:                                                              *)
(*                                                                         *)
(*   "An emitted event is delivered to an appender exactly when the most   *)
(*    specific logger that names that appender and whose name is a         *)
(*    module-path prefix of the event target (the root logger as fallback) *)
(*    admits the event's level, except that when the most specific         *)
(*    matching logger overall is non-additive only that logger's own       *)
(*    appenders can receive it."                                           *)
(*                                                                         *)
(* A logger name and an event target are module paths: sequences of        *)
(* segments ("a::b" is <<"a","b">>).  The root logger is the empty path,   *)
(* which is a prefix of every target and less specific than any other      *)
(* logger ("fallback").  A configuration is a function                     *)
(*      path |-> [lv : 0..5, add : BOOLEAN, apps : set of appender names]  *)
(* Levels: 0 = off, 1 = error, 2 = warn, 3 = info, 4 = debug, 5 = trace;   *)
(* a logger of level L admits an event of level l iff l <= L.              *)
(*                                                                         *)
(* Left open by the statement and therefore not modelled: what a logger    *)
(* whose name is not a well-formed module path means; duplicate names      *)
(* (a configuration is a map).                                             *)
(***************************************************************************)
EXTENDS Naturals, Sequences, FiniteSets

IsPrefix(p, t) == Len(p) <= Len(t) /\ \A i \in 1..Len(p) : p[i] = t[i]

\* loggers whose name is a module-path prefix of the target (root included)
Matching(cfg, t) == {n \in DOMAIN cfg : IsPrefix(n, t)}

\* all members of S are prefixes of one target, so lengths are distinct
MostSpecific(S) == CHOOSE n \in S : \A m \in S : Len(m) <= Len(n)

Admits(lg, lv) == lv <= lg.lv

AllApps(cfg) == UNION {cfg[n].apps : n \in DOMAIN cfg}

\* "the most specific logger that names that appender and whose name is a prefix
\*  of the target": its level, or 0 (admits nothing) when no such logger exists
Rule(cfg, t, a) ==
  LET Ma == {n \in Matching(cfg, t) : a \in cfg[n].apps}
  IN  IF Ma = {} THEN 0 ELSE cfg[MostSpecific(Ma)].lv

\* "... except that when the most specific matching logger overall is
\*  non-additive only that logger's own appenders can receive it"
Reach(cfg, t) ==
  LET M == Matching(cfg, t)
  IN  IF M = {} THEN {}
      ELSE LET w == MostSpecific(M)
           IN  IF cfg[w].add THEN AllApps(cfg) ELSE cfg[w].apps

\* appender |-> least severe level it receives for this target (0: none)
Threshold(cfg, t) == [a \in Reach(cfg, t) |-> Rule(cfg, t, a)]

Deliver(cfg, t, lv) == {a \in Reach(cfg, t) : lv <= Rule(cfg, t, a)}

(***************************************************************************)
(* Consequences of the sentence, checked by MC_RouteA over all small       *)
(* logger trees (they guard the operator against transcription slips).     *)
(***************************************************************************)
\* only appenders named by a matching logger can receive
L_OnlyNamed(cfg, t, lv) ==
  Deliver(cfg, t, lv) \subseteq UNION {cfg[n].apps : n \in Matching(cfg, t)}
\* a non-additive most specific logger isolates the event
L_Isolation(cfg, t, lv) ==
  LET M == Matching(cfg, t)
  IN  (M # {} /\ ~cfg[MostSpecific(M)].add) => Deliver(cfg, t, lv) \subseteq cfg[MostSpecific(M)].apps
\* more severe events are delivered wherever less severe ones are
L_Monotone(cfg, t) ==
  \A l \in 1..4 : Deliver(cfg, t, l + 1) \subseteq Deliver(cfg, t, l)
\* loggers that do not match the target are irrelevant
L_Locality(cfg, t, lv) ==
  LET M == Matching(cfg, t)
  IN  Deliver(cfg, t, lv) = Deliver([n \in M |-> cfg[n]], t, lv)
\* the winner's own appenders are decided by the winner's level alone
L_Winner(cfg, t, lv) ==
  LET M == Matching(cfg, t)
  IN  M # {} => \A a \in cfg[MostSpecific(M)].apps :
                   (a \in Deliver(cfg, t, lv)) = Admits(cfg[MostSpecific(M)], lv)
=============================================================================
