SPECIFICATION Spec
CONSTANTS
  RetainCfg = 99
  MaxWrites = 4
  MaxPeriod = 2
  MaxSeq = 2
  MaxLen = 7
INVARIANT Inv
INVARIANT NoDup
CHECK_DEADLOCK FALSE
