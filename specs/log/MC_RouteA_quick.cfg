SPECIFICATION Spec
CONSTANTS
  MaxLoggers = 2
  LoggerLevels = {0, 1, 2, 3, 4, 5}
  Dump = FALSE
INVARIANT Inv
CHECK_DEADLOCK FALSE
