SPECIFICATION Spec
CONSTANTS
  MaxLoggers = 3
  LoggerLevels = {0, 3, 5}
  Dump = TRUE
INVARIANT Inv
CHECK_DEADLOCK FALSE
