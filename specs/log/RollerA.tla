------------------------------ MODULE RollerA ------------------------------
(***************************************************************************)
(* Layer A of the rolling file appender (C20, second sentence):            *)
(*                                                                         *)
(*   "The rolling file appender never loses, duplicates, reorders or tears *)
(*    a record across a size- or time-triggered roll, with or without      *)
(*    compression, never clobbers an existing rolled file, and retains at  *)
(*    most the configured number of rolled files, always the newest."      *)
(*                                                                         *)
(* Abstract state: the records written so far (`written`, ground truth),   *)
(* the active file and the rolled files, each a sequence of whole record   *)
(* ids.  A rolled file is named by a key <<period, sequence>>; `rolled` is *)
(* kept in order of creation (oldest first).  A record is an atom here: a  *)
(* torn record cannot be expressed, so an observation that contains a      *)
(* partial record matches no state.  Compression changes the               *)
(* representation of a rolled file, not its contents, and is invisible.    *)
(*                                                                         *)
(* What the statement leaves open is left open:                            *)
(*  - WHEN a roll happens.  A write may roll before and/or after appending *)
(*    (time trigger, "would exceed" and "has reached" size triggers are    *)
(*    all fine).  The statement is a safety property of rolls, it does not *)
(*    promise that a file never exceeds the limit.                         *)
(*  - how the key of a rolled file relates to the clock.  Required is only *)
(*    what gives "reorder" and "newest" a meaning for a reader of the      *)
(*    directory: the order of the keys is the order of creation.           *)
(*  - whether an empty active file is rolled (an empty rolled file counts  *)
(*    towards retention like any other).                                   *)
(***************************************************************************)
EXTENDS Integers, Sequences, FiniteSets

None == <<-1, 0>>      \* "no roll here"
Hidden == <<-2, 0>>    \* key of a file that is created and deleted by retention within one step (unobservable)

KeyLess(k1, k2) == k1[1] < k2[1] \/ (k1[1] = k2[1] /\ k1[2] < k2[2])

RECURSIVE Flat(_)
Flat(rs) == IF rs = <<>> THEN <<>> ELSE rs[1].ids \o Flat(Tail(rs))

\* retention: at most `retain` rolled files, always the newest (-1: keep all)
Trim(rs, retain) ==
  IF retain < 0 \/ Len(rs) <= retain THEN rs ELSE SubSeq(rs, Len(rs) - retain + 1, Len(rs))

\* s = [active, rolled].  The active file is renamed to `key`, whole and in order.
CanRoll(s, key) ==
  \/ key = Hidden
  \/ /\ key[1] >= 0 /\ key[2] >= 1
     \* never clobbers an existing rolled file, and keys grow in creation order
     /\ \A i \in 1..Len(s.rolled) : s.rolled[i].key # Hidden => KeyLess(s.rolled[i].key, key)
RollTo(s, key, retain) ==
  [active |-> <<>>, rolled |-> Trim(Append(s.rolled, [key |-> key, ids |-> s.active]), retain)]
MaybeRoll(s, key, retain) == IF key = None THEN s ELSE RollTo(s, key, retain)
Put(s, id) == [s EXCEPT !.active = Append(@, id)]

\* the state after writing record `id`, rolling to `pre` before and to `post` after it (None: no roll)
AfterWrite(s, id, pre, post, retain) == MaybeRoll(Put(MaybeRoll(s, pre, retain), id), post, retain)
WriteOk(s, pre, post, id, retain) ==
  /\ pre # None => CanRoll(s, pre)
  /\ post # None => CanRoll(Put(MaybeRoll(s, pre, retain), id), post)

\* ---- the properties, as predicates of a state ------------------------------------
IsSuffix(a, b) == Len(a) <= Len(b) /\ \A i \in 1..Len(a) : a[i] = b[Len(b) - Len(a) + i]
OnDisk(s) == Flat(s.rolled) \o s.active
\* no loss, no duplicate, no reorder: what is on disk, read in key order, is the written sequence --
\* all of it without retention, a suffix of it (the oldest files gone) with retention
Lossless(s, written, retain) ==
  IF retain < 0 THEN OnDisk(s) = written ELSE IsSuffix(OnDisk(s), written)
KeysAscend(s) ==
  \A i, j \in 1..Len(s.rolled) :
     (i < j /\ s.rolled[i].key # Hidden /\ s.rolled[j].key # Hidden) => KeyLess(s.rolled[i].key, s.rolled[j].key)
Retained(s, retain) == retain >= 0 => Len(s.rolled) <= retain
=============================================================================
