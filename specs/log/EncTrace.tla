------------------------------ MODULE EncTrace ------------------------------
(***************************************************************************)
(* Acceptance of encoder observations (C20, first sentence):               *)
(*                                                                         *)
(*   "Every JSON-lines record is a single line of valid JSON that          *)
(*    round-trips the event's level, target, message and fields for        *)
(*    arbitrary strings (quotes, backslashes, newlines, control and        *)
(*    non-ASCII characters), and the pattern encoder renders every event   *)
(*    without panicking and reproduces the message verbatim."              *)
(*                                                                         *)
(* The inputs are words over the classes of EscapeA (enumerated by TLC);   *)
(* the byte-level reading of each formatted record is done by an           *)
(* independent JSON parser in the driver (DESIGN.md section 9), which logs *)
(* what it read back:                                                      *)
(*   json: res, one_line, valid, rt_level, rt_target, rt_message,          *)
(*         fields_present (every custom field is found under "fields" or,  *)
(*         with flatten_fields, at top level), fields_equal (one of these  *)
(*         places carries the value that went in)                          *)
(*   pat:  res, has_m (the pattern contains a message directive),          *)
(*         verbatim (the output contains the message unchanged)            *)
(* Left open by the statement: how a non-finite float is written (JSON has *)
(* no literal for it).  Required is that the record stays valid and the    *)
(* field is present; the driver does not compare its value.                *)
(*                                                                         *)
(* Open known findings (only when listed in `kf`):                         *)
(*  LOG_F23  flatten_fields: a custom field named like a key the encoder       *)
(*       writes itself is dropped.                                         *)
(*  LOG_F26  a padding wider than 65535 columns makes the pattern encoder   *)
(*       panic (pad_big: the pattern contains such a directive).           *)
(***************************************************************************)
EXTENDS EscapeA, Json, IOUtils, TLC

Rec == ndJsonDeserialize(IOEnv.TRACE)
N == Len(Rec)

VARIABLES l, kf, devs
vars == <<l, kf, devs>>

Max2(a, b) == IF a > b THEN a ELSE b
Track == TLCSet(1, Max2(TLCGet(1), l))
R == Rec[l]
Is(k) == l <= N /\ R.k = k
Next1 == l' = l + 1
SeqToSet(s) == {s[i] : i \in 1..Len(s)}
Dev(id) == id \in kf

Init == TLCSet(1, 0) /\ l = 1 /\ kf = {} /\ devs = {}
New == Is("new") /\ kf' = SeqToSet(R.kf) /\ devs' = {} /\ Next1

JsonShape == R.res = "ok" /\ R.one_line /\ R.valid /\ R.rt_level /\ R.rt_target /\ R.rt_message

JsonRec ==
  /\ Is("json")
  /\ SeqToSet(R.cls) \subseteq Classes
  /\ JsonShape
  /\ IF R.fields_present /\ R.fields_equal
       THEN UNCHANGED devs
       ELSE /\ Dev("LOG_F23") /\ R.flat /\ R.pos = "core"
            /\ SeqToSet(R.lost) \subseteq CoreKeys
            /\ devs' = devs \cup {"LOG_F23"}
  /\ UNCHANGED kf
  /\ Next1

PatRec ==
  /\ Is("pat")
  /\ IF R.res = "ok"
       THEN (R.has_m => R.verbatim) /\ UNCHANGED devs
       ELSE Dev("LOG_F26") /\ R.pad_big /\ devs' = devs \cup {"LOG_F26"}
  /\ UNCHANGED kf
  /\ Next1

End == Is("end") /\ (\A d \in devs : PrintT(<<"DEV", d, l>>)) /\ UNCHANGED <<kf, devs>> /\ Next1

Next == New \/ JsonRec \/ PatRec \/ End
Spec == Init /\ [][Next]_vars

Accepted ==
  IF TLCGet(1) = N + 1
    THEN TRUE
    ELSE /\ PrintT(<<"REJECT", TLCGet(1), ToJson(Rec[TLCGet(1)])>>)
         /\ FALSE
=============================================================================
