SPECIFICATION Spec
CONSTANTS
  MaxLoggers = 2
  LoggerLevels = {0, 1, 3, 5}
  Dump = TRUE
INVARIANT Inv
CHECK_DEADLOCK FALSE
