SPECIFICATION Spec
CONSTANTS
  Threads = {1, 2}
  PerThread = 2
  ByteApps = {"F", "G"}
  StreamApps = {"S"}
  Cap = 2
INVARIANT Inv
CHECK_DEADLOCK FALSE
