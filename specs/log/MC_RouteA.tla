----------------------------- MODULE MC_RouteA -----------------------------
(***************************************************************************)
(* Exhaustive exploration of RouteA.Deliver: every logger tree with at     *)
(* most MaxLoggers loggers from the name pool, every level / additivity /  *)
(* appender wiring, every target and event level.  One state per           *)
(* configuration.  With Dump = TRUE each configuration is printed as JSON  *)
(* (`CFG` lines): these are the configurations the driver replays on the   *)
(* real code.                                                              *)
(***************************************************************************)
EXTENDS RouteA, TLC, Json

CONSTANTS MaxLoggers, LoggerLevels, Dump

Names == {<<>>, <<"a">>, <<"a", "b">>, <<"a", "bc">>, <<"ab">>}
Targets == {<<"a">>, <<"a", "b">>, <<"a", "b", "c">>, <<"a", "bcd">>, <<"ab">>, <<"x">>}
Apps == {"A", "B"}
Opt == [lv : LoggerLevels, add : BOOLEAN, apps : SUBSET Apps]

VARIABLES cfg, visited
vars == <<cfg, visited>>

Init ==
  /\ \E S \in SUBSET Names : Cardinality(S) <= MaxLoggers /\ cfg \in [S -> Opt]
  /\ visited = FALSE

\* the single step evaluates the lemmas' witnesses (and gives the coverage counter something to count)
Visit == ~visited /\ visited' = TRUE /\ UNCHANGED cfg
Next == Visit
Spec == Init /\ [][Next]_vars

SetToSeq(S) == CHOOSE f \in [1..Cardinality(S) -> S] : \A i, j \in 1..Cardinality(S) : i # j => f[i] # f[j]
AsJson == [lg |-> [i \in 1..Cardinality(DOMAIN cfg) |->
             LET n == SetToSeq(DOMAIN cfg)[i]
             IN [n |-> n, lv |-> cfg[n].lv, add |-> cfg[n].add, apps |-> SetToSeq(cfg[n].apps)]]]

Lemmas ==
  \A t \in Targets :
     /\ L_Monotone(cfg, t)
     /\ \A lv \in 1..5 :
          /\ L_OnlyNamed(cfg, t, lv)
          /\ L_Isolation(cfg, t, lv)
          /\ L_Locality(cfg, t, lv)
          /\ L_Winner(cfg, t, lv)

\* boundary facts of the name pool: "ab" and "a::bcd" are not below "a::b" / "a::bc" / "a" resp.
Boundary ==
  /\ ~IsPrefix(<<"a">>, <<"ab">>) /\ ~IsPrefix(<<"a", "bc">>, <<"a", "bcd">>)
  /\ IsPrefix(<<"a">>, <<"a", "bcd">>) /\ IsPrefix(<<>>, <<"x">>)

DumpInv == Dump => PrintT(<<"CFG", ToJson(AsJson)>>)

\* evaluated on the visited copy of each configuration (by the worker threads)
Inv == visited => (Lemmas /\ Boundary /\ DumpInv)
=============================================================================
