SPECIFICATION Spec
CONSTANTS
  RetainCfg = 2
  MaxWrites = 5
  MaxPeriod = 2
  MaxSeq = 3
  MaxLen = 9
INVARIANT Inv
INVARIANT NoDup
CHECK_DEADLOCK FALSE
