----------------------------- MODULE RouteTrace -----------------------------
(***************************************************************************)
(* Trace validation of observed routing against RouteA.Deliver (C19).      *)
(* One `cfg` record per configuration: the logger tree and, for every      *)
(* target of the `new` record and every event level 1..5, how many copies  *)
(* of the event each appender received -- `gl` when it was emitted through *)
(* the log bridge path, `gt` through the tracing path.  Accepted iff both  *)
(* are: one copy for the appenders in Deliver(...), none for the others.   *)
(*                                                                         *)
(* Open known finding LOG_F25 (enabled only when listed in `kf`): a            *)
(* non-additive logger that names no appender is ignored by the router.    *)
(***************************************************************************)
EXTENDS RouteA, Json, IOUtils, TLC

Rec == ndJsonDeserialize(IOEnv.TRACE)
N == Len(Rec)

VARIABLES l, kf, tg, apps, devs
vars == <<l, kf, tg, apps, devs>>

Max2(a, b) == IF a > b THEN a ELSE b
Track == TLCSet(1, Max2(TLCGet(1), l))

R == Rec[l]
Is(k) == l <= N /\ R.k = k
Next1 == l' = l + 1
SeqToSet(s) == {s[i] : i \in 1..Len(s)}
Dev(id) == id \in kf

Init == TLCSet(1, 0) /\ l = 1 /\ kf = {} /\ tg = <<>> /\ apps = <<>> /\ devs = {}

New ==
  /\ Is("new")
  /\ kf' = SeqToSet(R.kf) /\ tg' = R.tg /\ apps' = R.apps /\ devs' = {}
  /\ Next1

CfgOf(lg) == [n \in {lg[i].n : i \in 1..Len(lg)} |->
                LET r == CHOOSE i \in 1..Len(lg) : lg[i].n = n
                IN [lv |-> lg[r].lv, add |-> lg[r].add, apps |-> SeqToSet(lg[r].apps)]]

\* got[ti][lv] = sum over appenders i (0-based position in `apps`) of copies_i * 4^i
Pow4(i) == IF i = 1 THEN 1 ELSE IF i = 2 THEN 4 ELSE IF i = 3 THEN 16 ELSE 64
Copies(code, i) == (code \div Pow4(i)) % 4
Matches(cfg, got) ==
  \A ti \in 1..Len(tg) :
     LET th == Threshold(cfg, tg[ti]) IN
     \A lv \in 1..5 :
        /\ got[ti][lv] >= 0
        /\ \A i \in 1..Len(apps) :           \* exactly once where Deliver says so, not at all elsewhere
             Copies(got[ti][lv], i) = (IF apps[i] \in DOMAIN th /\ lv <= th[apps[i]] THEN 1 ELSE 0)

\* LOG_F25: loggers without appenders do not take part in routing
WithoutEmpty(cfg) == [n \in {m \in DOMAIN cfg : cfg[m].apps # {}} |-> cfg[n]]

Cfg ==
  /\ Is("cfg")
  /\ R.gl = R.gt                       \* identically via log and via tracing
  /\ LET cfg == CfgOf(R.lg) IN
     IF Matches(cfg, R.gl)
       THEN UNCHANGED devs
       ELSE /\ Dev("LOG_F25")
            /\ Matches(WithoutEmpty(cfg), R.gl) = TRUE
            /\ devs' = devs \cup {"LOG_F25"}
  /\ UNCHANGED <<kf, tg, apps>>
  /\ Next1

End ==
  /\ Is("end")
  /\ \A d \in devs : PrintT(<<"DEV", d, l>>)
  /\ UNCHANGED <<kf, tg, apps, devs>>
  /\ Next1

\* `panic` and `error` records (the library panicked / rejected a generated configuration) match nothing.
Next == New \/ Cfg \/ End
Spec == Init /\ [][Next]_vars

Accepted ==
  IF TLCGet(1) = N + 1
    THEN TRUE
    ELSE /\ PrintT(<<"REJECT", TLCGet(1), ToJson(Rec[TLCGet(1)])>>)
         /\ FALSE
=============================================================================
