SPECIFICATION Spec
CONSTANTS
  MaxLen = 4
INVARIANT WordInv
CHECK_DEADLOCK FALSE
