----------------------------- MODULE MC_EscapeA -----------------------------
(* Enumerates the class words (one state each) and prints them for the driver. *)
EXTENDS EscapeA, TLC, Json
CONSTANTS MaxLen
VARIABLES w, seen
Init == w \in Words(MaxLen) /\ seen = FALSE
Visit == ~seen /\ seen' = TRUE /\ UNCHANGED w
Spec == Init /\ [][Visit]_<<w, seen>>
\* every word is a sequence over the classes; the enumeration is complete: 8^0 + ... + 8^MaxLen words
WordInv == seen => (/\ \A i \in 1..Len(w) : w[i] \in Classes
                    /\ PrintT(<<"WORD", ToJson(w)>>))
Count == Cardinality(Words(MaxLen))
=============================================================================
