SPECIFICATION Spec
CONSTRAINT Track
INVARIANT RollerInv
POSTCONDITION Accepted
CHECK_DEADLOCK FALSE
