SPECIFICATION Spec
CONSTANTS
  MaxLoggers = 3
  LoggerLevels = {0, 2, 3, 5}
  Dump = FALSE
INVARIANT Inv
CHECK_DEADLOCK FALSE
