------------------------------ MODULE MC_PipeA ------------------------------
(***************************************************************************)
(* Bounded exploration of the abstract pipeline: every interleaving of the *)
(* emitters, writers, stream consumers and a shutdown at any step.         *)
(* `Witness*` are negated reachability checks used once to make sure the   *)
(* interesting situations occur (see the _wit cfg).                        *)
(***************************************************************************)
EXTENDS PipeA, TLC

Spec == PSpec
Inv == PipeInv

\* an event that raced with shutdown was discarded although its thread emitted before: reachable
RaceLossReachable == ~(\E e \in Events : e \notin acc /\ ThreadOf(e) \in Threads /\ done[ThreadOf(e)] >= IndexOf(e)
                          /\ phase = "down" /\ \E a \in ByteApps : e \notin Ids(sink[a]))
\* the naive reading "accepted = called before shutdown" would be violated by a correct pipeline
Terminal == phase = "down" /\ disc = StreamApps /\ \A t \in Threads : done[t] = PerThread
=============================================================================
