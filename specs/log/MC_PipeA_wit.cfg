SPECIFICATION Spec
CONSTANTS
  Threads = {1, 2}
  PerThread = 2
  ByteApps = {"F"}
  StreamApps = {"S"}
  Cap = 1
INVARIANT RaceLossReachable
CHECK_DEADLOCK FALSE
