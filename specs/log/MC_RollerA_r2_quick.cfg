SPECIFICATION Spec
CONSTANTS
  RetainCfg = 2
  MaxWrites = 4
  MaxPeriod = 2
  MaxSeq = 2
  MaxLen = 7
INVARIANT Inv
INVARIANT NoDup
CHECK_DEADLOCK FALSE
