---------------------------- MODULE MC_CacheA ----------------------------
(***************************************************************************)
(* Bounded exhaustive exploration of Layer A of the cache (CacheA): every  *)
(* sequence of API calls over a small alphabet (2 keys, a few writes, a    *)
(* few clock ticks, costs 1..2), every result the outcome operators of     *)
(* CacheA admit, spontaneous forgetting at any moment.                     *)
(*                                                                         *)
(* The properties C11 / C12 / C13 / C16 / C17 are restated here as         *)
(* invariants over independent history variables (the register semantics   *)
(* kept apart from `live`), so the run checks that the guards of CacheA    *)
(* admit nothing the property statements forbid, and -- through action     *)
(* coverage -- that they admit every kind of outcome at all.  The strict   *)
(* spec is explored: no deviation (known finding) is enabled.              *)
(***************************************************************************)
EXTENDS CacheA

CONSTANTS NKeys, Cap, Ttl, Tti, Grace, MaxT, MaxW, MaxN

VARIABLES
  nextw,     \* next fresh write id
  last,      \* last[k]: [wid, dl, sure, touch]  the latest write of k that no completed
             \*   remove / clear followed: its TTL deadline, the time of its last access that
             \*   certainly refreshed the idle clock, and of its last access of any kind
  forgot,    \* keys whose latest write was forgotten by a legitimate Forget
  obs,       \* the last observation, with the ground truth it has to be judged against
  notified,  \* write ids announced to the listener (spontaneous forgets)
  dup,       \* some write id was announced twice
  reported,  \* cost counter kept by adding / subtracting per call
  quiet      \* maintenance ran and nothing was written since
vars == <<cacheVars, nextw, last, forgot, obs, notified, dup, reported, quiet>>

K == 1..NKeys
NoW == [wid |-> 0, dl |-> 0, sure |-> 0, touch |-> 0]
NoObs == [kind |-> "none", k |-> 0, res |-> None, t |-> 0, w |-> NoW, forgot |-> FALSE]
A0 == [ahead |-> FALSE, stale |-> {}]

Init ==
  /\ cfg = [keys |-> NKeys, cap |-> Cap, ttl |-> Ttl, tti |-> Tti, grace |-> Grace, tick |-> 0, policy |-> "lru", kf |-> {}]
  /\ live = [k \in K |-> NoE]
  /\ now = 0
  /\ aux = A0
  /\ nextw = 1
  /\ last = [k \in K |-> NoW]
  /\ forgot = {}
  /\ obs = NoObs
  /\ notified = {} /\ dup = FALSE
  /\ reported = 0
  /\ quiet = FALSE

Written(k, w, ttl) == [wid |-> w, dl |-> IF ttl > 0 THEN now + ttl ELSE IF Ttl > 0 THEN now + Ttl ELSE 0, sure |-> now, touch |-> now]
See(kind, k, res) == [kind |-> kind, k |-> k, res |-> res, t |-> now, w |-> last[k], forgot |-> k \in forgot]
Touch(k, certain) == [last EXCEPT ![k].touch = now, ![k].sure = IF certain THEN now ELSE @]

\* common frame: an outcome o of a call that wrote key k with write id w (0 = none)
Took(o) == live' = o.L /\ reported' = Resident(o.L) /\ UNCHANGED <<cfg, now, aux>>

DoInsert(k, c, ttl) ==
  /\ nextw <= MaxW
  /\ \E o \in Insert(live, [key |-> k, wid |-> nextw, cost |-> c, ttl |-> ttl], now) : Took(o)
  /\ last' = [last EXCEPT ![k] = Written(k, nextw, ttl)]
  /\ forgot' = forgot \ {k}
  /\ nextw' = nextw + 1 /\ quiet' = FALSE
  /\ obs' = NoObs /\ UNCHANGED <<notified, dup>>

DoRead(k, api, res) ==
  /\ \E o \in Read(live, [key |-> k, api |-> api, res |-> res], now) : Took(o)
  /\ obs' = See("read", k, res)
  /\ last' = IF res # None /\ api # "peek" THEN Touch(k, TRUE) ELSE last
  /\ UNCHANGED <<nextw, forgot, notified, dup, quiet>>

DoRemove(k, hit) ==
  /\ \E o \in Remove(live, [key |-> k, api |-> "remove", hit |-> hit, res |-> IF hit THEN ValOf(live[k]) ELSE None], now) : Took(o)
  /\ obs' = See(IF hit THEN "removed" ELSE "remove-miss", k, IF hit THEN ValOf(live[k]) ELSE None)
  /\ last' = [last EXCEPT ![k] = NoW]
  /\ forgot' = forgot \ {k}
  /\ UNCHANGED <<nextw, notified, dup, quiet>>

DoClear ==
  /\ \E o \in Clear(live, [k |-> "clear"], now) : Took(o)
  /\ last' = [k \in K |-> NoW] /\ forgot' = {}
  /\ obs' = NoObs /\ UNCHANGED <<nextw, notified, dup, quiet>>

DoCompute(k, res) ==
  /\ live[k].n < MaxN
  /\ \E o \in Compute(live, [key |-> k, res |-> res, hasval |-> TRUE, val |-> <<live[k].wid, live[k].n + 1>>], now) : Took(o)
  /\ obs' = See(IF res = "ok" THEN "read" ELSE "miss-ok", k, IF res = "ok" THEN <<live[k].wid, live[k].n>> ELSE None)
  /\ last' = IF res = "ok" THEN Touch(k, FALSE) ELSE last
  /\ UNCHANGED <<nextw, forgot, notified, dup, quiet>>

DoEntry(k, c, occupied) ==
  /\ nextw <= MaxW
  /\ LET res == IF occupied THEN ValOf(live[k]) ELSE <<nextw, 0>> IN
     /\ \E o \in EntryOp(live, [key |-> k, wid |-> nextw, cost |-> c, res |-> res, lazy |-> TRUE, called |-> ~occupied], now) : Took(o)
     /\ obs' = See(IF occupied THEN "read" ELSE "vacant", k, IF occupied THEN res ELSE None)
  /\ last' = IF occupied THEN Touch(k, FALSE) ELSE [last EXCEPT ![k] = Written(k, nextw, 0)]
  /\ forgot' = IF occupied THEN forgot ELSE forgot \ {k}
  /\ nextw' = IF occupied THEN nextw ELSE nextw + 1
  /\ quiet' = (quiet /\ occupied)
  /\ UNCHANGED <<notified, dup>>

\* kind: "hit" (no load), "stale" (served stale, refreshed), "miss" (loaded)
DoFetchWith(k, kind) ==
  /\ kind # "hit" => nextw <= MaxW
  /\ LET loads == IF kind = "hit" THEN <<>> ELSE << <<k, nextw, 1>> >>
         res == IF kind = "miss" THEN <<nextw, 0>> ELSE ValOf(live[k])
     IN
     /\ kind # "miss" => Present(live, k)
     /\ kind = "stale" => (cfg.grace > 0 /\ live[k].exp > 0 /\ now >= live[k].exp)
     /\ kind = "hit" => ~CertExp(live[k], now)
     /\ \E o \in FetchWith(live, [key |-> k, res |-> res, loads |-> loads, seen |-> TRUE], now) : Took(o)
     /\ obs' = See(IF kind = "hit" THEN "read" ELSE IF kind = "stale" THEN "stale" ELSE "vacant", k, IF kind = "miss" THEN None ELSE res)
  /\ last' = IF kind = "hit" THEN Touch(k, TRUE) ELSE [last EXCEPT ![k] = Written(k, nextw, 0)]
  /\ forgot' = IF kind = "hit" THEN forgot ELSE forgot \ {k}
  /\ nextw' = IF kind = "hit" THEN nextw ELSE nextw + 1
  /\ quiet' = (quiet /\ kind = "hit")
  /\ UNCHANGED <<notified, dup>>

SetToSeq(S) == CHOOSE s \in [1..Cardinality(S) -> S] : \A x \in S : \E i \in DOMAIN s : s[i] = x
ItemsOf(S) == LET ks == SetToSeq(S) IN [i \in DOMAIN ks |-> <<ks[i], live[ks[i]].wid, live[ks[i]].n>>]

DoIterate(S) ==
  /\ \E o \in Iterate(live, [items |-> ItemsOf(S), t0 |-> now], now) : Took(o)
  /\ obs' = [NoObs EXCEPT !.kind = "iter", !.res = S, !.t = now]
  /\ last' = [k \in K |-> IF k \in S THEN [last[k] EXCEPT !.touch = now] ELSE last[k]]
  /\ UNCHANGED <<nextw, forgot, notified, dup, quiet>>

EntriesOf(S, shorten) ==
  LET ks == SetToSeq(S) IN
  [i \in DOMAIN ks |-> LET e == live[ks[i]] IN
     <<ks[i], e.wid, e.n, e.cost, IF e.exp > 0 THEN (IF shorten /\ e.exp - now > 1 THEN e.exp - now - 1 ELSE e.exp - now) ELSE -1, 0>>]

DoSnapshot(S) ==
  /\ \E o \in Snapshot(live, [entries |-> EntriesOf(S, FALSE), cap |-> Cap], now) : Took(o)
  /\ obs' = [NoObs EXCEPT !.kind = "iter", !.res = S, !.t = now]
  /\ last' = [k \in K |-> IF k \in S THEN [last[k] EXCEPT !.touch = now] ELSE last[k]]
  /\ UNCHANGED <<nextw, forgot, notified, dup, quiet>>

\* a restore keeps the mapping; remaining lifetimes may only shrink; the idle clock restarts
DoRestore(S, shorten) ==
  /\ \E o \in Restore(live, [entries |-> EntriesOf(S, FALSE), after |-> EntriesOf(S, shorten), cap |-> Cap, wait |-> 0], now) : Took(o)
  /\ obs' = [NoObs EXCEPT !.kind = "restore", !.res = [k \in S |-> last[k]], !.t = now]
  /\ last' = [k \in K |-> IF k \in S THEN [last[k] EXCEPT !.touch = now, !.sure = now, !.dl = live'[k].exp] ELSE NoW]
  /\ forgot' = {} /\ quiet' = FALSE
  /\ UNCHANGED <<nextw, notified, dup>>

Tick(dt) ==
  /\ now + dt <= MaxT
  /\ now' = now + dt
  /\ obs' = NoObs
  /\ UNCHANGED <<cfg, live, aux, nextw, last, forgot, notified, dup, reported, quiet>>

\* the spontaneous eviction the statement allows, announced to the listener
Forget(k, reason) ==
  LET x == <<k, live[k].wid, live[k].n, reason>> IN
  /\ Present(live, k)
  /\ NoteOK(live, x, now, A0)
  /\ live' = ForgetAll(live, {k})
  /\ reported' = Resident(live')
  /\ notified' = notified \cup {live[k].wid}
  /\ dup' = (dup \/ live[k].wid \in notified)
  /\ forgot' = forgot \cup {k}
  /\ obs' = [NoObs EXCEPT !.kind = "forget", !.k = k, !.res = <<reason>>, !.t = now, !.w = last[k]]
  /\ UNCHANGED <<cfg, now, aux, nextw, last, quiet>>

\* maintenance at quiescence: forgets (for capacity) until the resident cost fits
Maintain(S) ==
  /\ ~quiet
  /\ S # {} => Bounded
  /\ S \subseteq {k \in K : Present(live, k)}
  /\ CapacityOK(ForgetAll(live, S))
  /\ live' = ForgetAll(live, S)
  /\ reported' = Resident(live')
  /\ notified' = notified \cup {live[k].wid : k \in S}
  /\ dup' = (dup \/ \E k \in S : live[k].wid \in notified)
  /\ forgot' = forgot \cup S
  /\ quiet' = Bounded
  /\ obs' = NoObs
  /\ UNCHANGED <<cfg, now, aux, nextw, last>>

Next ==
  \/ \E k \in K, c \in 1..2, ttl \in {0, 1} : DoInsert(k, c, ttl)
  \/ \E k \in K, api \in {"get", "peek"} : DoRead(k, api, None) \/ DoRead(k, api, ValOf(live[k]))
  \/ \E k \in K, hit \in BOOLEAN : DoRemove(k, hit)
  \/ DoClear
  \/ \E k \in K, res \in {"ok", "nf"} : DoCompute(k, res)
  \/ \E k \in K, occ \in BOOLEAN : DoEntry(k, 1, occ)
  \/ \E k \in K, kind \in {"hit", "stale", "miss"} : DoFetchWith(k, kind)
  \/ \E S \in SUBSET K : DoIterate(S) \/ DoSnapshot(S)
  \/ \E S \in SUBSET K, sh \in BOOLEAN : DoRestore(S, sh)
  \/ Tick(1)
  \/ \E k \in K, reason \in {"Capacity", "Expired"} : Forget(k, reason)
  \/ \E S \in SUBSET K : Maintain(S)

Spec == Init /\ [][Next]_vars

(* ---- the properties, restated over the history variables ----------------------- *)
Served == obs.kind \in {"read", "stale", "removed"} /\ obs.res # None
\* C11: a served value is the latest write of that key that no completed remove / clear followed
ReadsLatest == Served => (obs.w.wid # 0 /\ obs.res[1] = obs.w.wid /\ ~obs.forgot)
\* C12: never at or after the expiry instant (idle: counted from the last access of any kind at the latest)
NoExpired == (obs.kind = "read" /\ obs.res # None) =>
                /\ (obs.w.dl = 0 \/ obs.t < obs.w.dl)
                /\ (Tti = 0 \/ obs.t < obs.w.touch + Tti)
\* C12: a stale value only inside the grace window
StaleOnlyInGrace == obs.kind = "stale" => (Grace > 0 /\ obs.w.dl > 0 /\ obs.t >= obs.w.dl /\ obs.t < obs.w.dl + Grace)
\* C12: an unbounded cache does not report an unexpired entry missing
PossiblyExpired(w, t) == (w.dl > 0 /\ t >= w.dl) \/ (Tti > 0 /\ t >= w.sure + Tti)
NoPrematureMiss == (Cap = 0 /\ obs.kind \in {"read", "vacant", "miss-ok"} /\ obs.res = None) =>
                      (obs.w.wid = 0 \/ obs.forgot \/ PossiblyExpired(obs.w, obs.t))
\* C16: a forget is announced with the reason that caused it, once
NotifyTruthful == obs.kind = "forget" =>
                    /\ obs.w.wid # 0
                    /\ obs.res[1] = "Capacity" => Cap > 0
                    /\ obs.res[1] = "Expired" => PossiblyExpired(obs.w, obs.t)
NotifyOnce == ~dup
\* C13
CostMatchesResidency == reported = Resident(live)
CapacityAtQuiescence == quiet => CapacityOK(live)
\* C17: iteration / snapshot enumerate exactly the live entries
IterExact == obs.kind = "iter" =>
               /\ \A k \in obs.res : last[k].wid # 0 /\ live[k].wid = last[k].wid /\ ~CertExp(live[k], obs.t)
               /\ \A k \in K \ obs.res : (last[k].wid = 0 \/ k \in forgot \/ PossiblyExpired(last[k], obs.t))
\* C17: a restored cache holds the same mapping with lifetimes no longer than the saved ones
RestoreEquivalent == obs.kind = "restore" =>
                       \A k \in DOMAIN obs.res :
                         /\ live[k].wid = obs.res[k].wid
                         /\ obs.res[k].dl > 0 => (live[k].exp > 0 /\ live[k].exp <= obs.res[k].dl)
\* the spec's residency never disagrees with the register: a resident entry is the latest write
Residency == \A k \in K : Present(live, k) => (live[k].wid = last[k].wid /\ k \notin forgot)

Inv == /\ TypeOK /\ ReadsLatest /\ NoExpired /\ StaleOnlyInGrace /\ NoPrematureMiss /\ NotifyTruthful /\ NotifyOnce
       /\ CostMatchesResidency /\ CapacityAtQuiescence /\ IterExact /\ RestoreEquivalent /\ Residency

\* history variables that only feed the invariants of the step that set them
View == <<live, now, nextw, last, forgot, obs, notified, dup, quiet>>
=============================================================================
