SPECIFICATION Spec
CONSTANTS
  NKeys = 2
  Cap = 0
  Ttl = 3
  Tti = 2
  Grace = 0
  MaxT = 4
  MaxW = 3
  MaxN = 1
INVARIANT Inv
CHECK_DEADLOCK FALSE
