SPECIFICATION Spec
CONSTANTS
  NKeys = 2
  Cap = 2
  Ttl = 2
  Tti = 0
  Grace = 1
  MaxT = 4
  MaxW = 3
  MaxN = 1
INVARIANT Inv
CHECK_DEADLOCK FALSE
