------------------------- MODULE CacheStressTrace -------------------------
(***************************************************************************)
(* Trace validation of concurrent histories of the real cache against      *)
(* Layer A (CacheA).  Two drivers produce them (harness/cachex):           *)
(*   cache-stress  free-running threads on an unbounded cache without      *)
(*                 expiry (interleavings chosen by the OS);                *)
(*   cache-sched   2-3 user threads + 1 maintenance thread under the       *)
(*                 cooperative scheduler (interleavings chosen at every    *)
(*                 lock / atomic step), bounded caches and TTLs included,  *)
(*                 with a `final` record at quiescence.                    *)
(*                                                                         *)
(* `call` and `ret` records frame every operation in a global order.  An   *)
(* operation takes effect at one silent Lin step between its two records,  *)
(* where the Layer A outcome operator of the call (the same one the        *)
(* sequential histories are judged by) must admit the result the call      *)
(* reported (the driver copies the result into the `call` record so that   *)
(* the outcome operator can be evaluated at the linearization point).      *)
(* Spontaneous forgetting is a silent Forget step; it must be announced:   *)
(* the notifications the listener had received at quiescence (`final`,     *)
(* also copied into the `new` record) are exactly the Forget steps taken   *)
(* plus the Invalidated notifications the removes owe (C16 truthful, once, *)
(* complete), the reported cost is the resident cost (C13) and a peek of   *)
(* every key agrees with the residency (C11).                              *)
(* A history is accepted iff some choice of silent steps explains every    *)
(* record.  The longest explained prefix is kept in TLC register 1         *)
(* (-workers 1); the search stops as soon as the whole file is explained.  *)
(***************************************************************************)
EXTENDS CacheA, Json, IOUtils

Rec == ndJsonDeserialize(IOEnv.TRACE)
N == Len(Rec)

VARIABLES
  l,      \* next record to explain
  pend,   \* operations between call and ret: o -> [r: the call record, lin: taken effect]
  told,   \* indices of the final notifications already explained by a Forget step
  owed,   \* Invalidated notifications the linearized removes owe / may send (clear)
  devs
vars == <<cacheVars, l, pend, told, owed, devs>>

Max2(a, b) == IF a > b THEN a ELSE b
Track == TLCSet(1, Max2(TLCGet(1), l))
TrackOk == Track /\ (l = N + 1 => TLCSet("exit", TRUE))

R == Rec[l]
Is(k) == l <= N /\ R.k = k
B(x) == (x = TRUE)

Empty == [x \in {} |-> 0]
Put(f, k, v) == [x \in DOMAIN f \cup {k} |-> IF x = k THEN v ELSE f[x]]
Drop1(f, k) == [x \in DOMAIN f \ {k} |-> f[x]]
Owed0 == [must |-> {}, may |-> {}]
\* aux: fnotes = the notifications of the `final` record; maint = a maintenance pass has started;
\* clearOverlap = a clear() ran while another writer (insert, entry, remove, maintenance) was
\* between its call and its return (guard of the deviation FC5)
Aux0 == [fnotes |-> <<>>, maint |-> FALSE, clearOverlap |-> FALSE]

Init ==
  /\ TLCSet(1, 0)
  /\ l = 1
  /\ cfg = [keys |-> 1, cap |-> 0, ttl |-> 0, tti |-> 0, grace |-> 0, tick |-> 0, policy |-> "", kf |-> {}]
  /\ live = [k \in 1..1 |-> NoE]
  /\ now = 0
  /\ aux = Aux0
  /\ pend = Empty /\ told = {} /\ owed = Owed0
  /\ devs = {}

New ==
  /\ Is("new")
  /\ cfg' = [keys |-> R.keys, cap |-> R.cap, ttl |-> R.ttl, tti |-> R.tti, grace |-> R.grace, tick |-> R.tick,
             policy |-> R.policy, kf |-> SeqToSet(R.kf), hid |-> R.hid]
  /\ live' = [k \in 1..R.keys |-> NoE]
  /\ now' = R.t
  /\ aux' = [fnotes |-> IF "fnotes" \in DOMAIN R THEN R.fnotes ELSE <<>>, maint |-> FALSE, clearOverlap |-> FALSE]
  /\ pend' = Empty /\ told' = {} /\ owed' = Owed0 /\ devs' = {}
  /\ l' = l + 1

\* the driver moved the virtual clock (only while no operation is running)
Adv ==
  /\ Is("adv")
  /\ pend = Empty /\ R.t >= now
  /\ now' = R.t
  /\ l' = l + 1
  /\ UNCHANGED <<cfg, live, aux, pend, told, owed, devs>>

Writers == {"ins", "ent", "rem", "maint"}
Call ==
  /\ Is("call")
  /\ R.o \notin DOMAIN pend
  /\ pend' = Put(pend, R.o, [r |-> R, lin |-> FALSE])
  /\ aux' = [aux EXCEPT !.maint = @ \/ R.op = "maint",
                        !.clearOverlap = @ \/ (R.op = "clear" /\ \E o \in DOMAIN pend : pend[o].r.op \in Writers)
                                           \/ (R.op \in Writers /\ \E o \in DOMAIN pend : pend[o].r.op = "clear")]
  /\ l' = l + 1
  /\ UNCHANGED <<cfg, live, now, told, owed, devs>>

Nop(L, r, t) == {Out(L)}
Outcomes(L, r) ==
  CASE r.op = "rd" -> Read(L, r, now)
    [] r.op = "ins" -> Insert(L, r, now)
    [] r.op = "rem" -> Remove(L, r, now)
    [] r.op = "comp" -> Compute(L, r, now)
    [] r.op = "ent" -> EntryOp(L, r, now)
    [] r.op = "clear" -> Clear(L, r, now)
    [] r.op = "maint" -> Nop(L, r, now)
    [] OTHER -> {}

\* the operation takes effect, atomically, with the result it reported
Lin(o) ==
  /\ ~pend[o].lin /\ pend[o].r.done
  /\ \E out \in Outcomes(live, pend[o].r) :
       /\ live' = out.L
       /\ owed' = [must |-> owed.must \cup out.inv, may |-> owed.may \cup out.invopt]
       /\ devs' = devs \cup out.devs
  /\ pend' = [pend EXCEPT ![o].lin = TRUE]
  /\ UNCHANGED <<cfg, now, aux, l, told>>

\* Spontaneous forgetting (C11), announced by the i-th notification of the final record.
\* In these histories only explicit run_maintenance() calls evict or expire (the janitor is
\* configured out of the way), so a Forget lies inside a maintenance call.  The deviation
\* guards of CacheA: all maintenance passes of a scenario run at one instant of the frozen
\* clock, so the timer wheel is ahead of the clock from the first pass on (F15), and a timer
\* left armed by an earlier eviction / clear may belong to any key (FC2).
MaintRunning == \E o \in DOMAIN pend : pend[o].r.op = "maint"
NoteAux == [ahead |-> aux.maint /\ cfg.tick > 0, stale |-> 1..cfg.keys]
Forget(i) ==
  LET x == aux.fnotes[i] IN
  /\ i \notin told /\ x[4] # "Invalidated"
  /\ MaintRunning
  /\ B(NoteOK(live, x, now, NoteAux))
  /\ live' = ForgetAll(live, {x[1]})
  /\ told' = told \cup {i}
  /\ devs' = devs \cup NoteDevs(live, x, now, NoteAux)
  /\ UNCHANGED <<cfg, now, aux, l, pend, owed>>

LinStep ==
  /\ l <= N
  /\ \/ \E o \in DOMAIN pend : Lin(o)
     \/ \E i \in 1..Len(aux.fnotes) : Forget(i)

Ret ==
  /\ Is("ret")
  /\ R.o \in DOMAIN pend /\ pend[R.o].lin
  /\ pend' = Drop1(pend, R.o)
  /\ l' = l + 1
  /\ UNCHANGED <<cacheVars, told, owed, devs>>

\* Quiescence: every thread has finished, the notification queue is drained.
NoDup(s) == \A i, j \in 1..Len(s) : i # j => s[i] # s[j]
Final ==
  /\ Is("final")
  /\ pend = Empty
  /\ R.notes = aux.fnotes
  /\ B(NoDup(R.notes))                                                       \* C16: nothing notified twice
  /\ LET inv == {i \in 1..Len(R.notes) : R.notes[i][4] = "Invalidated"}
         invs == {R.notes[i] : i \in inv}
     IN
     /\ told = (1..Len(R.notes)) \ inv                                       \* C16: every notification is a forget that happened
     /\ B(owed.must \subseteq invs /\ invs \subseteq (owed.must \cup owed.may))  \* C16: removes are announced, and only they
  \* C13: reported cost = resident cost.  Known finding FC5: insert / entry / remove / the
  \* eviction passes update current_cost after releasing the shard lock, clear() stores 0 under
  \* all shard locks: an update that lands after the store belongs to an entry clear() already
  \* dropped (or subtracts from the fresh 0), and the counter stays off for good.
  /\ \/ R.cr = Resident(live) /\ UNCHANGED devs
     \/ R.cr # Resident(live) /\ Dev("FC5") /\ aux.clearOverlap /\ devs' = devs \cup {"FC5"}
  /\ B(ViewOK(live, R.view, now))                                            \* C11 / C12 on a peek of every key
  /\ l' = l + 1
  /\ UNCHANGED <<cacheVars, pend, told, owed>>

End ==
  /\ Is("end")
  /\ pend = Empty
  /\ \A x \in devs : PrintT(<<"DEV", x, cfg.hid>>)
  /\ l' = l + 1
  /\ UNCHANGED <<cacheVars, pend, told, owed, devs>>

Next == LinStep \/ New \/ Adv \/ Call \/ Ret \/ Final \/ End

Spec == Init /\ [][Next]_vars

Accepted ==
  IF TLCGet(1) = N + 1
    THEN TRUE
    ELSE /\ PrintT(<<"REJECT", TLCGet(1), ToJson(Rec[TLCGet(1)])>>)
         /\ FALSE
=============================================================================
