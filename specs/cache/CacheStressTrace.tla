------------------------- MODULE CacheStressTrace -------------------------
(***************************************************************************)
(* Trace validation of concurrent histories of the real cache (driver      *)
(* cache-stress: free-running threads on one unbounded cache without       *)
(* expiry) against Layer A (CacheA).                                        *)
(*                                                                         *)
(* `call` and `ret` records frame every operation in a global order.  An   *)
(* operation takes effect at one silent Lin step between its two records,  *)
(* where the Layer A outcome operator of the call (the same one the        *)
(* sequential histories are judged by) must admit the result the call      *)
(* reported (the driver copies the result into the `call` record so that   *)
(* the outcome operator can be evaluated at the linearization point).      *)
(* A history is accepted iff some choice of linearization points explains  *)
(* every record: per key the cache is an atomic register (C11), no compute *)
(* increment is lost (the counter n inside the value), or_insert inserts   *)
(* at most once, and nothing is ever missing (unbounded, no expiry: C12    *)
(* NoPrematureMiss).  The longest explained prefix is kept in TLC          *)
(* register 1 (-workers 1).                                                *)
(***************************************************************************)
EXTENDS CacheA, Json, IOUtils

Rec == ndJsonDeserialize(IOEnv.TRACE)
N == Len(Rec)

VARIABLES
  l,      \* next record to explain
  pend,   \* operations between call and ret: o -> [r: the call record, lin: taken effect]
  devs
vars == <<cacheVars, l, pend, devs>>

Max2(a, b) == IF a > b THEN a ELSE b
Track == TLCSet(1, Max2(TLCGet(1), l))

R == Rec[l]
Is(k) == l <= N /\ R.k = k

Empty == [x \in {} |-> 0]
Put(f, k, v) == [x \in DOMAIN f \cup {k} |-> IF x = k THEN v ELSE f[x]]
Drop1(f, k) == [x \in DOMAIN f \ {k} |-> f[x]]

Init ==
  /\ TLCSet(1, 0)
  /\ l = 1
  /\ cfg = [keys |-> 1, cap |-> 0, ttl |-> 0, tti |-> 0, grace |-> 0, tick |-> 0, policy |-> "", kf |-> {}]
  /\ live = [k \in 1..1 |-> NoE]
  /\ now = 0
  /\ aux = [ahead |-> FALSE, stale |-> {}]
  /\ pend = Empty
  /\ devs = {}

New ==
  /\ Is("new")
  /\ R.cap = 0 /\ R.ttl = 0 /\ R.tti = 0      \* this driver's caches never forget
  /\ cfg' = [keys |-> R.keys, cap |-> 0, ttl |-> 0, tti |-> 0, grace |-> 0, tick |-> 0, policy |-> R.policy, kf |-> SeqToSet(R.kf)]
  /\ live' = [k \in 1..R.keys |-> NoE]
  /\ now' = R.t
  /\ pend' = Empty /\ devs' = {}
  /\ l' = l + 1
  /\ UNCHANGED aux

Call ==
  /\ Is("call")
  /\ R.o \notin DOMAIN pend
  /\ pend' = Put(pend, R.o, [r |-> R, lin |-> FALSE])
  /\ l' = l + 1
  /\ UNCHANGED <<cacheVars, devs>>

Outcomes(L, r) ==
  CASE r.op = "rd" -> Read(L, r, now)
    [] r.op = "ins" -> Insert(L, r, now)
    [] r.op = "rem" -> Remove(L, r, now)
    [] r.op = "comp" -> Compute(L, r, now)
    [] r.op = "ent" -> EntryOp(L, r, now)
    [] OTHER -> {}

\* the operation takes effect, atomically, with the result it reported
Lin(o) ==
  /\ l <= N
  /\ ~pend[o].lin /\ pend[o].r.done
  /\ \E out \in Outcomes(live, pend[o].r) :
       /\ live' = out.L
       /\ devs' = devs \cup out.devs
  /\ pend' = [pend EXCEPT ![o].lin = TRUE]
  /\ UNCHANGED <<cfg, now, aux, l>>

Ret ==
  /\ Is("ret")
  /\ R.o \in DOMAIN pend /\ pend[R.o].lin
  /\ pend' = Drop1(pend, R.o)
  /\ l' = l + 1
  /\ UNCHANGED <<cacheVars, devs>>

End ==
  /\ Is("end")
  /\ pend = Empty
  /\ \A x \in devs : PrintT(<<"DEV", x, 0>>)
  /\ l' = l + 1
  /\ UNCHANGED <<cacheVars, pend, devs>>

Next == New \/ Call \/ Ret \/ End \/ \E o \in DOMAIN pend : Lin(o)

Spec == Init /\ [][Next]_vars

Accepted ==
  IF TLCGet(1) = N + 1
    THEN TRUE
    ELSE /\ PrintT(<<"REJECT", TLCGet(1), ToJson(Rec[TLCGet(1)])>>)
         /\ FALSE
=============================================================================
