SPECIFICATION Spec
CONSTRAINT TrackOk
POSTCONDITION Accepted
CHECK_DEADLOCK FALSE
