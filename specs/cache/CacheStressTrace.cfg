SPECIFICATION Spec
CONSTRAINT Track
INVARIANT TypeOK
POSTCONDITION Accepted
CHECK_DEADLOCK FALSE
