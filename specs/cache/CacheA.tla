------------------------------ MODULE CacheA ------------------------------
(***************************************************************************)
(* Layer A of the sharded cache: what a user of `Cache` / `AsyncCache`     *)
(* relies on (properties C11, C12, C13, C16, C17), written from the        *)
(* property statements.                                                    *)
(*                                                                         *)
(* Per key the cache is a register that may spontaneously forget.  The     *)
(* abstract state is the set of RESIDENT entries (an expired entry stays   *)
(* resident until something removes it: it is invisible to reads but still *)
(* counts for the cost accounting), the virtual time and the               *)
(* configuration.  Every observable outcome of an API call is described by *)
(* an operator  X(L, r, t)  that returns the SET of allowed outcomes       *)
(* [L: residency afterwards, inv: Invalidated notifications the call owes, *)
(* invopt: ones it may send, devs: known-finding deviations used] for the  *)
(* logged call r (arguments and results) at time t on residency L.  An     *)
(* empty set means "Layer A cannot explain this result".  MC_CacheA        *)
(* explores these operators exhaustively over a small alphabet, CacheTrace *)
(* evaluates them on histories of the real code.                           *)
(*                                                                         *)
(* Times are integers (milliseconds of the virtual clock).  A value is the *)
(* pair <<wid, n>>: wid = unique id of the insert / load that created it,  *)
(* n = number of successful compute steps applied since.  <<0,0>> = none.  *)
(***************************************************************************)
EXTENDS Integers, Sequences, FiniteSets, TLC, Functions

VARIABLES
  cfg,   \* [keys, cap (0 = unbounded), ttl, tti, grace, tick (0 = no timer wheel), policy, kf]
  live,  \* [1..cfg.keys -> entry]  resident entries, NoE = not resident
  now,   \* virtual time
  aux    \* bookkeeping for the guards of the deviation actions (known findings)
cacheVars == <<cfg, live, now, aux>>

NoE == [wid |-> 0, n |-> 0, cost |-> 0, exp |-> 0, lmin |-> 0, lmax |-> 0]
None == <<0, 0>>

Keys == 1..cfg.keys
Bounded == cfg.cap > 0
Dev(id) == id \in cfg.kf

Present(L, k) == L[k].wid # 0
ValOf(e) == <<e.wid, e.n>>

(* ---- expiry (C12) ---------------------------------------------------------- *)
\* exp: TTL deadline (0 = none).  The idle deadline counts from the last access that
\* refreshes; the statement fixes only that inserts refresh and peek does not, and that
\* the read APIs get / fetch / multiget / fetch_with-hit do.  For the remaining accesses
\* (iteration, snapshots, entry on an occupied key, compute) refreshing is left open, so
\* the last refreshing access is known as an interval [lmin, lmax].
CertExp(e, t) == \/ e.exp > 0 /\ t >= e.exp
                 \/ cfg.tti > 0 /\ t >= e.lmax + cfg.tti
PossExp(e, t) == \/ e.exp > 0 /\ t >= e.exp
                 \/ cfg.tti > 0 /\ t >= e.lmin + cfg.tti

NewEntry(w, c, ttl, t) ==
  [wid |-> w, n |-> 0, cost |-> c,
   exp |-> IF ttl > 0 THEN t + ttl ELSE IF cfg.ttl > 0 THEN t + cfg.ttl ELSE 0,
   lmin |-> IF cfg.tti > 0 THEN t ELSE 0, lmax |-> IF cfg.tti > 0 THEN t ELSE 0]

\* (the access times only matter with an idle timeout; they stay 0 without one)
Refresh(L, k, t) == IF cfg.tti > 0 THEN [L EXCEPT ![k].lmin = t, ![k].lmax = t] ELSE L
MayRefresh(L, k, t) == IF cfg.tti > 0 THEN [L EXCEPT ![k].lmax = t] ELSE L
MayRefreshAll(L, S, t) ==
  IF cfg.tti > 0 THEN [k \in DOMAIN L |-> IF k \in S THEN [L[k] EXCEPT !.lmax = t] ELSE L[k]] ELSE L

(* ---- reads (C11 ReadsLatest, C12 NoExpired / NoPrematureMiss) -------------- *)
\* A read may return the value of the resident entry, never at or after its expiry.
HitOK(L, k, res, t) == Present(L, k) /\ res = ValOf(L[k]) /\ ~CertExp(L[k], t)
\* A read may return nothing when the key is not resident or (possibly) expired.  A
\* bounded cache may forget at any time (C11), so there "nothing" is always explainable;
\* an unbounded cache must not report an unexpired entry missing (C12).
MissOK(L, k, t) == ~Present(L, k) \/ PossExp(L[k], t) \/ Bounded

Out(L) == [L |-> L, inv |-> {}, invopt |-> {}, devs |-> {}]
OutD(L, d) == [L |-> L, inv |-> {}, invopt |-> {}, devs |-> {d}]

Read(L, r, t) ==
  IF r.res = None
    THEN IF MissOK(L, r.key, t) THEN {Out(L)} ELSE {}
    ELSE IF HitOK(L, r.key, r.res, t)
           THEN {Out(IF r.api = "peek" THEN L ELSE Refresh(L, r.key, t))}
           ELSE {}

SeqToSet(s) == {s[i] : i \in 1..Len(s)}
KeysOf(items) == {items[i][1] : i \in 1..Len(items)}
Distinct(items) == Cardinality(KeysOf(items)) = Len(items)
ItemFor(items, k) == CHOOSE i \in 1..Len(items) : items[i][1] = k

MultiGet(L, r, t) ==
  LET asked == SeqToSet(r.keys)
      got == KeysOf(r.res)
  IN IF /\ Distinct(r.res) /\ got \subseteq asked
        /\ \A i \in 1..Len(r.res) : HitOK(L, r.res[i][1], <<r.res[i][2], r.res[i][3]>>, t)
        /\ \A k \in asked \ got : MissOK(L, k, t)
       THEN {Out(IF cfg.tti > 0 THEN [k \in DOMAIN L |-> IF k \in got THEN [L[k] EXCEPT !.lmin = t, !.lmax = t] ELSE L[k]] ELSE L)}
       ELSE {}

(* ---- writes ------------------------------------------------------------------ *)
Insert(L, r, t) == {Out([L EXCEPT ![r.key] = NewEntry(r.wid, r.cost, r.ttl, t)])}

RECURSIVE InsAll(_, _, _, _)
InsAll(L, items, i, t) ==
  IF i > Len(items) THEN L
  ELSE InsAll([L EXCEPT ![items[i][1]] = NewEntry(items[i][2], items[i][3], 0, t)], items, i + 1, t)
MultiInsert(L, r, t) == {Out(InsAll(L, r.items, 1, t))}

InvNote(L, k) == <<k, L[k].wid, L[k].n, "Invalidated">>

\* remove / invalidate: a resident entry is removed, handed back, and the listener is owed
\* an Invalidated notification (C16).  After the call completed the value must never be
\* read again (C11, no resurrection), so "not found" is only explainable when nothing was
\* resident -- or the resident entry was expired and the call dropped it: that is a removal,
\* so the listener is owed its notification (an entry the expiry cleanup collected earlier is
\* announced as Expired before the call and is not Present here).
Remove(L, r, t) ==
  LET k == r.key IN
  IF Present(L, k)
    THEN (IF r.hit /\ (r.api = "invalidate" \/ r.res = ValOf(L[k]))
            THEN {[L |-> [L EXCEPT ![k] = NoE], inv |-> {InvNote(L, k)}, invopt |-> {}, devs |-> {}]} ELSE {})
         \cup
         (IF ~r.hit /\ PossExp(L[k], t)
            THEN {[L |-> [L EXCEPT ![k] = NoE], inv |-> {InvNote(L, k)}, invopt |-> {}, devs |-> {}]} ELSE {})
    ELSE IF ~r.hit THEN {Out(L)} ELSE {}

MultiRemove(L, r, t) ==
  LET asked == SeqToSet(r.keys)
      there == {k \in asked : Present(L, k)}
  IN IF r.nores \/ (/\ Distinct(r.res) /\ KeysOf(r.res) = there
                    /\ \A i \in 1..Len(r.res) : <<r.res[i][2], r.res[i][3]>> = ValOf(L[r.res[i][1]]))
       THEN {[L |-> [k \in DOMAIN L |-> IF k \in there THEN NoE ELSE L[k]],
              inv |-> {InvNote(L, k) : k \in there}, invopt |-> {}, devs |-> {}]}
       ELSE {}

\* clear: nothing is resident afterwards.  The statement does not say whether cleared
\* entries are announced to the listener; truthful Invalidated notifications are accepted.
Clear(L, r, t) ==
  {[L |-> [k \in DOMAIN L |-> NoE], inv |-> {}, invopt |-> {InvNote(L, k) : k \in {x \in DOMAIN L : Present(L, x)}}, devs |-> {}]}

\* compute family: an atomic read-modify-write of the resident, unexpired value (an expired
\* entry is not there for compute either).  "fail" (somebody else holds a reference to the
\* value) has no effect.
Compute(L, r, t) ==
  LET k == r.key IN
  CASE r.res = "ok" ->
         IF Present(L, k) /\ (r.hasval => r.val = <<L[k].wid, L[k].n + 1>>) /\ ~CertExp(L[k], t)
           THEN {Out(MayRefresh([L EXCEPT ![k].n = @ + 1], k, t))}
           ELSE {}
    [] r.res = "nf" -> IF MissOK(L, k, t) THEN {Out(L)} ELSE {}
    [] r.res = "fail" -> {Out(L)}
    [] OTHER -> {}

\* entry(k).or_insert*(v): occupied -> the resident unexpired value, nothing inserted (and a
\* lazy default is not evaluated); vacant -> v is inserted and returned.
EntryOp(L, r, t) ==
  LET k == r.key IN
  (IF Present(L, k) /\ r.res = ValOf(L[k]) /\ (r.lazy => ~r.called) /\ ~CertExp(L[k], t)
     THEN {Out(MayRefresh(L, k, t))}
     ELSE {})
  \cup
  (IF MissOK(L, k, t) /\ r.res = <<r.wid, 0>> /\ (r.lazy => r.called)
     THEN {Out([L EXCEPT ![k] = NewEntry(r.wid, r.cost, 0, t)])}
     ELSE {})

\* fetch_with: hit -> like a read, the loader is not called; miss -> exactly one load of
\* this key whose result is returned and resident afterwards; stale-while-revalidate ->
\* inside [exp, exp + grace) the stale value may be served, and then a refresh of this key
\* runs whose result replaces it (`seen`: the driver saw the refreshed value arrive).
\* Whether an idle-expired entry may be served as stale inside the TTL grace window is
\* not fixed by the statement: left open.
LoadsOne(r) == Len(r.loads) = 1 /\ r.loads[1][1] = r.key
FetchWith(L, r, t) ==
  LET k == r.key
      loaded == [L EXCEPT ![k] = NewEntry(r.loads[1][2], r.loads[1][3], 0, t)]
  IN
  (IF r.loads = <<>> /\ HitOK(L, k, r.res, t) THEN {Out(Refresh(L, k, t))} ELSE {})
  \cup
  (IF /\ LoadsOne(r) /\ r.seen /\ cfg.grace > 0 /\ Present(L, k) /\ r.res = ValOf(L[k])
      /\ L[k].exp > 0 /\ t >= L[k].exp /\ t < L[k].exp + cfg.grace
     THEN {Out(loaded)} ELSE {})
  \cup
  (IF LoadsOne(r) /\ r.seen /\ MissOK(L, k, t) /\ r.res = <<r.loads[1][2], 0>>
     THEN {Out(loaded)} ELSE {})

(* ---- iteration and snapshots (C17) ------------------------------------------- *)
\* At quiescence an iteration that ran from time t0 to t yields every entry that is live
\* throughout exactly once with its current value, and nothing that was already expired
\* when it started.  (C17 does not inherit the "may forget" latitude of C11.)
Iterate(L, r, t) ==
  IF /\ Distinct(r.items)
     /\ \A i \in 1..Len(r.items) : HitOK(L, r.items[i][1], <<r.items[i][2], r.items[i][3]>>, r.t0)
     /\ \A k \in DOMAIN L : (Present(L, k) /\ ~PossExp(L[k], t)) => k \in KeysOf(r.items)
    THEN {Out(MayRefreshAll(L, KeysOf(r.items), t))}
    ELSE {}

\* snapshot entries are <<key, wid, n, cost, remaining ttl (-1 = none), sub-ms remainder>>
RemOK(e, rem, t) == e.exp > 0 => (rem >= 0 /\ rem <= e.exp - t)
SnapOK(L, entries, t) ==
  /\ Distinct(entries)
  /\ \A i \in 1..Len(entries) :
       LET x == entries[i] IN
       /\ HitOK(L, x[1], <<x[2], x[3]>>, t)
       /\ x[4] = L[x[1]].cost
       /\ RemOK(L[x[1]], x[5], t)
  /\ \A k \in DOMAIN L : (Present(L, k) /\ ~PossExp(L[k], t)) => k \in KeysOf(entries)

Snapshot(L, r, t) ==
  IF SnapOK(L, r.entries, t) /\ r.cap = cfg.cap
    THEN {Out(MayRefreshAll(L, KeysOf(r.entries), t))}
    ELSE {}

\* restore: the snapshot `entries` was taken at t - wait; `after` is the restored cache's own
\* snapshot at t.  Same mapping, same costs, remaining lifetimes no longer than the saved
\* ones.  (Idle time restarts at the restore: the statement speaks of lifetimes; whether the
\* idle clock survives a snapshot is left open.)
RestoredOK(entries, after) ==
  /\ Distinct(after) /\ KeysOf(after) = KeysOf(entries)
  /\ \A i \in 1..Len(after) :
       LET y == after[i]
           x == entries[ItemFor(entries, y[1])] IN
       /\ y[2] = x[2] /\ y[3] = x[3] /\ y[4] = x[4]
       /\ (x[5] >= 0 => (y[5] >= 0 /\ y[5] <= x[5]))
RestoredLive(L, after, t) ==
  [k \in DOMAIN L |->
     IF k \in KeysOf(after)
       THEN LET y == after[ItemFor(after, k)] IN
            [wid |-> y[2], n |-> y[3], cost |-> y[4], exp |-> IF y[5] >= 0 THEN t + y[5] ELSE 0,
             lmin |-> IF cfg.tti > 0 THEN t ELSE 0, lmax |-> IF cfg.tti > 0 THEN t ELSE 0]
       ELSE NoE]
Restore(L, r, t) ==
  IF SnapOK(L, r.entries, t - r.wait) /\ r.cap = cfg.cap /\ RestoredOK(r.entries, r.after)
    THEN {Out(RestoredLive(L, r.after, t))}
    ELSE {}

(* ---- spontaneous forgetting and its notifications (C11, C16) ------------------ *)
\* A notification <<k, wid, n, reason>> that is not the Invalidated of a remove must be a
\* forget of exactly the resident value; Capacity only in a bounded cache, Expired only at
\* or after that entry's expiry.  The entry is gone afterwards, so a second notification of
\* the same removal finds nothing resident (NotifyOnce).
\* Known finding F15: run_maintenance advances the TTL timer wheel one tick per call,
\* whatever the clock says; once more calls were made than ticks elapsed, entries scheduled
\* on the wheel are removed, and announced as Expired, before their deadline.
NoteStrict(L, x, t) ==
  /\ x[1] \in DOMAIN L /\ Present(L, x[1]) /\ x[2] = L[x[1]].wid /\ x[3] = L[x[1]].n
  /\ \/ x[4] = "Capacity" /\ Bounded
     \/ x[4] = "Expired" /\ PossExp(L[x[1]], t)
NoteF15(L, x, t, a) ==
  /\ Dev("F15") /\ a.ahead
  /\ x[1] \in DOMAIN L /\ Present(L, x[1]) /\ x[2] = L[x[1]].wid /\ x[3] = L[x[1]].n
  /\ x[4] = "Expired" /\ L[x[1]].exp > 0
\* Known finding FC2: clear(), capacity / admission eviction and a loader refresh take an
\* entry out of the map without cancelling its TTL timer (the wheel is keyed by the key's
\* hash).  When the key is written again, the stale timer later removes the NEW entry before
\* its deadline and announces it as Expired.  a.stale = keys that may own a stale timer.
NoteFC2(L, x, t, a) ==
  /\ Dev("FC2") /\ x[1] \in a.stale /\ cfg.tick > 0
  /\ x[1] \in DOMAIN L /\ Present(L, x[1]) /\ x[2] = L[x[1]].wid /\ x[3] = L[x[1]].n
  /\ x[4] = "Expired"
NoteOK(L, x, t, a) == NoteStrict(L, x, t) \/ NoteF15(L, x, t, a) \/ NoteFC2(L, x, t, a)
NoteDevs(L, x, t, a) == IF NoteStrict(L, x, t) THEN {} ELSE IF NoteF15(L, x, t, a) THEN {"F15"} ELSE {"FC2"}

ForgetAll(L, S) == [k \in DOMAIN L |-> IF k \in S THEN NoE ELSE L[k]]

(* ---- cost accounting and capacity (C13) ---------------------------------------- *)
Resident(L) == FoldFunction(LAMBDA e, acc : e.cost + acc, 0, L)

\* Once operations have quiesced the reported cost is the resident cost.
CostMatches(L, reported) == reported = Resident(L)
\* After maintenance has run at quiescence the resident cost is within the capacity.
CapacityOK(L) == Bounded => Resident(L) <= cfg.cap

\* what a peek of every key must look like
ViewOK(L, view, t) ==
  \A k \in DOMAIN L : IF view[k] = None THEN MissOK(L, k, t) ELSE HitOK(L, k, view[k], t)

TypeOK ==
  /\ now \in Nat
  /\ \A k \in DOMAIN live : live[k].wid \in Nat /\ live[k].cost \in Nat
=============================================================================
