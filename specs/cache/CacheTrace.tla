---------------------------- MODULE CacheTrace ----------------------------
(***************************************************************************)
(* Trace validation of histories recorded from the real cache             *)
(* (harness/cachex, driver cache-seq) against Layer A (CacheA).           *)
(*                                                                         *)
(* One ndjson record per line (env TRACE); a `new` record starts a fresh  *)
(* history.  The histories are sequential: every record is one completed  *)
(* API call with its arguments and results, followed by what the user     *)
(* could observe at that quiescent point: the notifications the eviction  *)
(* listener received (`notes`, the driver waits for the notifier queue to *)
(* drain), the reported current_cost (`cr`) and a peek of every key       *)
(* (`view`).  Spontaneous forgetting is visible through the notifications *)
(* (C16 completeness: the listener keeps up), so a record is explained by *)
(* choosing which forgets happened before and which after the call.       *)
(* The longest explained prefix is kept in TLC register 1 (-workers 1).   *)
(***************************************************************************)
EXTENDS CacheA, Json, IOUtils

Rec == ndJsonDeserialize(IOEnv.TRACE)
N == Len(Rec)

VARIABLES
  l,      \* next record to explain
  devs    \* deviation actions used (open known findings; only when cfg.kf enables them)
vars == <<cacheVars, l, devs>>

Max2(a, b) == IF a > b THEN a ELSE b
Track == TLCSet(1, Max2(TLCGet(1), l))

R == Rec[l]
Is(k) == l <= N /\ R.k = k

\* TLC splits a disjunction that it meets while computing successor states into separate
\* successors; state predicates are therefore wrapped so that they are evaluated as values.
B(x) == (x = TRUE)

\* bookkeeping for the guards of the deviation actions (it never influences a strict verdict)
\*   lastMaint, ahead   F15: two maintenance passes (or the creation of the cache and a pass)
\*            less than a wheel tick apart put the TTL timer wheel ahead of the clock
\*   stale    keys that may own a TTL timer that was not cancelled (FC2)
\*   unknown  keys whose resident entry was never announced to the eviction policy (F21)
\*   wsm, lossy  writes since the last maintenance pass; more than the 512 slots of a shard's
\*            event buffer means write events were dropped (F16)
Aux0(t) == [lastMaint |-> t, ahead |-> FALSE, stale |-> {}, unknown |-> {}, wsm |-> 0, lossy |-> FALSE]
Cfg0 == [hid |-> 0, shards |-> 1, keys |-> 1, cap |-> 0, ttl |-> 0, tti |-> 0, grace |-> 0, tick |-> 0, policy |-> "", kf |-> {}]

Init ==
  /\ TLCSet(1, 0)
  /\ l = 1
  /\ cfg = Cfg0
  /\ live = [k \in 1..1 |-> NoE]
  /\ now = 0
  /\ aux = Aux0(0)
  /\ devs = {}

New ==
  /\ Is("new")
  /\ cfg' = [hid |-> R.hid, shards |-> R.shards, keys |-> R.keys, cap |-> R.cap, ttl |-> R.ttl, tti |-> R.tti, grace |-> R.grace,
             tick |-> IF R.ttl > 0 \/ R.tti > 0 THEN R.tick ELSE 0, policy |-> R.policy, kf |-> SeqToSet(R.kf)]
  /\ live' = [k \in 1..R.keys |-> NoE]
  /\ now' = R.t
  /\ aux' = Aux0(R.t)
  /\ devs' = {}
  /\ l' = l + 1

(* ---- notifications ----------------------------------------------------------- *)
NoDup(s) == \A i, j \in 1..Len(s) : i # j => s[i] # s[j]
InvIdx(r) == {i \in 1..Len(r.notes) : r.notes[i][4] = "Invalidated"}
SpIdx(r) == (1..Len(r.notes)) \ InvIdx(r)
NoteKeys(S) == {x[1] : x \in S}
OneEach(S) == Cardinality(NoteKeys(S)) = Cardinality(S)
DevsOf(L, S, t, a) == UNION {NoteDevs(L, x, t, a) : x \in S}

(* ---- deviation bookkeeping ----------------------------------------------------- *)
Same(a) == a
Maintained(a) == [a EXCEPT !.ahead = @ \/ (cfg.tick > 0 /\ R.t - a.lastMaint < cfg.tick), !.lastMaint = R.t, !.wsm = 0]
Fresh(a) == Aux0(R.t)

Writes(r) == CASE r.k \in {"ins", "ent"} -> 1
               [] r.k = "mins" -> Len(r.items)
               [] r.k = "fw" -> Len(r.loads)
               [] OTHER -> 0
\* keys whose TTL timer may have been left armed by this record: the entry had a deadline
\* and was taken out by a Capacity eviction, by clear(), or replaced by a loader
Timed(L, k) == Present(L, k) /\ L[k].exp > 0
StaleAdd(r, L0, pre, L1, Lo, post) ==
  {x[1] : x \in {y \in pre : y[4] = "Capacity" /\ Timed(L0, y[1])}}
  \cup {x[1] : x \in {y \in post : y[4] = "Capacity" /\ Timed(Lo, y[1])}}
  \cup (IF r.k = "clear" THEN {k \in DOMAIN L1 : Timed(L1, k)} ELSE {})
  \cup (IF r.k = "fw" THEN (IF r.loads # <<>> /\ Timed(L1, r.key) THEN {r.key} ELSE {}) ELSE {})
\* a1: aux after the kind-specific update; L0: residency before the record; L2: after it
Book(a1, r, L0, pre, L1, Lo, post, L2) ==
  LET w == a1.wsm + Writes(r) IN
  [a1 EXCEPT
     !.stale = IF r.k = "restore" THEN {} ELSE @ \cup StaleAdd(r, L0, pre, L1, Lo, post),
     !.unknown = IF r.k = "restore" THEN KeysOf(r.after)
                 ELSE {k \in @ : Present(L2, k) /\ L2[k].wid = L0[k].wid},
     !.wsm = w,
     !.lossy = @ \/ w > 512]

(* ---- one completed call --------------------------------------------------------- *)
\* Op(L, r, t) is the Layer A outcome set of the call.  Forgets announced in `notes` are
\* split into those before the call (pre) and those after it (post).  Only for the keys the
\* call itself touches does the order matter; every other forget is taken as "before".
OpKeys(r) ==
  CASE r.k \in {"ins", "rem", "comp", "ent", "rd", "fw"} -> {r.key}
    [] r.k = "mins" -> KeysOf(r.items)
    [] r.k \in {"mrem", "mget"} -> SeqToSet(r.keys)
    [] r.k = "it" -> KeysOf(r.items)
    [] r.k = "snap" -> KeysOf(r.entries)
    [] r.k = "restore" -> KeysOf(r.after)
    [] OTHER -> {}
Choosable(r) == {i \in SpIdx(r) : r.notes[i][1] \in OpKeys(r)}
Apply(r, Op(_, _, _), AuxUpd(_), Post(_, _)) ==
  /\ r.t >= now
  /\ B(NoDup(r.notes))
  /\ \E Q \in SUBSET Choosable(r) :
       LET P == (SpIdx(r) \ Choosable(r)) \cup Q IN
       LET pre == {r.notes[i] : i \in P}
           post == {r.notes[i] : i \in SpIdx(r) \ P}
           invs == {r.notes[i] : i \in InvIdx(r)}
           a1 == AuxUpd(aux)
       IN
       /\ B(OneEach(pre) /\ OneEach(post))
       /\ B(\A x \in pre : NoteOK(live, x, r.t, a1))
       /\ LET L1 == ForgetAll(live, NoteKeys(pre)) IN
          \E o \in Op(L1, r, r.t) :
            /\ B(o.inv \subseteq invs /\ invs \subseteq (o.inv \cup o.invopt))
            /\ B(\A x \in post : NoteOK(o.L, x, r.t, a1))
            /\ LET L2 == ForgetAll(o.L, NoteKeys(post))
                   a2 == Book(a1, r, live, pre, L1, o.L, post, L2)
                   dv == devs \cup o.devs \cup DevsOf(live, pre, r.t, a1) \cup DevsOf(o.L, post, r.t, a1) \cup Post(L2, a2).devs
               IN
               /\ B(Post(L2, a2).ok)
               /\ B(("view" \in DOMAIN r) => ViewOK(L2, r.view, r.t))
               \* C13 CostMatchesResidency: at this quiescent point the reported cost is the resident cost
               /\ r.cr = Resident(L2)
               /\ aux' = a2
               /\ devs' = dv
               /\ live' = L2
  /\ now' = r.t
  /\ l' = l + 1
  /\ UNCHANGED cfg

Nop(L, r, t) == {Out(L)}
NoPost(L, a) == [ok |-> TRUE, devs |-> {}]

Ins == Is("ins") /\ Apply(R, Insert, Same, NoPost)
MIns == Is("mins") /\ Apply(R, MultiInsert, Same, NoPost)
Rem == Is("rem") /\ Apply(R, Remove, Same, NoPost)
MRem == Is("mrem") /\ Apply(R, MultiRemove, Same, NoPost)
Clr == Is("clear") /\ Apply(R, Clear, Same, NoPost)
Comp == Is("comp") /\ Apply(R, Compute, Same, NoPost)
Ent == Is("ent") /\ Apply(R, EntryOp, Same, NoPost)
Rd == Is("rd") /\ Apply(R, Read, Same, NoPost)
MGet == Is("mget") /\ Apply(R, MultiGet, Same, NoPost)
FW == Is("fw") /\ Apply(R, FetchWith, Same, NoPost)
It == Is("it") /\ Apply(R, Iterate, Same, NoPost)
Snap == Is("snap") /\ Apply(R, Snapshot, Same, NoPost)
Adv == Is("adv") /\ Apply(R, Nop, Same, NoPost)
Restore1 == Is("restore") /\ Apply(R, Restore, Fresh, NoPost)

\* run_maintenance: no effect of its own; whatever it removed is in the notifications.
Maint == Is("maint") /\ Apply(R, Nop, Maintained, NoPost)

\* Quiescence after maintenance was repeated until nothing changed: C13 CapacityAtQuiescence.
\* Known findings that leave the cache over capacity for good:
\*   FC3  the ARC policy (root cause F19) silently stops tracking resident keys, they are never nominated;
\*   F21  entries restored from a snapshot are never announced to the policy;
\*   F16  write events beyond the 512 slots of a shard's event buffer are dropped, the
\*        policy never learns those keys.
CapDevs(L, a) ==
  (IF Dev("FC3") /\ cfg.policy = "arc" THEN {"FC3"} ELSE {})
  \cup (IF Dev("F21") /\ \E k \in a.unknown : Present(L, k) THEN {"F21"} ELSE {})
  \cup (IF Dev("F16") /\ a.lossy THEN {"F16"} ELSE {})
CapPost(L, a) == [ok |-> CapacityOK(L) \/ CapDevs(L, a) # {}, devs |-> IF CapacityOK(L) THEN {} ELSE CapDevs(L, a)]
Quiet ==
  /\ Is("quiet")
  /\ R.stable
  /\ Apply(R, Nop, Same, CapPost)

End ==
  /\ Is("end")
  /\ Apply(R, Nop, Same, NoPost)
  /\ \A x \in devs' : PrintT(<<"DEV", x, cfg.hid>>)

Next ==
  \/ New \/ Ins \/ MIns \/ Rem \/ MRem \/ Clr \/ Comp \/ Ent \/ Rd \/ MGet \/ FW \/ It \/ Snap \/ Adv
  \/ Maint \/ Quiet \/ Restore1 \/ End

Spec == Init /\ [][Next]_vars

Accepted ==
  IF TLCGet(1) = N + 1
    THEN TRUE
    ELSE /\ PrintT(<<"REJECT", TLCGet(1), ToJson(Rec[TLCGet(1)])>>)
         /\ FALSE
=============================================================================
