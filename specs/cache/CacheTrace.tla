---------------------------- MODULE CacheTrace ----------------------------
(***************************************************************************)
(* Trace validation of histories recorded from the real cache             *)
(* (harness/cachex, driver cache-seq) against Layer A (CacheA).           *)
(*                                                                         *)
(* One ndjson record per line (env TRACE); a `new` record starts a fresh  *)
(* history.  The histories are sequential: every record is one completed  *)
(* API call with its arguments and results, followed by what the user     *)
(* could observe at that quiescent point: the notifications the eviction  *)
(* listener received (`notes`, the driver waits for the notifier queue to *)
(* drain), the reported current_cost (`cr`) and a peek of every key       *)
(* (`view`).  Spontaneous forgetting is visible through the notifications *)
(* (C16 completeness: the listener keeps up), so a record is explained by *)
(* choosing which forgets happened before and which after the call.       *)
(* The longest explained prefix is kept in TLC register 1 (-workers 1).   *)
(***************************************************************************)
EXTENDS CacheA, Json, IOUtils

Rec == ndJsonDeserialize(IOEnv.TRACE)
N == Len(Rec)

VARIABLES
  l,      \* next record to explain
  devs    \* deviation actions used (open known findings; only when cfg.kf enables them)
vars == <<cacheVars, l, devs>>

Max2(a, b) == IF a > b THEN a ELSE b
Track == TLCSet(1, Max2(TLCGet(1), l))

R == Rec[l]
Is(k) == l <= N /\ R.k = k

Aux0(t) == [drift |-> 0, lastMaint |-> t, ahead |-> FALSE, unknown |-> {}, phantom |-> FALSE]
Cfg0 == [keys |-> 1, cap |-> 0, ttl |-> 0, tti |-> 0, grace |-> 0, tick |-> 0, kf |-> {}]

Init ==
  /\ TLCSet(1, 0)
  /\ l = 1
  /\ cfg = Cfg0
  /\ live = [k \in 1..1 |-> NoE]
  /\ now = 0
  /\ aux = Aux0(0)
  /\ devs = {}

New ==
  /\ Is("new")
  /\ cfg' = [keys |-> R.keys, cap |-> R.cap, ttl |-> R.ttl, tti |-> R.tti, grace |-> R.grace,
             tick |-> IF R.ttl > 0 \/ R.tti > 0 THEN R.tick ELSE 0, kf |-> SeqToSet(R.kf)]
  /\ live' = [k \in 1..R.keys |-> NoE]
  /\ now' = R.t
  /\ aux' = Aux0(R.t)
  /\ devs' = {}
  /\ l' = l + 1

(* ---- notifications ----------------------------------------------------------- *)
NoDup(s) == \A i, j \in 1..Len(s) : i # j => s[i] # s[j]
InvIdx(r) == {i \in 1..Len(r.notes) : r.notes[i][4] = "Invalidated"}
SpIdx(r) == (1..Len(r.notes)) \ InvIdx(r)
NoteKeys(S) == {x[1] : x \in S}
OneEach(S) == Cardinality(NoteKeys(S)) = Cardinality(S)
DevsOf(L, S, t) == UNION {NoteDevs(L, x, t) : x \in S}

(* ---- reported cost (C13 CostMatchesResidency) ---------------------------------- *)
\* Known finding F17: the capacity pass subtracts the policy's recorded cost of every
\* nominated victim, resident or not (a key removed / cleared / overwritten before the
\* policy learnt about it is still nominated later), so the reported cost drifts away from
\* the resident cost -- below it, even below zero.  The drift persists until clear().
\* Only a pass that can evict for capacity can create it.
CanEvict(r) == r.k \in {"maint", "ins", "mins", "it", "snap", "restore", "quiet", "end", "rd", "adv", "fw", "ent", "comp", "rem", "mrem", "mget", "clear"}
CostStrict(L, r) == r.cr = Resident(L) + aux.drift
CostDev(L, r) == Dev("F17") /\ Bounded /\ CanEvict(r) /\ r.cr < Resident(L) + aux.drift

(* ---- one completed call --------------------------------------------------------- *)
\* Op(L, r, t) is the Layer A outcome set of the call.  Forgets announced in `notes` are
\* split into those before the call (pre) and those after it (post).
Apply(r, Op(_, _, _), resetDrift) ==
  /\ r.t >= now
  /\ NoDup(r.notes)
  /\ \E P \in SUBSET SpIdx(r) :
       LET pre == {r.notes[i] : i \in P}
           post == {r.notes[i] : i \in SpIdx(r) \ P}
           invs == {r.notes[i] : i \in InvIdx(r)}
       IN
       /\ OneEach(pre) /\ OneEach(post)
       /\ \A x \in pre : NoteOK(live, x, r.t)
       /\ LET L1 == ForgetAll(live, NoteKeys(pre)) IN
          \E o \in Op(L1, r, r.t) :
            /\ o.inv \subseteq invs /\ invs \subseteq (o.inv \cup o.invopt)
            /\ \A x \in post : NoteOK(o.L, x, r.t)
            /\ LET L2 == ForgetAll(o.L, NoteKeys(post))
                   a1 == IF resetDrift THEN [aux EXCEPT !.drift = 0] ELSE aux
               IN
               /\ ("view" \in DOMAIN r) => ViewOK(L2, r.view, r.t)
               /\ \/ /\ r.cr = Resident(L2) + a1.drift
                     /\ aux' = a1
                     /\ devs' = devs \cup o.devs \cup DevsOf(live, pre, r.t) \cup DevsOf(o.L, post, r.t)
                  \/ /\ ~resetDrift /\ CostDev(L2, r)
                     /\ aux' = [a1 EXCEPT !.drift = r.cr - Resident(L2)]
                     /\ devs' = devs \cup o.devs \cup DevsOf(live, pre, r.t) \cup DevsOf(o.L, post, r.t) \cup {"F17"}
               /\ live' = L2
  /\ now' = r.t
  /\ l' = l + 1
  /\ UNCHANGED cfg

Nop(L, r, t) == {Out(L)}

Ins == Is("ins") /\ Apply(R, Insert, FALSE)
MIns == Is("mins") /\ Apply(R, MultiInsert, FALSE)
Rem == Is("rem") /\ Apply(R, Remove, FALSE)
MRem == Is("mrem") /\ Apply(R, MultiRemove, FALSE)
\* clear() also resets the reported cost, which ends any accumulated drift
Clr == Is("clear") /\ Apply(R, Clear, TRUE)
Comp == Is("comp") /\ Apply(R, Compute, FALSE)
Ent == Is("ent") /\ Apply(R, EntryOp, FALSE)
Rd == Is("rd") /\ Apply(R, Read, FALSE)
MGet == Is("mget") /\ Apply(R, MultiGet, FALSE)
FW == Is("fw") /\ Apply(R, FetchWith, FALSE)
It == Is("it") /\ Apply(R, Iterate, FALSE)
Snap == Is("snap") /\ Apply(R, Snapshot, FALSE)
Adv == Is("adv") /\ Apply(R, Nop, FALSE)

\* run_maintenance: no effect of its own; whatever it removed is in the notifications.
\* (bookkeeping for F15: two maintenance passes less than a wheel tick apart put the timer
\* wheel ahead of the clock)
Maint ==
  /\ Is("maint")
  /\ Apply(R, Nop, FALSE)

\* Quiescence after maintenance was repeated until nothing changed (C13 CapacityAtQuiescence).
Quiet ==
  /\ Is("quiet")
  /\ R.stable
  /\ Apply(R, Nop, FALSE)
  /\ CapacityOK(live')

Restore1 ==
  /\ Is("restore")
  /\ Apply(R, Restore, TRUE)

End ==
  /\ Is("end")
  /\ Apply(R, Nop, FALSE)
  /\ \A d \in devs' : PrintT(<<"DEV", d>>)

Next ==
  \/ New \/ Ins \/ MIns \/ Rem \/ MRem \/ Clr \/ Comp \/ Ent \/ Rd \/ MGet \/ FW \/ It \/ Snap \/ Adv
  \/ Maint \/ Quiet \/ Restore1 \/ End

Spec == Init /\ [][Next]_vars

Accepted ==
  IF TLCGet(1) = N + 1
    THEN TRUE
    ELSE /\ PrintT(<<"REJECT", TLCGet(1), ToJson(Rec[TLCGet(1)])>>)
         /\ FALSE
=============================================================================
