SPECIFICATION Spec
CONSTANTS
  NKeys = 2
  Cap = 0
  Ttl = 0
  Tti = 2
  Grace = 0
  MaxT = 3
  MaxW = 2
  MaxN = 1
INVARIANT Inv
CHECK_DEADLOCK FALSE
