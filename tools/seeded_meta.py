#!/usr/bin/env python3
"""Fills seeded/<id>/meta.json (property, what it needs to manifest, what was run, result) and writes seeded/RESULTS.md.
Results are read from seeded/results.json (id -> {"check": "C05", "verdict": "detected|missed", "by": "...", "note": "..."}),
which is maintained by hand from the logs of mutate.sh runs (the commands are listed in each meta.json)."""
import json, os, glob

NEEDS = {
 "C01_m1": "mpsc bounded, blocking send_batch, two producers racing claim_run at the edge of a nearly full window",
 "C01_m2": "rendezvous recv_timeout whose timeout fires while a sender commits the hand-off under the lock",
 "C01_m3": "rendezvous async recv re-polled without a wake while a sender commits the hand-off between the state load and the lock",
 "C02_m1": "fibre::mpmc_exp async send_batch_mut that parks mid-batch (batch larger than the free space)",
 "C02_m2": "mpmc unbounded async: Stream returned Pending, two items sent, then a non-stream receive on the same handle",
 "C02_m3": "spmc ring full for the slowest reader, producer actively sending while that reader is inside T::clone",
 "C03_m1": "mpmc bounded, non-power-of-two capacity, more parked receivers than capacity, cap+1 sends before they drain",
 "C03_m2": "mpsc bounded: channel was full, partially drained without the consumer going idle, two try_send race for the last slot (cold path)",
 "C03_m3": "oneshot: a second sender loads the state while the first one is WRITING",
 "C04_m1": "spmc batch receive: last sender publishes and leaves between the receiver's head load and its producer_dropped load",
 "C04_m2": "mpmc bounded sync Sender: close() a sender, clone the closed handle, later drop all senders",
 "C04_m3": "topic recv_timeout parked on an empty mailbox while the last sender publishes and leaves",
 "C05_m1": "mpsc bounded: producer overshoots its ticket, is delayed before the SKIP store while the consumer spins, registers and parks on that slot",
 "C05_m2": "spsc bounded blocking send_batch on a full ring while the receiver closes between registration and park",
 "C05_m3": "mpmc bounded: two senders parked, a non-last receiver handle dropped, two receives before the signalled sender runs, then no more receives",
 "C06_m1": "spsc bounded async receive re-polled with a new waker while its is_registered flag is set",
 "C06_m2": "mpmc bounded: sync Sender close/drop with async receivers pending",
 "C06_m3": "mpmc unbounded async, two receiver handles: pending recv future of A dropped, B pending behind it, one send",
 "C07_m1": "spmc: receiver parked / pending on an empty ring when the sync sender is dropped (re-check between wake and the late flag store)",
 "C07_m2": "spmc batch receive by the slowest reader of a full ring while an awake sender wraps onto the slots being cloned",
 "C07_m3": "spmc async send pending with two receivers: woken by the fast receiver while the ring is still full, then the slow receiver reads or leaves",
 "C08_m1": "topic: R unsubscribes from T, another receiver then changes T's subscriber list, then T is published",
 "C08_m2": "topic async: publish to T while subscribed, unsubscribe(T) before draining the mailbox, then receive",
 "C08_m3": "topic async recv future dropped while pending with waker A, receiver awaited again with waker B, then publish / last sender drop",
 "C09_m1": "mpmc bounded ring dropped with a wrapped-around segment of buffered values",
 "C09_m2": "spsc bounded, non-power-of-two capacity, ring dropped with buffered values",
 "C09_m3": "mpsc bounded Receiver::to_async, then the channel is dropped with buffered values",
 "C10_m1": "HybridRwLock write future woken and then dropped unpolled while others wait",
 "C10_m2": "HybridMutex async waiter re-polled with a new waker while still linked",
 "C10_m3": "HybridRwLock reader fast path racing a writer between its check and its fetch_add",
 "C11_m1": "two overlapping Cache::entry(k) calls on the same key through the sync handle",
 "C11_m2": "clear() while every resident entry has cost 0",
 "C11_m3": "async loader task suspended on the shard lock after completing the load future; caller removes / overwrites the key",
 "C12_m1": "TTI cache, entry with a TTL, read after the idle deadline but before the TTL deadline",
 "C12_m2": "stale_while_revalidate, sync fetch_with exactly at (or < 1 ms after) the end of the grace window",
 "C12_m3": "TTI cache, idle-expired uncollected entry at to_snapshot, then restore",
 "C13_m1": "TinyLFU, two or more admission rejections drained in one maintenance pass",
 "C13_m2": "loader insert landing on a still resident key (expired uncollected entry, stale refresh, racing insert)",
 "C13_m3": "ARC policy, one item larger than the capacity under an untracked key",
 "C14_m1": "SLRU: admit(k,c1), access(k) (promoted), admit(k,c2), evict reaching k",
 "C14_m2": "LRU: on_access of an untracked key, then an evict large enough to reach it",
 "C14_m3": "TinyLFU: main and window non-empty, evict request larger than the cost held in main",
 "C15_m1": "async loader: shard write lock busy between complete() and the insert; caller invalidates right after return",
 "C15_m2": "sync loader: another caller holds the same pending-load stripe when a load finishes, then invalidation and a miss",
 "C15_m3": "stale-while-revalidate: second stale hit during a refresh, then a real miss before the refresh finishes",
 "C16_m1": "TinyLFU, two or more evicting admissions drained in one maintenance pass",
 "C16_m2": "remove / invalidate of an expired, not yet collected entry (TTL or TTI)",
 "C16_m3": "TTI cache: user remove / overwrite of the key between the janitor's scan and its write lock",
 "C17_m1": "TTI cache (sync), idle-expired uncollected entries at to_snapshot",
 "C17_m2": "snapshot with an entry without TTL through a positional serde format (bincode)",
 "C17_m3": "async stream: shard larger than the room left in the batch with an expired resident entry in the scanned chunk",
 "C18_m1": "a thread resolves a registered key while another registers a key in the same DashMap shard",
 "C18_m2": "LocalContainer (feature local): trait-object key re-registered after it was resolved",
 "C18_m3": "dependency cycle made of transient registrations only",
 "C19_m1": "non-additive logger whose name is a plain string prefix (no :: boundary) of the event target",
 "C19_m2": "appender wired to root at a permissive level and to a stricter named logger",
 "C19_m3": "overflow: block, two or more emitting threads, queue near full",
 "C20_m1": "padded pattern directive whose content is non-ASCII with fewer characters than the width but more bytes",
 "C20_m2": "JSON encoder: any character at or above U+10000 in message, target or fields",
 "C20_m3": "rolling file with max_retained_sequences and at least 10 rolls inside one period",
}

root = "/verif/seeded"
res = json.load(open(os.path.join(root, "results.json"))) if os.path.exists(os.path.join(root, "results.json")) else {}
rows = []
for d in sorted(glob.glob(root + "/C??_m?")):
    mid = os.path.basename(d)
    mp = os.path.join(d, "meta.json")
    meta = json.load(open(mp)) if os.path.exists(mp) else {}
    meta["id"] = mid
    meta["property"] = mid[:3]
    meta["breaks"] = mid[:3]
    meta["needs_to_manifest"] = NEEDS.get(mid, "")
    r = res.get(mid, {})
    meta["ran"] = {
        "confirmation": "confirm_mutant.sh <dir> <crate> --suite in a scratch worktree: demo fails with the patch, passes without; the crate's suite with the patch",
        "check": "mutate.sh seeded/%s/patch.diff %s  (scratch worktree of /repo HEAD + patch, harness rebuilt against it, ./check %s --tier quick)" % (mid, r.get("check", mid[:3]), r.get("check", mid[:3])),
    }
    if r:
        meta["result"] = r
    json.dump(meta, open(mp, "w"), indent=1)
    rows.append((mid, meta.get("needs_to_manifest", ""), r.get("check", ""), r.get("verdict", "not run"), r.get("by", ""), r.get("note", "")))

with open(os.path.join(root, "RESULTS.md"), "w") as f:
    f.write("# Seeded changes and what catches them\n\n")
    f.write("Each change was produced by a fresh sub-agent that saw only the property text and a scratch worktree; it compiles, the crate's\n"
            "suite passes with it, and its demonstration fails with it / passes without (confirmed in a scratch worktree, see meta.json).\n"
            "`verdict` is what `./check <property> --tier quick` (seed 1) reported with the change applied.\n\n")
    det = sum(1 for r in rows if r[3] == "detected")
    f.write("%d changes, %d detected by the quick check of their property, %d missed.\n\n" % (len(rows), det, sum(1 for r in rows if r[3] == "missed")))
    f.write("| id | needs | check | verdict | caught by | note |\n|---|---|---|---|---|---|\n")
    for r in rows:
        f.write("| %s | %s | %s | %s | %s | %s |\n" % r)
print(len(rows), "entries")
