#!/usr/bin/env python3
"""Regenerates /verif/MANIFEST.json from the table below (claimed properties) and properties.jsonl."""
import json, os, sys
ROOT = os.path.dirname(os.path.dirname(os.path.abspath(__file__)))
props = [json.loads(l) for l in open(os.path.join(ROOT, "properties.jsonl"))]
TV = "TLA+ Layer A spec + TLC exhaustive check of the spec + TLC trace validation of histories recorded from the real code"
CLAIMED = {
 "C01": ("chan", "random sequential programs over all 17 point-to-point flavours and the broadcast ring (single / batch / in-place / timed / sync / async / conversions), scheduler-controlled multi-thread scenarios (sampled random / PCT schedules and systematically enumerated PCT schedule spaces of small scenarios); every history validated by TLC against ChanA (conservation of value ids, failed operations hand the value back); Layer P protocol models (MpscBoundedP, MpmcWaitP, OneshotP, RendezvousP) checked exhaustively", "sequential"),
 "C02": ("chan", "as C01 with long programs forcing ring wrap / chunk reuse / slab recycling; FIFO is the queue discipline of ChanA (FifoInv in the model check)", ""),
 "C03": ("chan", "bounded flavours: every try_send result, len() observation and blocked send must be explained by an occupancy that never exceeds capacity; exact Full without overlap", ""),
 "C04": ("chan", "close / clone / convert / drop-heavy programs and 'leave' scenarios on the point-to-point flavours, the broadcast ring and the topic channel (sequential and threaded): drain-then-Disconnected, Closed hands the value back, closed handles reject, second close = CloseError", ""),
 "C05": ("chan", "multi-thread scenarios under a cooperative scheduler that owns the interleaving at every instrumented atomic / lock / park (seeded random + PCT, spurious weak-CAS failures, firing timeouts) and the systematically enumerated PCT schedule space (all priority orders x all sets of up to three change points) of small contended scenarios; a thread found parked at quiescence must be disabled in Layer A; Layer P model of the bounded mpsc claim / wake protocol checked for deadlock freedom", ""),
 "C06": ("chan", "futures created / polled / re-polled with another waker / dropped in every order by one task, NoStall obligation at every quiescent point, plus park-based block_on under the scheduler", ""),
 "C07": ("chan", "broadcast kind of ChanA (per-receiver cursors, back-pressure by the slowest live receiver, clone starts at the parent's cursor); sequential and scheduled histories", ""),
 "C08": ("topic", "TopicA (mailboxes, subscriptions at publish time, only full mailboxes drop, Disconnected iff drained and no sender) + sequential sync/async histories + threaded histories (receivers parked in blocking receives while senders publish and leave)", ""),
 "C09": ("chan", "payloads with observable Drop; every library-side drop is attributed to the API action it happened in and must be explainable (unsent value of a payload-less failure, or buffered value nobody can receive), never twice; nothing left at the end", ""),
 "C10": ("lock", "LockA (mutual exclusion, try_ exact without overlap, no waiter blocked while the lock is free for it, cancel-safe futures) + sequential future-level and scheduler-controlled thread histories of HybridMutex / HybridRwLock", ""),
 "C14": ("policy", "PolicyA contract + exact LRU / FIFO orders; TLC enumerates every call sequence up to renaming (spec -> code) replayed on all built-in policies, and validates recorded random histories (code -> spec)", ""),
 "C15": ("loader", "LoaderA (one load per miss, callers return a loaded value, no orphan waiter) + fetch_with scenarios under the scheduler: thread-based loader (loader threads adopted) and async loader on an AsyncCache (tasks on scheduler-managed threads)", ""),
}
# areas delivered by the sub-agents register themselves here when their recipe file exists
OPTIONAL = {
 "C11": ("cache", "props_cache.py", "CacheA register-with-forgetting: reads return only the latest live value of their key; compute / entry atomic"),
 "C12": ("cache", "props_cache.py", "CacheA with a virtual clock: no read path serves an entry at or after its expiry; stale only inside the grace window"),
 "C13": ("cache", "props_cache.py", "capacity after maintenance at quiescence; reported cost equals resident cost"),
 "C16": ("cache", "props_cache.py", "listener notifications truthful, at most once, complete when the listener keeps up"),
 "C17": ("cache", "props_cache.py", "iteration / snapshot enumerate exactly the live entries; restore is equivalent"),
 "C18": ("ioc", "props_ioc.py", "IocA: singletons once and shared, transients fresh, keys isolated, latest registration wins, cycle = panic"),
 "C19": ("log", "props_log.py", "RouteA Deliver operator vs the real router for every small logger tree; PipeA pipeline with shutdown"),
 "C20": ("log", "props_log.py", "RollerA behaviours replayed on the rolling file appender; encoder input classes enumerated"),
}
# areas whose builder has reported its quick recipe green on the unchanged tree
READY_AREAS = set(open(os.path.join(ROOT, "tools", "ready_areas.txt")).read().split())
for pid, (area, f, text) in OPTIONAL.items():
    if area in READY_AREAS and os.path.exists(os.path.join(ROOT, "vlib", f)):
        CLAIMED[pid] = (area, text, "")
checks = []
for p in props:
    pid = p["id"]
    if pid not in CLAIMED:
        continue
    area, text, _ = CLAIMED[pid]
    checks.append({
        "property_id": pid,
        "quick_cmd": "./check %s --tier quick" % pid,
        "thorough_cmd": "./check %s --tier thorough" % pid,
        "evidence_file": "/verif/evidence/%s.json" % pid,
        "replay_cmd_template": "./check replay {path}",
        "engine": "tlc-trace-validation",
        "level_claimed": {"category": "model_checking", "text": text, "design_ref": "DESIGN.md section 7 (" + pid + ")"},
        "level_note": "TLC is exhaustive on the Layer A model at small constants only; conformance is per recorded history (programs and schedules are sampled, seeded); sequentially consistent interleavings; Layer A is written from the property text and is the trusted oracle",
        "technique": TV})
na = [{"property_id": p["id"], "reason": "check under construction in this round (spec and driver not merged yet); not claimed until it runs green on the unchanged tree"}
      for p in props if p["id"] not in CLAIMED]
hooks = ["54892a0", "f3b3f85", "4754bfa", "8a6deef", "8ae87ab", "efa0b91", "077c927", "e63aaec"]
m = {"version": 1, "setup_cmd": "./check setup",
     "hooks": {"guard": "excsn_fibre_verif",
               "enable": "rustflags --cfg excsn_fibre_verif in /verif/harness/.cargo/config.toml (the harness crates have path dependencies on /repo)",
               "baseline_off_cmd": "cd /repo && (cargo nextest run --workspace --no-fail-fast --tool-config-file pb:/w/lib/nextest.toml --profile pb --test-threads 8 --offline || cargo test --workspace --no-fail-fast --offline)",
               "source_commits": hooks, "add_only": True},
     "engines": [{"name": "tlc-trace-validation", "path": "/verif/check", "serves_properties": sorted(CLAIMED),
                  "kind_free_text": "TLA+ specifications in /verif/specs checked by TLC; drivers in /verif/harness run the real code and record histories; TLC validates every history against the Layer A trace specification"}],
     "checks": checks, "not_applicable": na,
     "notes": "DESIGN.md describes the approach; KNOWN_FINDINGS.json lists open findings (printed as KNOWN-FINDING) and the defects repaired by fix: commits"}
json.dump(m, open(os.path.join(ROOT, "MANIFEST.json"), "w"), indent=1)
print("claimed:", sorted(CLAIMED), "not_applicable:", [x["property_id"] for x in na])
