#!/usr/bin/env python3
"""Copies a seeded change produced by a mutant agent into /verif/seeded/<prop>_<mN>/ (patch.diff, demo, notes.md)
and creates/updates meta.json. usage: import_seeded.py <prop> <mN> [key=value ...]"""
import json, os, shutil, sys, glob
prop, mn = sys.argv[1], sys.argv[2]
src = "/tmp/mut_%s/_out/%s" % (prop, mn)
dst = "/verif/seeded/%s_%s" % (prop, mn)
os.makedirs(dst, exist_ok=True)
if os.path.isdir(src):
    for f in glob.glob(src + "/*"):
        if os.path.basename(f).startswith(("patch.diff", "demo", "notes")):
            shutil.copy(f, dst)
mp = os.path.join(dst, "meta.json")
meta = json.load(open(mp)) if os.path.exists(mp) else {"property": prop, "id": "%s_%s" % (prop, mn)}
for kv in sys.argv[3:]:
    k, v = kv.split("=", 1)
    try:
        v = json.loads(v)
    except Exception:
        pass
    meta[k] = v
json.dump(meta, open(mp, "w"), indent=1)
print(mp, meta)
