#!/bin/bash
# usage: mut_pipeline.sh <prop> <crate> [check-prop ...]   -- confirm (demo + suite), import, run quick check(s) against each seeded change
P=$1; CRATE=$2; shift 2; CHECKS=${@:-$P}
LOG=/verif/.work/pipeline_$P.log
for m in ${MS:-m1 m2 m3}; do
  D=/tmp/mut_$P/_out/$m
  [ -f $D/patch.diff ] || continue
  echo "=== $P/$m" >> $LOG
  c=$(MTC=${MTC:-/tmp/mtc} flock ${MTC:-/tmp/mtc}.lock /verif/confirm_mutant.sh $D $CRATE --suite 2>&1 | tail -1)
  echo "confirm: $c" >> $LOG
  python3 /verif/tools/import_seeded.py $P $m confirm="$c" > /dev/null
  r=$(MT=${MT:-/tmp/mt} flock ${MT:-/tmp/mt}.lock timeout 3600 /verif/mutate.sh /verif/seeded/${P}_$m/patch.diff $CHECKS 2>&1 | tail -3)
  echo "check: $r" >> $LOG
done
echo "=== done $P" >> $LOG
