"""Recipes for the cache properties C11, C12, C13, C16, C17 (area `cache`).

Layer A: specs/cache/CacheA.tla; trace validation: specs/cache/CacheTrace.tla; bounded exploration of
Layer A: specs/cache/MC_CacheA.tla; driver: harness/cachex (binary fv-cachex, commands cache-seq, cache-stress).
"""
import concurrent.futures as cf
import json
import os
import re
import time

from . import common as C
from .props import add_mc, mc_cached

SPEC_DIR = os.path.join(C.SPECS, "cache")
BIN = "fv-cachex"


def n(tier, q, t):
    return q if tier == "quick" else t


# --------------------------------------------------------------------------- validation
def _kf_ids():
    return sorted(x["dev"] for x in C.load_known()["findings"] if x.get("spec") == "cache")


def _batches(items, batch_records):
    out, cur, cnt = [], [], 0
    for idx, h in items:
        cur.append((idx, h))
        cnt += len(h)
        if cnt >= batch_records:
            out.append(cur)
            cur, cnt = [], 0
    if cur:
        out.append(cur)
    return out


def _run_batch(module, batch):
    """Validates the histories of one batch in as few TLC runs as possible.
    Returns (rejections, devs) with devs = {hid: set(dev ids)} taken from the DEV prints."""
    rej, devs, runs = [], {}, 0
    while batch:
        lines, bounds = [], []
        for idx, h in batch:
            bounds.append((len(lines) + 1, len(lines) + len(h), idx))
            lines.extend(h)
        runs += 1
        ok, at, out = C._validate_batch(SPEC_DIR, module, module + ".cfg", lines, "c%d_%d" % (os.getpid(), time.time_ns()))
        for d, hid in re.findall(r'<<"DEV", "(\w+)", (\d+)>>', out):
            devs.setdefault(int(hid), set()).add(d)
        if ok:
            break
        pos = next(i for i, (lo, hi, idx) in enumerate(bounds) if lo <= at <= hi)
        lo, hi, idx = bounds[pos]
        rej.append({"history": idx, "record_index": at - lo + 1, "record": lines[at - 1]})
        batch = batch[pos + 1:]
    return rej, devs, runs


def validate(rep, path, label, module="CacheTrace", jobs=6, batch_records=2500):
    """Trace-validates every history with the deviation actions of the open known findings enabled (`kf` of the
    `new` record).  A deviation action is enabled only where the strict guard of the same step is false, so a
    history that TLC accepts without using any deviation (no DEV print) is accepted by the strict Layer A;
    one that needed deviations is a KNOWN-FINDING (with the deviations used); one that is rejected even so is
    a VIOLATION.  With `VERIF_CACHE_STRICT=1` no deviation is enabled (every open finding shows as a violation)."""
    hs = C.split_histories(path)
    kf = [] if os.environ.get("VERIF_CACHE_STRICT") else _kf_ids()
    items = [(i, C.with_kf(h, kf)) for i, h in enumerate(hs)]
    runs, rejected, devs = 0, [], {}
    with cf.ThreadPoolExecutor(max_workers=jobs) as ex:
        for rej, dv, r in ex.map(lambda b: _run_batch(module, b), _batches(items, batch_records)):
            rejected.extend(rej)
            devs.update(dv)
            runs += r
    bad = {rj["history"] for rj in rejected}
    known = []
    for i, h in enumerate(hs):
        hid = json.loads(h[0]).get("hid", i)
        if i not in bad and devs.get(hid):
            known.append({"history": i, "devs": sorted(devs[hid])})
    rep.validated += len(hs)
    rep.accepted += len(hs) - len(rejected) - len(known)
    for k in known:
        cfg = json.loads(hs[k["history"]][0])
        for d in k["devs"]:
            rep.known.append({"finding": d, "flavour": "%s/%s" % (cfg.get("profile"), cfg.get("policy")), "driver": label,
                              "seed": cfg.get("seed")})
    for v in rejected:
        h = hs[v["history"]]
        rep.violations.append({
            "what": "history rejected by Layer A (%s, known-finding deviations %s enabled) at record %d: %s" % (
                module, ",".join(kf) or "none", v["record_index"], v["record"][:400]),
            "replay": {"kind": "cache-history", "spec": "cache/" + module, "driver": label,
                       "first_unmatched_record": v["record_index"], "history": h}})
    if hs and len(rep.samples) < 3:
        rep.samples.append({"driver": label, "history_head": [json.loads(x) for x in hs[0][:12]]})
    rep.extra["tlc_trace_runs"] = rep.extra.get("tlc_trace_runs", 0) + runs
    return {"validated": len(hs), "rejected": len(rejected), "known": known, "violations": rejected}


def cache_seq(rep, profiles, programs, ops, seed_off=0, label="cache-seq"):
    wd = C.workdir()
    out = os.path.join(wd, "%s_%d.ndjson" % (label, time.time_ns()))
    st = C.run_fv(["cache-seq", "--seed", rep.seed + seed_off, "--programs", programs, "--ops", ops, "--profiles",
                   ",".join(profiles), "--out", out], timeout=3000, binary=BIN)
    rep.extra.setdefault("driver_stats", []).append(dict(st, driver=label))
    r = validate(rep, out, label)
    os.unlink(out)
    return r


def cache_stress(rep, rounds, threads, ops=6, seed_off=0, label="cache-stress"):
    """Free-running threads on one cache; histories with call/ret records, linearized by TLC (CacheStressTrace)."""
    wd = C.workdir()
    out = os.path.join(wd, "%s_%d.ndjson" % (label, time.time_ns()))
    st = C.run_fv(["cache-stress", "--seed", rep.seed + seed_off, "--rounds", rounds, "--threads", threads, "--ops", ops,
                   "--out", out], timeout=3000, binary=BIN)
    rep.extra.setdefault("driver_stats", []).append(dict(st, driver=label))
    r = validate(rep, out, label, module="CacheStressTrace", batch_records=1500)
    os.unlink(out)
    return r


def cache_sched(rep, scenarios, families, seed_off=0, label="cache-sched"):
    """2-3 user threads + a maintenance thread under the cooperative scheduler (fvctl; random p=0.3, PCT d=3, d=5),
    scenario families aimed at the overlaps the properties name; linearized by TLC (CacheStressTrace).
    Runs the scheduler calls stuck / step-limited are inconclusive: counted, never judged."""
    wd = C.workdir()
    out = os.path.join(wd, "%s_%d.ndjson" % (label, time.time_ns()))
    st = C.run_fv(["cache-sched", "--seed", rep.seed + seed_off, "--scenarios", scenarios, "--families", ",".join(families),
                   "--strategies", "random,pct3,pct5", "--out", out], timeout=3000, binary=BIN)
    rep.extra.setdefault("driver_stats", []).append(dict(st, driver=label))
    hs = C.split_histories(out)
    keep = [h for h in hs if not any('"k":"inconclusive"' in x for x in h[-2:])]
    if len(keep) < len(hs):
        rep.inconclusive.append({"driver": label, "runs_without_verdict": len(hs) - len(keep), "of": len(hs)})
        with open(out, "w") as f:
            f.write("\n".join("\n".join(h) for h in keep) + "\n")
    if len(keep) * 2 < len(hs):
        raise C.ToolError("%s: more than half of the scheduled runs were inconclusive (%d of %d)" % (label, len(hs) - len(keep), len(hs)))
    r = validate(rep, out, label, module="CacheStressTrace", batch_records=1500)
    os.unlink(out)
    return r


SCHED_ASSUME = [
    "cache-sched: sequential consistency at the yield points (every atomic / lock step of fibre's hybrid locks and channels); the policies' "
    "and the timer wheel's parking_lot mutexes and the std atomics of the metrics are not yield points (no yield happens while they are held)",
    "cache-sched: janitor and notifier threads are not managed; the janitor is configured to do nothing, so only the explicit "
    "run_maintenance() calls of the maintenance thread evict or expire"]


def cache_mc(rep, tier):
    # bounded cache with TTL + grace window; unbounded cache with TTL + idle timeout
    for base in ("MC_CacheA", "MC_CacheA_tti"):
        cfg = base + ("_quick.cfg" if tier == "quick" else ".cfg")
        add_mc(rep, mc_cached("cache", "MC_CacheA", cfg, ["CacheA.tla"], workers=6, timeout=1500, heap="6g"))


ASSUME = [
    "Layer A (specs/cache/CacheA.tla) is written from the property text; a history is judged only by TLC trace validation against it",
    "histories are sequential (one call at a time on the sync and the async handle of one cache) with explicit maintenance; the background "
    "janitor is configured so that it practically never acts behind the driver's back (if it does, its removals are still validated)",
    "time is the frozen virtual clock of the verification build (fibre_cache::verif::freeze_clock): deadlines are hit exactly; the timer wheel "
    "is not clocked at all (it advances one tick per maintenance pass), which is finding F15",
    "the eviction listener keeps up: after every step the driver pushes a marker through the notification queue "
    "(Cache::verif_notify_marker) and waits for it, so completeness of notifications is checkable",
    "TinyLFU / Random / ARC decisions depend on per-process hash seeds inside the library: histories are deterministic given the seed only "
    "up to those choices",
]


def C11(rep):
    cache_mc(rep, rep.tier)
    cache_seq(rep, ["mix", "cap", "ttl"], n(rep.tier, 90, 900), 60, label="cache-seq")
    # compute / entry atomicity under real concurrency (OS-chosen interleavings)
    cache_stress(rep, n(rep.tier, 60, 600), 3, ops=6, seed_off=11)
    cache_stress(rep, n(rep.tier, 30, 300), 4, ops=5, seed_off=12, label="cache-stress-4")
    # ... and under the cooperative scheduler: read-modify-write races, clear vs insert
    cache_sched(rep, n(rep.tier, 240, 3000), ["rmw", "rmw", "clear-ins"], seed_off=13)
    rep.assumptions += ASSUME + SCHED_ASSUME + [
        "cache-stress interleavings are chosen by the OS scheduler (threads released by a barrier), not enumerated; the controller-driven "
        "schedules of the concurrent cache scenarios belong to the main harness"]


def C12(rep):
    cache_mc(rep, rep.tier)
    cache_seq(rep, ["ttl", "ttl", "mix"], n(rep.tier, 120, 1200), 60, seed_off=101, label="cache-seq-ttl")
    rep.assumptions += ASSUME


def C13(rep):
    cache_mc(rep, rep.tier)
    cache_seq(rep, ["cap", "cap", "mix"], n(rep.tier, 120, 1200), 60, seed_off=202, label="cache-seq-cap")
    cache_seq(rep, ["burst"], n(rep.tier, 3, 16), 1, seed_off=203, label="cache-seq-burst")
    # the overlaps C13 names: remove vs eviction, clear vs insert, overwrite before the policy learnt the first write
    cache_sched(rep, n(rep.tier, 300, 4000), ["rm-evict", "clear-ins", "overwrite"], seed_off=204)
    rep.assumptions += ASSUME + SCHED_ASSUME


def C16(rep):
    cache_mc(rep, rep.tier)
    cache_seq(rep, ["cap", "ttl", "mix"], n(rep.tier, 120, 1200), 60, seed_off=303, label="cache-seq-listener")
    # who notifies when a user removal races an eviction / an expiry of the same key
    cache_sched(rep, n(rep.tier, 300, 4000), ["rm-evict", "inval-exp", "inval-exp"], seed_off=304)
    rep.assumptions += ASSUME + SCHED_ASSUME


def C17(rep):
    cache_mc(rep, rep.tier)
    cache_seq(rep, ["iter", "iter", "mix"], n(rep.tier, 90, 900), 50, seed_off=404, label="cache-seq-iter")
    rep.assumptions += ASSUME


RECIPES = {"C11": C11, "C12": C12, "C13": C13, "C16": C16, "C17": C17}
