"""Recipe for C14 (eviction policies): specs/policy + driver fv-policyx.

spec -> code: TLC (MC_PolicySeq) enumerates every call sequence of PolicyA of a given length over
3 keys x costs {0,1,3}; fv-policyx replays each on every built-in policy.
code -> spec: the recorded histories (enumerated and seeded random ones) are trace-validated by TLC
against PolicyTrace (PolicyA for every policy, PolicyLRU / PolicyFIFO victim order for lru / fifo).
"""
import concurrent.futures as cf
import json
import os
import re
import time

from . import common as C
from .props import add_mc, mc_cached, _sha

AREA = "policy"
SD = os.path.join(C.SPECS, AREA)
BIN = "fv-policyx"
JOBS = 6


# --------------------------------------------------------------------------- known findings
def policy_kf(known):
    """policy name -> sorted deviation ids of the open findings of specs/policy."""
    kf = {}
    for f in known["findings"]:
        if f.get("spec") == AREA:
            for p in f.get("policies", []):
                kf.setdefault(p, set()).add(f["dev"])
    return {p: sorted(v) for p, v in kf.items()}


# --------------------------------------------------------------------------- spec -> code
def enumerate_sequences(tier):
    """Runs MC_PolicySeq (cached by the hash of the spec files); returns the path of the sequence file."""
    cfg = "MC_PolicySeq_%s.cfg" % tier
    files = [os.path.join(SD, "MC_PolicySeq.tla"), os.path.join(SD, cfg)]
    cd = os.path.join(C.ROOT, ".work", "mccache")
    os.makedirs(cd, exist_ok=True)
    path = os.path.join(cd, "policyseq_%s_%s.txt" % (tier, _sha(files)))
    meta = path + ".json"
    if os.path.exists(path) and os.path.exists(meta):
        return path, dict(json.load(open(meta)), cached=True)
    t0 = time.time()
    code, out = C.tlc(SD, "MC_PolicySeq", cfg, workers=4, timeout=1500, heap="6g",
                      env={"JAVA_TOOL_OPTIONS": "-Xss64m -XX:+UseParallelGC -Xmx6g"})
    if code != 0 or "No error has been found" not in out:
        raise C.ToolError("MC_PolicySeq %s failed (exit %d): %s" % (cfg, code, out[-2000:]))
    n = 0
    tmp = path + ".%d" % os.getpid()
    with open(tmp, "w") as f:
        for line in out.splitlines():
            if '"SEQ"' not in line:
                continue
            m = re.match(r'^<<"SEQ", "(\[[0-9,\[\]]*\])">>$', line.strip())
            if not m:
                raise C.ToolError("unparsable sequence line from MC_PolicySeq: " + line[:200])
            f.write(m.group(1) + "\n")
            n += 1
    states, gen = C.tlc_stats(out)
    if n == 0:
        raise C.ToolError("MC_PolicySeq printed no sequence")
    os.replace(tmp, path)
    st = {"module": "MC_PolicySeq", "cfg": cfg, "states": states, "transitions": gen, "ok": True,
          "wall_s": round(time.time() - t0, 1), "never_taken": [], "sequences": n}
    json.dump(st, open(meta, "w"))
    return path, st


# --------------------------------------------------------------------------- code -> spec
def _head(h):
    return json.loads(h[0])


def _with(h, **kw):
    return [json.dumps(dict(_head(h), **kw), separators=(",", ":"))] + h[1:]


def _per_instance(h, kf):
    """One history per policy instance of a merged history, with the open findings of its policy enabled."""
    head = _head(h)
    out = []
    for lab, cap in zip(head["inst"], head["caps"]):
        name = lab.split("/")[0]
        out.append(_with(h, pols=[name], inst=[lab], caps=[cap], kf=kf.get(name, [])))
    return out


def _tlc_pass(hs, batch_records):
    """Validates histories with PolicyTrace (which reports every unexplainable record and resumes at the next
    history, so one TLC run per batch is enough). Returns (rejected: index -> info, devs: [(index, dev)], runs)."""
    batches, cur, n = [], [], 0
    for idx, h in enumerate(hs):
        cur.append((idx, h))
        n += len(h)
        if n >= batch_records:
            batches.append(cur)
            cur, n = [], 0
    if cur:
        batches.append(cur)

    def run_batch(batch):
        lines, starts = [], []
        for idx, h in batch:
            starts.append(len(lines) + 1)
            lines.extend(h)
        wd = C.workdir()
        tag = "p%d_%d" % (os.getpid(), time.time_ns())
        path = os.path.join(wd, "trace_%s.ndjson" % tag)
        with open(path, "w") as f:
            f.write("\n".join(lines) + "\n")
        # several single-worker JVMs run side by side: keep their GC / JIT thread pools small
        env = {"TRACE": path, "JAVA_TOOL_OPTIONS": C.JAVA_OPTS + " -XX:ParallelGCThreads=2 -XX:CICompilerCount=2 -Xmx3g"}
        code, out = C.tlc(SD, "PolicyTrace", "PolicyTrace.cfg", env=env, workers=1, timeout=3000,
                          metadir=os.path.join(wd, "md_" + tag))
        os.unlink(path)
        rej = {}
        for at, hno in re.findall(r'^<<"REJECT", (\d+), .*, (\d+)>>$', out, re.M):
            idx = batch[int(hno) - 1][0]
            at = int(at)
            rej.setdefault(idx, {"history": idx, "record_index": at - starts[int(hno) - 1] + 1, "record": lines[at - 1]})
        dev = [(batch[int(hno) - 1][0], d) for d, hno in set(re.findall(r'<<"DEV", "(\w+)", (\d+)>>', out))]
        clean_end = code == 0 and "No error has been found" in out
        if not clean_end and not rej or "STUCK" in out or (clean_end and rej):
            raise C.ToolError("TLC failed on a PolicyTrace batch (exit %d): %s" % (code, out[-3000:]))
        return rej, dev

    rejected, devs = {}, []
    with cf.ThreadPoolExecutor(max_workers=JOBS) as ex:
        for rj, dv in ex.map(run_batch, batches):
            rejected.update(rj)
            devs.extend(dv)
    return rejected, devs, len(batches)


def validate(rep, path, label, batch_records=30000):
    """Trace-validates the histories of `path` (one per set of policy instances that behaved identically).

    Pass 1: every history strictly (kf = []), for all its instances at once.
    Pass 2: a rejected history is re-validated per policy instance with the deviation actions of that
    policy's open findings enabled; accepted then = KNOWN-FINDING (the `DEV` lines say which), else VIOLATION."""
    kf = policy_kf(C.load_known())
    groups = [_with(g, kf=[]) for g in C.split_histories(path)]
    rej1, _, runs1 = _tlc_pass(groups, batch_records)
    singles, origin = [], []
    for gi in sorted(rej1):
        for h in _per_instance(groups[gi], kf):
            singles.append(h)
            origin.append(gi)
    rej2, devs2, runs2 = _tlc_pass(singles, batch_records) if singles else ({}, [], 0)
    total = sum(len(_head(g)["inst"]) for g in groups)
    used = {}
    for si, d in devs2:
        used.setdefault(si, []).append(d)
    seen = set()
    n_known = 0
    for si, h in enumerate(singles):
        if si in rej2:
            continue
        lab = _head(h)["inst"][0]
        if si not in used:
            # fine on its own: the merged history was rejected because of another policy's obligations
            # (LRU / FIFO order, or the "frees at least" clause that NullPolicy is exempt from)
            continue
        n_known += 1
        for d in used[si]:
            rep.known.append({"finding": d, "flavour": lab, "driver": label})
            if (d, lab.split("/")[0]) not in seen and len(rep.samples) < 8:
                seen.add((d, lab.split("/")[0]))
                rep.samples.append({"driver": label, "known_finding": d, "instance": lab,
                                    "first_unexplained_strictly": rej1[origin[si]]["record_index"],
                                    "history": [json.loads(x) for x in h[:24]]})
    for si in sorted(rej2):
        v, h = rej2[si], singles[si]
        lab = _head(h)["inst"][0]
        rep.violations.append({
            "what": "history of %s rejected by Layer A (PolicyTrace) at record %d: %s" % (lab, v["record_index"], v["record"]),
            "replay": {"kind": "policy-history", "spec": "policy/PolicyTrace", "driver": label, "instance": lab,
                       "open_findings_enabled": _head(h)["kf"], "first_unmatched_record": v["record_index"],
                       "first_unmatched_record_strict": rej1[origin[si]]["record_index"],
                       "history": _with(h, kf=[])}})
    if groups and not any("history_head" in s for s in rep.samples):
        rep.samples.append({"driver": label, "history_head": [json.loads(x) for x in groups[len(groups) // 2][:14]]})
    rep.validated += total
    rep.accepted += total - n_known - len(rej2)
    st = {"driver": label, "merged_histories": len(groups), "instance_histories": total,
          "merged_rejected_strictly": len(rej1), "instance_histories_revalidated": len(singles),
          "known_finding_histories": n_known, "violations": len(rej2), "tlc_runs": runs1 + runs2}
    rep.extra.setdefault("validation", []).append(st)
    return st


def drive(rep, args, label):
    out = os.path.join(C.workdir(), "%s_%d.ndjson" % (label, time.time_ns()))
    st = C.run_fv(args + ["--out", out], timeout=3000, binary=BIN)
    rep.extra.setdefault("driver_stats", []).append(dict(st, driver=label))
    if st.get("hung") or "programs" not in st:
        # the driver writes the history in progress with a `hung` record; the validation rejects it
        C.log("[policy] driver reported hung=%s" % st.get("hung"))
    r = validate(rep, out, label)
    os.unlink(out)
    return r


ASSUME = [
    "Layer A (specs/policy/PolicyA.tla, PolicyLRU.tla, PolicyFIFO.tla) is written from the text of C14; a history is judged only by "
    "TLC trace validation against it (PolicyTrace)",
    "the policies are driven sequentially through the CachePolicy trait only (on_admit/on_access/on_remove/evict/clear); "
    "their internal locking is not exercised",
    "on_access is given the cost of the key's last admission, as the cache does (entry.cost()); keys never admitted get cost 1",
    "'its evictable keys' = the tracked keys; NullPolicy (documented as never evicting, installed for unbounded caches) is exempt "
    "from the 'frees at least' clause only",
    "FIFO: whether re-admitting a tracked key refreshes its queue position is left open by the text (either, consistently per history); "
    "minimality of the victim set is not demanded of any policy",
    "RandomPolicy draws from the thread RNG and TinyLFU's sketch uses randomly seeded hashers: their histories are not "
    "reproducible from the seed, every recorded one is validated",
]


def C14(rep):
    quick = rep.tier == "quick"
    deps = ["PolicyA.tla", "PolicyLRU.tla", "PolicyFIFO.tla"]
    for m in ("any", "lru", "fifo", "null"):
        r = mc_cached(AREA, "MC_PolicyA", "MC_PolicyA_%s%s.cfg" % (m, "_quick" if quick else ""), deps,
                      workers=JOBS, timeout=1500, heap="6g")
        add_mc(rep, r)
        if r.get("never_taken"):
            raise C.ToolError("vacuous model: actions never taken in %s: %s" % (r["cfg"], r["never_taken"]))
    seqs, st = enumerate_sequences("quick" if quick else "thorough")
    rep.mc.append({k: st[k] for k in ("module", "cfg", "states", "transitions", "ok", "wall_s", "never_taken")})
    rep.extra["enumerated_sequences"] = st["sequences"]
    drive(rep, ["--mode", "enum", "--seqs", seqs], "policy-enum")
    # (TLC explains ~2-5 k records/s per worker, so the 10^4 [10^6] random sequences of the plan are 10^3 [10^4] here)
    drive(rep, ["--mode", "rand", "--programs", 1000 if quick else 5000, "--ops", 40 if quick else 60,
                "--seed", rep.seed], "policy-rand")
    rep.assumptions += ASSUME


RECIPES = {"C14": C14}
