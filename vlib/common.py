"""Shared machinery of ./check: build, drivers, TLC, trace validation, evidence."""
import concurrent.futures as cf
import hashlib
import json
import os
import re
import shutil
import subprocess
import sys
import time

ROOT = os.path.dirname(os.path.dirname(os.path.abspath(__file__)))
REPO = os.environ.get("VERIF_REPO", "/repo")
HARNESS = os.environ.get("VERIF_HARNESS", os.path.join(ROOT, "harness"))
OUT = os.environ.get("VERIF_OUT", ROOT)   # where evidence/ and replays/ go (scratch dir for mutant runs)
FV = os.path.join(HARNESS, "target", "release", "fv")
SPECS = os.path.join(ROOT, "specs")
JAVA_OPTS = "-Xss1g -XX:+UseParallelGC -XX:ParallelGCThreads=2 -XX:CICompilerCount=2 -Dtlc2.tool.queue.IStateQueue=StateDeque"


class ToolError(Exception):
    """Inconclusive: a tool failed (exit code 2), never a verdict."""


def log(*a):
    print(*a, file=sys.stderr, flush=True)


def workdir():
    d = os.path.join(ROOT, ".work", "w%d" % os.getpid())
    os.makedirs(d, exist_ok=True)
    return d


def cleanup_workdir():
    d = os.path.join(ROOT, ".work", "w%d" % os.getpid())
    shutil.rmtree(d, ignore_errors=True)


def clean(s):
    return "\n".join(l for l in s.splitlines() if not l.startswith("WARNING conda"))


# --------------------------------------------------------------------------- build
def build_harness(pkgs=None):
    """(Re)builds the harness (all crates, or the given packages) against /repo's current working tree, hooks on."""
    env = dict(os.environ, CARGO_NET_OFFLINE="true")
    lock = os.path.join(HARNESS, "Cargo.lock")
    if not os.path.exists(lock):
        shutil.copy(os.path.join(REPO, "Cargo.lock"), lock)
    t0 = time.time()
    sel = ["--workspace"] if not pkgs else sum((["-p", x] for x in pkgs), [])
    p = subprocess.run(["cargo", "build", "--release", "--offline", "-q"] + sel, cwd=HARNESS, env=env,
                       stdout=subprocess.PIPE, stderr=subprocess.STDOUT, text=True)
    if p.returncode != 0:
        errs = [l for l in clean(p.stdout).splitlines() if l.startswith("error")][:10]
        raise ToolError("harness build failed: " + " | ".join(errs) + "\n" + clean(p.stdout)[-3000:])
    log("[build] harness ok in %.1fs" % (time.time() - t0))


def run_fv(args, timeout=600, binary=None):
    exe = os.path.join(HARNESS, "target", "release", binary) if binary else FV
    p = subprocess.run([exe] + [str(a) for a in args], stdout=subprocess.PIPE, stderr=subprocess.PIPE, text=True,
                       timeout=timeout)
    out = clean(p.stdout).strip().splitlines()
    if p.returncode != 0:
        raise ToolError("fv %s exited %d: %s" % (args[0], p.returncode, clean(p.stderr)[-2000:]))
    try:
        return json.loads(out[-1]) if out else {}
    except Exception:
        return {"raw": out[-1] if out else ""}


# --------------------------------------------------------------------------- TLC
def tlc(spec_dir, module, cfg, env=None, workers=1, extra=None, timeout=900, metadir=None, heap="2g"):
    """Runs TLC; returns (exit code, output)."""
    md = metadir or os.path.join(workdir(), "md_%s_%d" % (module, time.time_ns()))
    e = dict(os.environ)
    e["JAVA_TOOL_OPTIONS"] = JAVA_OPTS + " -Xmx" + heap
    if env:
        e.update(env)
    # TLC creates a scratch directory under java.io.tmpdir on every run: keep it out of /tmp
    jtmp = md + "_jtmp"
    os.makedirs(jtmp, exist_ok=True)
    e["JAVA_TOOL_OPTIONS"] = e.get("JAVA_TOOL_OPTIONS", "") + " -Djava.io.tmpdir=" + jtmp
    cmd = ["tlc", "-workers", str(workers), "-metadir", md, "-cleanup", "-noGenerateSpecTE",
           "-config", cfg] + (extra or []) + [module + ".tla"]
    try:
        p = subprocess.run(cmd, cwd=spec_dir, env=e, stdout=subprocess.PIPE, stderr=subprocess.STDOUT, text=True,
                           timeout=timeout)
    except subprocess.TimeoutExpired:
        shutil.rmtree(md, ignore_errors=True)
        shutil.rmtree(jtmp, ignore_errors=True)
        raise ToolError("TLC timeout on %s/%s" % (module, cfg))
    shutil.rmtree(md, ignore_errors=True)
    shutil.rmtree(jtmp, ignore_errors=True)
    return p.returncode, clean(p.stdout)


def tlc_stats(out):
    m = re.search(r"(\d+) states generated, (\d+) distinct states found", out)
    if not m:
        return 0, 0
    return int(m.group(2)), int(m.group(1))


def model_check(spec_dir, module, cfg, workers=8, timeout=1200, extra=None, heap="6g"):
    """Exhaustive TLC run of a model; returns dict(states, transitions, ok, out)."""
    t0 = time.time()
    code, out = tlc(spec_dir, module, cfg, workers=workers, timeout=timeout, extra=(extra or []) + ["-coverage", "1"],
                    heap=heap, env={"JAVA_TOOL_OPTIONS": "-Xss64m -XX:+UseParallelGC -Xmx" + heap})
    states, gen = tlc_stats(out)
    ok = code == 0 and "No error has been found" in out
    res = {"module": module, "cfg": cfg, "states": states, "transitions": gen, "ok": ok, "exit": code,
           "wall_s": round(time.time() - t0, 1)}
    if not ok:
        res["out_tail"] = out[-4000:]
    # action coverage: "<Action line ...>: distinct:total"
    cov = {}
    for m in re.finditer(r"^<(\w+) line \d+, col \d+ to line \d+, col \d+ of module (\w+)>: (\d+):(\d+)", out, re.M):
        cov[m.group(1)] = cov.get(m.group(1), 0) + int(m.group(4))
    res["action_counts"] = cov
    res["never_taken"] = sorted(k for k, v in cov.items() if v == 0)
    return res


# --------------------------------------------------------------------------- histories
def split_histories(path):
    """Splits an ndjson file into histories (lists of raw lines), one per `new` record."""
    hs, cur = [], None
    with open(path) as f:
        for line in f:
            line = line.rstrip("\n")
            if not line:
                continue
            if line.startswith('{"') and '"k":"new"' in line:
                if cur:
                    hs.append(cur)
                cur = []
            if cur is None:
                cur = []
            cur.append(line)
    if cur:
        hs.append(cur)
    return hs


def _validate_batch(spec_dir, module, cfg, lines, tag, timeout=900):
    """Runs one TLC trace validation; returns (accepted, first_unmatched_index (1-based) or None, output)."""
    wd = workdir()
    path = os.path.join(wd, "trace_%s.ndjson" % tag)
    with open(path, "w") as f:
        f.write("\n".join(lines) + "\n")
    try:
        code, out = tlc(spec_dir, module, cfg, env={"TRACE": path}, workers=1, timeout=timeout,
                        metadir=os.path.join(wd, "md_" + tag))
    finally:
        os.unlink(path)
    if code == 0 and "No error has been found" in out:
        return True, None, out
    m = re.search(r'<<"REJECT", (\d+),', out)
    if m:
        return False, int(m.group(1)), out
    if "is violated" in out or "Invariant" in out:
        ls = re.findall(r"^/\\ l = (\d+)", out, re.M) or re.findall(r"\bl = (\d+)", out)
        if ls:
            return False, max(1, int(ls[-1]) - 1), out
    raise ToolError("TLC failed on trace batch %s (exit %d): %s" % (tag, code, out[-3000:]))


def with_kf(lines, kf):
    r = json.loads(lines[0])
    r["kf"] = sorted(kf)
    return [json.dumps(r, separators=(",", ":"))] + lines[1:]


def validate_histories(spec_dir, module, cfg, histories, kf_for=None, batch_records=2500, jobs=None, max_violations=3,
                       batch_timeout=420):
    """Trace-validates histories (lists of lines) against a Layer A trace spec.

    Phase 1: strict (no deviations), many histories per TLC run. A rejected history is at once
    re-validated alone with the deviation actions of the open known findings enabled
    (kf_for(history) -> list of ids); accepted then = KNOWN-FINDING, else VIOLATION.
    Stops early once `max_violations` violations are confirmed (the verdict is settled).
    A TLC run that exceeds its time limit is split; a single history that cannot be decided
    within the limit is reported under `undecided` (inconclusive, never a verdict).
    Returns dict(validated, accepted, known=[...], violations=[...], undecided=[...]).
    """
    import threading
    jobs = jobs or int(os.environ.get("VERIF_JOBS", "8"))
    batches, cur, n = [], [], 0
    for idx, h in enumerate(histories):
        cur.append((idx, h))
        n += len(h)
        if n >= batch_records:
            batches.append(cur)
            cur, n = [], 0
    if cur:
        batches.append(cur)
    lock = threading.Lock()
    known, violations, undecided = [], [], []
    counter = [0]
    checked = [0]
    stop = threading.Event()

    def tag():
        return "b%d_%d" % (os.getpid(), time.time_ns())

    def second(rj):
        h = histories[rj["history"]]
        kf = kf_for(h) if kf_for else []
        if kf:
            try:
                ok, at, out = _validate_batch(spec_dir, module, cfg, with_kf(h, kf), tag(), timeout=batch_timeout)
            except ToolError:
                return ("undecided", rj)
            if ok:
                devs = sorted(set(re.findall(r'"DEV", "(\w+)"', out)))
                return ("known", dict(rj, devs=devs or kf))
            rj = dict(rj, record_index_with_devs=at)
        return ("violation", rj)

    def run_batch(batch):
        while batch and not stop.is_set():
            lines, bounds = [], []
            for idx, h in batch:
                bounds.append((len(lines) + 1, len(lines) + len(h), idx))
                lines.extend(h)
            with lock:
                counter[0] += 1
            try:
                ok, at, out = _validate_batch(spec_dir, module, cfg, lines, tag(), timeout=batch_timeout)
            except ToolError as e:
                if "timeout" not in str(e):
                    raise
                if len(batch) == 1:
                    with lock:
                        undecided.append({"history": batch[0][0], "why": "TLC time limit"})
                    return
                mid = len(batch) // 2
                run_batch(batch[:mid])
                run_batch(batch[mid:])
                return
            if ok:
                with lock:
                    checked[0] += len(batch)
                return
            pos = next(i for i, (lo, hi, idx) in enumerate(bounds) if lo <= at <= hi)
            lo, hi, idx = bounds[pos]
            rj = {"history": idx, "record_index": at - lo + 1, "record": lines[at - 1]}
            kind, rj = second(rj)
            with lock:
                checked[0] += pos + 1
                {"known": known, "violation": violations, "undecided": undecided}[kind].append(rj)
                if len(violations) >= max_violations:
                    stop.set()
            batch = batch[pos + 1:]

    with cf.ThreadPoolExecutor(max_workers=jobs) as ex:
        list(ex.map(run_batch, batches))
    rejected = len(known) + len(violations) + len(undecided)
    return {"validated": checked[0], "accepted": checked[0] - rejected, "known": known,
            "violations": violations, "undecided": undecided, "tlc_runs": counter[0], "stopped_early": stop.is_set()}


# --------------------------------------------------------------------------- known findings
def load_known():
    p = os.path.join(ROOT, "KNOWN_FINDINGS.json")
    if not os.path.exists(p):
        return {"findings": [], "fixed": []}
    return json.load(open(p))


# --------------------------------------------------------------------------- evidence / verdict
def write_replay(prop, name, payload):
    d = os.path.join(OUT, "replays")
    os.makedirs(d, exist_ok=True)
    h = hashlib.sha1(json.dumps(payload, sort_keys=True).encode()).hexdigest()[:10]
    p = os.path.join(d, "%s_%s_%s.json" % (prop, name, h))
    with open(p, "w") as f:
        json.dump(payload, f, indent=1)
    return p


def write_evidence(prop, tier, seed, coverage, assumptions, wall_s, violations, extra=None):
    d = os.path.join(OUT, "evidence")
    os.makedirs(d, exist_ok=True)
    ev = {"property_id": prop, "tier": tier, "seed": seed, "level": "model_checking", "coverage": coverage,
          "assumptions": assumptions, "wall_s": round(wall_s, 1), "violations": violations}
    if extra:
        ev.update(extra)
    with open(os.path.join(d, prop + ".json"), "w") as f:
        json.dump(ev, f, indent=1)
    return ev
