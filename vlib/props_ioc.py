"""C18 (IoC containers): recipe.  Layer A = specs/ioc/IocA.tla, trace spec = IocTrace.tla,
driver = harness/iocx (binary fv-iocx).

spec -> code : the generator configurations of MC_IocA print every program (sequence of
               registrations / resolutions) that takes a transition of the abstract registry
               up to a length bound; fv-iocx replays each on Container::new(), LocalContainer
               and global() (one process per program) through every API form incl. the macros.
code -> spec : every recorded history (those, seeded random long programs, and the free-running
               ioc-stress rounds) is trace-validated by TLC against IocTrace.
"""
import concurrent.futures as cf
import hashlib
import json
import os
import re
import time

from . import common as C
from . import props as P

AREA = "ioc"
SD = os.path.join(C.SPECS, AREA)
BIN = "fv-iocx"
DEPS = ["IocA.tla"]


# --------------------------------------------------------------------------- known findings
def ioc_known():
    return [f for f in C.load_known()["findings"] if f.get("spec") == AREA]


def ioc_kf_for(_h):
    return [f["dev"] for f in ioc_known()]


# --------------------------------------------------------------------------- TLC as program generator
def _sha(paths):
    h = hashlib.sha1()
    for p in sorted(paths):
        h.update(open(p, "rb").read())
    return h.hexdigest()[:16]


def gen_programs(rep, cfg, timeout=1500):
    """Runs MC_IocA with a generator configuration (one worker: deterministic BFS) and returns the
    path of an ndjson file with the printed programs.  Cached by the hash of the spec files."""
    files = [os.path.join(SD, "MC_IocA.tla"), os.path.join(SD, cfg)] + [os.path.join(SD, d) for d in DEPS]
    key = "iocgen_%s_%s" % (cfg.replace(".cfg", ""), _sha(files))
    cd = os.path.join(C.ROOT, ".work", "mccache")
    os.makedirs(cd, exist_ok=True)
    pp, mp = os.path.join(cd, key + ".ndjson"), os.path.join(cd, key + ".json")
    if os.path.exists(pp) and os.path.exists(mp):
        meta = json.load(open(mp))
        meta["cached"] = True
    else:
        t0 = time.time()
        code, out = C.tlc(SD, "MC_IocA", cfg, workers=1, timeout=timeout, extra=["-coverage", "1"],
                          env={"JAVA_TOOL_OPTIONS": "-Xss64m -XX:+UseParallelGC -Xmx4g"})
        states, gen = C.tlc_stats(out)
        ok = code == 0 and "No error has been found" in out
        progs = []
        for m in re.finditer(r'^<<"PROG", (".*")>>$', out, re.M):
            progs.append(json.loads(m.group(1)))          # the TLA+ string = JSON text of the program
        cov = {}
        for m in re.finditer(r"^<(\w+) line \d+, col \d+ to line \d+, col \d+ of module (\w+)[^>]*>: (\d+):(\d+)", out, re.M):
            cov[m.group(1)] = cov.get(m.group(1), 0) + int(m.group(4))
        meta = {"module": "MC_IocA", "cfg": cfg, "states": states, "transitions": gen, "ok": ok and len(progs) > 0,
                "wall_s": round(time.time() - t0, 1), "programs": len(progs),
                # a generator configuration is not a vacuity check: slices without dependencies never unwind etc.
                "generator_untaken": sorted(k for k, v in cov.items() if v == 0 and k.startswith("Do"))}
        if not meta["ok"]:
            raise C.ToolError("program generation failed: %s exit %d\n%s" % (cfg, code, out[-3000:]))
        tmp = pp + ".%d" % os.getpid()
        with open(tmp, "w") as f:
            f.write("\n".join(progs) + "\n")
        os.replace(tmp, pp)
        json.dump(meta, open(mp, "w"))
    rep.mc.append({k: meta[k] for k in ("module", "cfg", "states", "transitions", "ok", "wall_s", "generator_untaken", "programs")
                   if k in meta})
    return pp, meta


# --------------------------------------------------------------------------- validation
def _sample(rep, label, hs, want=None):
    if not hs or len(rep.samples) >= 4:
        return
    h = hs[0]
    if want:
        h = next((x for x in hs if want(x)), h)
    rep.samples.append({"driver": label, "history_head": [json.loads(x) for x in h[:16]]})


def _violation(rep, h, idx, rec, label):
    rep.violations.append({
        "what": "history rejected by Layer A (IocTrace) at record %d: %s" % (idx, rec),
        "replay": {"kind": "ioc-history", "spec": "ioc/IocTrace", "driver": label,
                   "first_unmatched_record": idx, "history": h}})


class Pool:
    """Histories recorded by the drivers, validated together at the end (fewer, fuller TLC runs)."""

    def __init__(self):
        self.strict = []   # (label, history)
        self.known = []    # (label, history): scenarios that are known to hit open findings

    def add(self, label, path, expect_known=False):
        hs = C.split_histories(path)
        (self.known if expect_known else self.strict).extend((label, h) for h in hs)
        return hs


def validate_strict(rep, items, jobs=6, batch_records=6000):
    """Strict first, rejected histories again with the deviations of the open findings (vlib.common)."""
    if not items:
        return
    hs = [h for _, h in items]
    r = C.validate_histories(SD, "IocTrace", "IocTrace.cfg", hs, kf_for=ioc_kf_for, batch_records=batch_records, jobs=jobs)
    rep.validated += r["validated"]
    rep.accepted += r["accepted"]
    for k in r["known"]:
        for d in k["devs"]:
            rep.known.append({"finding": d, "flavour": items[k["history"]][0], "driver": items[k["history"]][0]})
    for v in r["violations"]:
        _violation(rep, hs[v["history"]], v["record_index"], v["record"], items[v["history"]][0])


def validate_expecting_known(rep, items, jobs=6, batch_records=6000):
    """For drivers whose scenarios are known to hit open findings (cross-thread cycles, two containers):
    one pass with the deviation actions of the listed findings enabled.  The deviations only ADD the
    listed behaviours, so anything else is still rejected (= violation); with no finding listed this is
    the strict validation."""
    if not items:
        return
    kf = ioc_kf_for(None)
    if not kf:
        return validate_strict(rep, items, jobs, batch_records)
    hs = [h for _, h in items]
    batches, cur, n = [], [], 0
    for i, h in enumerate(hs):
        cur.append(i)
        n += len(h)
        if n >= batch_records:
            batches.append(cur)
            cur, n = [], 0
    if cur:
        batches.append(cur)

    def run_batch(todo):
        devs, rej = [], []
        while todo:
            lines, bounds = [], []
            for i in todo:
                h = C.with_kf(hs[i], kf)
                bounds.append((len(lines) + 1, len(lines) + len(h), i))
                lines.extend(h)
            ok, at, out = C._validate_batch(SD, "IocTrace", "IocTrace.cfg", lines, "x%d_%d" % (os.getpid(), time.time_ns()))
            # DEV lines are printed at the `end` record of a history that used a deviation, in trace order
            used = re.findall(r'"DEV", "(\w+)"', out)
            devs += [(d, items[todo[0]][0]) for d in used]
            if ok:
                break
            pos = next(j for j, (lo, hi, i) in enumerate(bounds) if lo <= at <= hi)
            lo, hi, i = bounds[pos]
            rej.append((i, at - lo + 1, lines[at - 1]))
            todo = todo[pos + 1:]
        return devs, rej

    nrej = 0
    with cf.ThreadPoolExecutor(max_workers=jobs) as ex:
        for devs, rej in ex.map(run_batch, batches):
            for d, label in devs:
                rep.known.append({"finding": d, "flavour": label, "driver": label})
            for i, idx, rec in rej:
                nrej += 1
                _violation(rep, hs[i], idx, rec, items[i][0])
    rep.validated += len(hs)
    rep.accepted += len(hs) - nrej


# --------------------------------------------------------------------------- drivers
def _out(label):
    return os.path.join(C.workdir(), "%s_%d.ndjson" % (label, time.time_ns()))


def _run(rep, args, label, timeout=1800):
    st = C.run_fv(args, timeout=timeout, binary=BIN)
    rep.extra.setdefault("driver_stats", []).append(dict(st, driver=label))
    return st


def ioc_seq(rep, pool, container, label, programs_files=None, random=0, ops=30, stride=1, offset=0, seed_off=0, expect_known=False,
            want=None):
    out = _out(label)
    args = ["ioc-seq", "--container", container, "--out", out, "--seed", rep.seed + seed_off, "--stride", stride, "--offset", offset]
    if programs_files:
        args += ["--programs-file", ",".join(programs_files)]
    if random:
        args += ["--random", random, "--ops", ops]
    _run(rep, args, label)
    hs = pool.add(label, out, expect_known)
    os.unlink(out)
    if want:
        _sample(rep, label, hs, want)
    return hs


def ioc_stress(rep, pool, container, label, rounds, threads, scenarios, seed_off=0, expect_known=False, want=None):
    out = _out(label)
    _run(rep, ["ioc-stress", "--container", container, "--out", out, "--seed", rep.seed + seed_off, "--rounds", rounds,
               "--threads", threads, "--scenarios", scenarios], label)
    hs = pool.add(label, out, expect_known)
    os.unlink(out)
    if want:
        _sample(rep, label, hs, want)
    return hs


IOC_ASSUME = [
    "Layer A (specs/ioc/IocA.tla) is written from the C18 statement; a history is judged only by TLC trace validation against IocTrace",
    "sequential programs: TLC (MC_IocA generator configurations) enumerates every transition of the abstract registry up to the "
    "length bound over 2 types x {unnamed, a, b} / concrete + trait-object types / factories with dependencies / two containers; "
    "idle states that differ only in the numbering of generations and instances are merged (VIEW), interchangeable types and "
    "names are enumerated in canonical order and permuted back by the driver",
    "concurrency (ioc-stress): once_cell and dashmap are foreign code without hooks, so the interleavings of the free-running "
    "threads are chosen by the OS (windows widened by yields/sleeps in the factories), not enumerated; each observed history is "
    "validated exactly (at most one factory run per registration, one instance per generation, latest registration after its return)",
    "instance identity = unique id stamped into every constructed object + pointer equality (Arc::ptr_eq / Rc::ptr_eq) with the first "
    "object seen under that id; memory safety beyond that is not observed",
    "a hang is detected by a watchdog (5 s sequential, 1.5-20 s stress) and a stack overflow by the death of the child process; "
    "registration from inside a factory and factories that catch panics are outside C18 and not generated",
]


def oracle_selftest(rep):
    """The oracle must accept / reject three fixed traces (specs/ioc/selftest): a plain sequential history, a
    hypothetical implementation that reports a cross-thread cycle by a panic (must be accepted: the strict spec
    must not depend on the open finding), and a cycle panic without any cycle (must be rejected)."""
    d = os.path.join(SD, "selftest")
    acc = []
    for f in ("accept_basic_sequential.ndjson", "accept_cross_thread_cycle_reported_by_panic.ndjson"):
        acc += [l.rstrip("\n") for l in open(os.path.join(d, f)) if l.strip()]
    rej = [l.rstrip("\n") for l in open(os.path.join(d, "reject_spurious_cycle_panic.ndjson")) if l.strip()]
    with cf.ThreadPoolExecutor(max_workers=2) as ex:
        a = ex.submit(C._validate_batch, SD, "IocTrace", "IocTrace.cfg", acc, "sa%d" % os.getpid())
        b = ex.submit(C._validate_batch, SD, "IocTrace", "IocTrace.cfg", rej, "sr%d" % os.getpid())
        (ok_a, at_a, _), (ok_b, at_b, _) = a.result(), b.result()
    if not ok_a:
        raise C.ToolError("IocTrace self-test: a conforming trace was rejected at record %s" % at_a)
    if ok_b:
        raise C.ToolError("IocTrace self-test: a cycle panic without a cycle was accepted")
    rep.extra["oracle_selftest"] = {"accepted": 2, "rejected": 1, "rejected_at_record": at_b}


def is_stress_first(h):
    return '"scenario":"first"' in h[0] and '"threads":4' in h[0]


def C18(rep):
    quick = rep.tier == "quick"
    n = P.n
    pool = Pool()
    # 1. Layer A explored exhaustively: every interleaving of 2 (3) threads over a small alphabet
    for cfg in (["MC_IocA_quick.cfg", "MC_IocA_cyc_quick.cfg"] if quick else ["MC_IocA.cfg", "MC_IocA_cyc.cfg"]):
        P.add_mc(rep, P.mc_cached(AREA, "MC_IocA", cfg, DEPS, workers=6, timeout=1500))
    # 2. spec -> code -> spec: TLC-enumerated programs on the three container flavours
    sets = (["keys3", "trait4", "deps3"] if quick else ["keys4", "trait5", "deps4"])
    files = [gen_programs(rep, "MC_IocA_gen_%s.cfg" % s)[0] for s in sets]
    if quick:
        ioc_seq(rep, pool, "inst", "ioc-seq-inst", programs_files=files, want=lambda h: len(h) > 12)
    else:
        ioc_seq(rep, pool, "inst", "ioc-seq-inst", programs_files=files[:2], want=lambda h: len(h) > 12)
        ioc_seq(rep, pool, "inst", "ioc-seq-inst-deps", programs_files=files[2:], stride=3, offset=rep.seed % 3)
    ioc_seq(rep, pool, "local", "ioc-seq-local", programs_files=files, seed_off=1, stride=n(rep.tier, 3, 6), offset=rep.seed % 3)
    ioc_seq(rep, pool, "global", "ioc-seq-global", programs_files=files, stride=n(rep.tier, 29, 197), offset=rep.seed % 7, seed_off=2)
    # two containers: enumerated cross-container dependencies (open finding FIOC2 lives here)
    c2 = gen_programs(rep, "MC_IocA_gen_%s.cfg" % ("c2_3" if quick else "c2_4"))[0]
    ioc_seq(rep, pool, "inst", "ioc-seq-2c-inst", programs_files=[c2], seed_off=3, expect_known=True, stride=n(rep.tier, 6, 8),
            offset=rep.seed % 2)
    ioc_seq(rep, pool, "local", "ioc-seq-2c-local", programs_files=[c2], seed_off=4, expect_known=True, stride=n(rep.tier, 12, 16),
            offset=rep.seed % 4)
    ioc_seq(rep, pool, "global", "ioc-seq-2c-global", programs_files=[c2], seed_off=5, expect_known=True, stride=n(rep.tier, 81, 97))
    # 3. long seeded random programs over the full alphabet (names incl. "", two dependencies, two containers, all API forms)
    ioc_seq(rep, pool, "inst", "ioc-rand-inst", random=n(rep.tier, 100, 600), ops=30, seed_off=10, expect_known=True)
    ioc_seq(rep, pool, "local", "ioc-rand-local", random=n(rep.tier, 60, 400), ops=30, seed_off=11, expect_known=True)
    ioc_seq(rep, pool, "global", "ioc-rand-global", random=n(rep.tier, 24, 100), ops=30, seed_off=12, expect_known=True)
    # 4. concurrency: free-running threads, first resolution / re-registration / transient
    ioc_stress(rep, pool, "inst", "ioc-stress-inst", n(rep.tier, 150, 900), "2,4,8", "first,rereg,transient", seed_off=20,
               want=is_stress_first)
    ioc_stress(rep, pool, "global", "ioc-stress-global", n(rep.tier, 48, 240), "2,4,8", "first,rereg,transient", seed_off=21)
    #    a dependency cycle spread over threads (open finding FIOC1 lives here)
    ioc_stress(rep, pool, "inst", "ioc-stress-cycle", n(rep.tier, 6, 24), "2,3,8", "cycle", seed_off=22, expect_known=True,
               want=lambda h: '"hung"' in h[-2])
    # 5. the verdict: every history through IocTrace
    oracle_selftest(rep)
    validate_strict(rep, pool.strict)
    validate_expecting_known(rep, pool.known)
    rep.assumptions += IOC_ASSUME
    rep.extra["exhaustive_note"] = ("sequential registry transitions: exhaustive up to the stated bounds (see model_runs, "
                                    "`programs`); thread interleavings inside once_cell/dashmap: OS-chosen, not exhaustive")


RECIPES = {"C18": C18}
