"""Per-property recipes. Each returns a Report; ./check turns it into verdict + evidence."""
import hashlib
import json
import os
import time

from . import common as C

ALL_CHAN = ["spsc_b", "spsc_b_async", "mpsc_b", "mpsc_b_async", "mpsc_u", "mpsc_u_async", "mpmc_b", "mpmc_b_async",
            "mpmc_u", "mpmc_u_async", "spsc_rv", "spsc_rv_async", "mpsc_rv", "mpsc_rv_async", "mpmc_rv",
            "mpmc_rv_async", "oneshot"]
BOUNDED = ["spsc_b", "spsc_b_async", "mpsc_b", "mpsc_b_async", "mpmc_b", "mpmc_b_async", "spsc_rv", "mpsc_rv", "mpmc_rv",
           "spsc_rv_async", "mpsc_rv_async", "mpmc_rv_async", "oneshot"]
ALL_PLUS = ALL_CHAN + ["spmc_b", "spmc_b_async"]   # point-to-point flavours + the broadcast ring
BATCH_MP = ["mpsc_b", "mpsc_b_async", "mpmc_b", "mpmc_b_async", "mpsc_u", "mpmc_u"]
ASYNC = [f for f in ALL_CHAN if f.endswith("_async")] + ["oneshot"]


class Report:
    def __init__(self, prop, tier, seed):
        self.prop, self.tier, self.seed = prop, tier, seed
        self.mc = []            # model_check results
        self.validated = 0      # histories validated against Layer A
        self.accepted = 0
        self.known = []         # dict(finding, detail)
        self.violations = []    # dict(what, replay payload)
        self.samples = []
        self.assumptions = []
        self.extra = {}
        self.inconclusive = []
        self.t0 = time.time()


# --------------------------------------------------------------------------- MC cache
def _sha(paths):
    h = hashlib.sha1()
    for p in sorted(paths):
        h.update(open(p, "rb").read())
    return h.hexdigest()[:16]


def mc_cached(area, module, cfg, deps, workers=8, timeout=1500, heap="8g"):
    """Model-checks specs/<area>/<module> with <cfg>; the result only depends on the
    spec files, so it is cached under .work/mccache keyed by their hash."""
    sd = os.path.join(C.SPECS, area)
    files = [os.path.join(sd, module + ".tla"), os.path.join(sd, cfg)] + [os.path.join(sd, d) for d in deps]
    key = "%s_%s_%s" % (module, cfg.replace(".cfg", ""), _sha(files))
    cd = os.path.join(C.ROOT, ".work", "mccache")
    os.makedirs(cd, exist_ok=True)
    cp = os.path.join(cd, key + ".json")
    if os.path.exists(cp):
        r = json.load(open(cp))
        r["cached"] = True
        return r
    r = C.model_check(sd, module, cfg, workers=workers, timeout=timeout, heap=heap)
    if r["ok"]:
        tmp = cp + ".%d" % os.getpid()
        json.dump(r, open(tmp, "w"))
        os.replace(tmp, cp)
    return r


def add_mc(rep, r):
    rep.mc.append({k: r[k] for k in ("module", "cfg", "states", "transitions", "ok", "wall_s", "never_taken") if k in r})
    if not r["ok"]:
        # a model that fails its own check is a broken check, not a verdict about the code
        raise C.ToolError("model check failed: %s %s\n%s" % (r["module"], r["cfg"], r.get("out_tail", "")))


# --------------------------------------------------------------------------- channel histories
def chan_kf_for(known):
    def f(h):
        fl = json.loads(h[0]).get("fl", "")
        return [x["dev"] for x in known["findings"] if x.get("spec") == "chan" and fl in x.get("flavours", [])]
    return f


def validate_chan(rep, path, label, jobs=None):
    known = C.load_known()
    hs = C.split_histories(path)
    r = C.validate_histories(os.path.join(C.SPECS, "chan"), "ChanTrace", "ChanTrace.cfg", hs,
                             kf_for=chan_kf_for(known), jobs=jobs)
    rep.validated += r["validated"]
    rep.accepted += r["accepted"]
    for k in r["known"]:
        for d in k["devs"]:
            rep.known.append({"finding": d, "flavour": json.loads(hs[k["history"]][0]).get("fl"), "driver": label})
    for u in r.get("undecided", []):
        rep.inconclusive.append("%s: history %d not decided (%s)" % (label, u["history"], u.get("why", "second phase timed out")))
    for v in r["violations"]:
        h = hs[v["history"]]
        rep.violations.append({"what": "history rejected by Layer A (ChanTrace) at record %d: %s" % (v["record_index"], v["record"]),
                               "replay": {"kind": "chan-history", "spec": "chan/ChanTrace", "driver": label,
                                          "first_unmatched_record": v["record_index"], "history": h}})
    if hs and len(rep.samples) < 3:
        rep.samples.append({"driver": label, "history_head": [json.loads(x) for x in hs[0][:14]]})
    return r


def _phase(rep, label, t0, t1, t2):
    rep.extra.setdefault("phases", []).append({"label": label, "drive_s": round(t1 - t0, 1), "validate_s": round(t2 - t1, 1)})


def chan_seq(rep, flavours, programs, ops, caps, profiles, seed_off=0, label="chan-seq"):
    t0 = time.time()
    wd = C.workdir()
    out = os.path.join(wd, "%s_%d.ndjson" % (label, time.time_ns()))
    st = C.run_fv(["chan-seq", "--flavours", ",".join(flavours), "--programs", programs, "--ops", ops, "--seed",
                   rep.seed + seed_off, "--caps", ",".join(map(str, caps)), "--profiles", ",".join(profiles),
                   "--out", out], timeout=1800)
    rep.extra.setdefault("driver_stats", []).append(dict(st, driver=label))
    t1 = time.time()
    r = validate_chan(rep, out, label)
    _phase(rep, label, t0, t1, time.time())
    os.unlink(out)
    return r


def chan_sched(rep, flavours, runs, caps, shapes=("drain", "leave", "prefill"), strategies=("random", "pct"), seed_off=0,
               label="chan-sched"):
    """Multi-thread scenarios under the cooperative scheduler (yield point at every instrumented atomic / lock)."""
    t0 = time.time()
    wd = C.workdir()
    out = os.path.join(wd, "%s_%d.ndjson" % (label, time.time_ns()))
    st = C.run_fv(["chan-sched", "--flavours", ",".join(flavours), "--runs", runs, "--seed", rep.seed + seed_off,
                   "--caps", ",".join(map(str, caps)), "--shapes", ",".join(shapes), "--strategies",
                   ",".join(strategies), "--out", out], timeout=3000)
    rep.extra.setdefault("driver_stats", []).append(dict(st, driver=label))
    if st.get("stuck", 0) or st.get("step_limit", 0):
        rep.inconclusive.append("%s: %d runs stuck in the OS, %d hit the step limit (not judged)" % (
            label, st.get("stuck", 0), st.get("step_limit", 0)))
    t1 = time.time()
    r = validate_chan(rep, out, label)
    _phase(rep, label, t0, t1, time.time())
    os.unlink(out)
    return r


def chan_sys(rep, flavours, d, smax, caps=(1,), shapes=("drain",), seeds=(1,), producers=2, consumers=1, items=1,
             label="chan-sys"):
    """Systematic schedules: for small fixed scenarios every order of initial priorities x every set of d-1 priority
    change points (thread, thread-local step <= smax) is run (the PCT schedule space, enumerated instead of sampled).
    The program is fixed per scenario, so equal histories are validated once."""
    import concurrent.futures as cf
    t0 = time.time()
    parts = max(1, int(os.environ.get("VERIF_JOBS", "8")))
    wd = C.workdir()
    base = os.path.join(wd, "%s_%d" % (label, time.time_ns()))

    def one(i):
        out = "%s_%d.ndjson" % (base, i)
        st = C.run_fv(["chan-sys", "--flavours", ",".join(flavours), "--caps", ",".join(map(str, caps)), "--shapes",
                       ",".join(shapes), "--scenario-seeds", ",".join(map(str, seeds)), "--d", d, "--smax", smax,
                       "--producers", producers, "--consumers", consumers, "--items", items, "--part", i, "--parts", parts,
                       "--out", out], timeout=3000)
        return out, st
    with cf.ThreadPoolExecutor(parts) as ex:
        res = list(ex.map(one, range(parts)))
    tot = {}
    seen, uniq = set(), []
    for out, st in res:
        for k, v in st.items():
            if isinstance(v, int) and k not in ("d", "smax"):
                tot[k] = tot.get(k, 0) + v
        for h in C.split_histories(out):
            key = "\n".join(h)
            if key not in seen:
                seen.add(key)
                uniq.append(h)
        os.unlink(out)
    tot.update(driver=label, d=d, smax=smax, distinct_histories=len(uniq), flavours=list(flavours), caps=list(caps),
               shapes=list(shapes), scenario_seeds=list(seeds))
    rep.extra.setdefault("driver_stats", []).append(tot)
    rep.extra.setdefault("systematic", []).append(
        {"label": label, "space": "all priority orders x all sets of %d change points at thread-local steps 1..%d" % (d - 1, smax),
         "scenarios": len(flavours) * len(caps) * len(shapes) * len(seeds), "runs": tot.get("runs", 0), "exhaustive_in_space": True})
    if tot.get("stuck", 0) or tot.get("step_limit", 0):
        rep.inconclusive.append("%s: %d runs stuck in the OS, %d hit the step limit (not judged)" % (
            label, tot.get("stuck", 0), tot.get("step_limit", 0)))
    path = base + "_uniq.ndjson"
    with open(path, "w") as f:
        for h in uniq:
            f.write("\n".join(h) + "\n")
    t1 = time.time()
    r = validate_chan(rep, path, label)
    _phase(rep, label, t0, t1, time.time())
    os.unlink(path)
    return r


def chan_mc(rep, tier, kinds=("q", "rv", "os")):
    deps = ["ChanA.tla"]
    for k in kinds:
        cfg = "MC_ChanA_%s%s.cfg" % (k, "_quick" if tier == "quick" else "")
        add_mc(rep, mc_cached("chan", "MC_ChanA", cfg, deps))
    if "q" in kinds:
        # Layer P of the bounded mpsc credit-before-claim protocol (claim / overshoot tombstone / wake pairing)
        add_mc(rep, mc_cached("chan", "MpscBoundedP", "MC_MpscP.cfg", [], workers=2))
        add_mc(rep, mc_cached("chan", "MpscBoundedP", "MC_MpscP_k2.cfg", [], workers=4))
        # Layer P of the lock-based mpmc waiter / disconnect protocol (as repaired by af629bb)
        add_mc(rep, mc_cached("chan", "MpmcWaitP", "MC_MpmcWaitP.cfg", [], workers=4))
    if "os" in kinds:
        # Layer P of the oneshot state word protocol (as repaired: F13, F25, F26, F27)
        for c in ("MC_OneshotP.cfg", "MC_OneshotP_again.cfg", "MC_OneshotP_leave.cfg", "MC_OneshotP_leave1.cfg"):
            add_mc(rep, mc_cached("chan", "OneshotP", c, [], workers=2))
    if "rv" in kinds:
        # Layer P of the rendezvous hand-off / cancellation protocol (as fixed by 6a381f1)
        add_mc(rep, mc_cached("chan", "RendezvousP", "RendezvousP_fixed.cfg", [], workers=2))


CHAN_ASSUME = [
    "Layer A (specs/chan/ChanA.tla) is written from the property text; a history is judged only by TLC trace validation against it",
    "sequential consistency: yield points are the instrumented atomics/locks; a change that only weakens a memory ordering is invisible",
    "single-owner rule: a handle is used by one thread/task at a time; single-consumer receivers have one receive operation in flight",
    "chan-sys: exhaustive only inside the stated schedule space (priority orders x change-point sets at thread-local steps <= smax) of the listed small scenarios",
    "memory safety is observed only through Drop counts of the payloads",
]


# thorough volumes are the listed numbers times VERIF_THOROUGH_SCALE (default 0.1: the full numbers take many hours
# of TLC time per channel check); tuples (scenario seeds, capacities) are never scaled
THOROUGH_SCALE = float(os.environ.get("VERIF_THOROUGH_SCALE", "0.1"))


def n(tier, q, t):
    if tier == "quick":
        return q
    if isinstance(t, int) and isinstance(q, int) and t > 50:
        return max(q, int(t * THOROUGH_SCALE))
    return t


def C01(rep):
    chan_mc(rep, rep.tier, kinds=("q", "rv", "os", "bc"))
    chan_seq(rep, ALL_PLUS, n(rep.tier, 24, 400), 60, [1, 2, 3, 5], ["mix", "batch", "async"], label="chan-seq")
    chan_sched(rep, ALL_PLUS, n(rep.tier, 60, 1500), [1, 2], seed_off=11)
    # batch senders racing for runs of slots at the edge of the window (overshoot / tombstone paths)
    chan_sched(rep, BATCH_MP, n(rep.tier, 60, 1500), [1, 2, 3], shapes=("batchrace",), strategies=("pct", "random", "pct5"),
               seed_off=12, label="chan-sched-batchrace")
    t = rep.tier
    chan_sys(rep, ["mpsc_b", "mpmc_b"], 3, n(t, 10, 12), caps=(2,), shapes=("batchrace",), seeds=n(t, (1, 2), (1, 2, 3, 4)), items=3,
             label="chan-sys-batch")
    chan_sys(rep, ["mpsc_rv", "mpmc_rv", "mpsc_rv_async", "mpmc_rv_async", "mpsc_u", "mpmc_u"], 3, n(t, 8, 10),
             seeds=n(t, (1,), (1, 2)), label="chan-sys-handoff")
    rep.assumptions += CHAN_ASSUME


def C05(rep):
    chan_mc(rep, rep.tier)
    sync = [f for f in ALL_CHAN if not f.endswith("_async") and f != "oneshot"]
    chan_sched(rep, sync, n(rep.tier, 300, 6000), [1, 2, 3], strategies=("random", "pct", "pct5"), seed_off=606,
               label="chan-sched-sync")
    chan_sched(rep, sync, n(rep.tier, 160, 4000), [1], strategies=("pct5", "random", "pct"), seed_off=707,
               label="chan-sched-cap1")
    # consumers that take a quota and then either leave or keep their handle and wait for the producers:
    # progress of a parked sender must not depend on further receives
    chan_sched(rep, sync, n(rep.tier, 90, 3000), [2, 1, 3], shapes=("hold",), strategies=("pct", "random", "pct5"),
               seed_off=808, label="chan-sched-hold")
    # systematic PCT space of the smallest contended scenario (two producers, one item each, one consumer)
    t = rep.tier
    chan_sys(rep, ["mpsc_b"], 4, 8, caps=(1,), label="chan-sys-mpsc-d4")
    chan_sys(rep, ["mpmc_b", "mpsc_rv", "mpmc_rv", "mpsc_u", "mpmc_u", "spsc_b", "spsc_rv"], n(t, 3, 4), 8,
             caps=n(t, (1,), (1, 2)), label="chan-sys-sync")
    if t != "quick":
        chan_sys(rep, ["mpsc_b", "mpmc_b"], 4, 10, caps=(1,), shapes=("drain", "hold"), seeds=(1, 2), items=2,
                 label="chan-sys-deep")
    rep.assumptions += CHAN_ASSUME + [
        "a blocked thread is one the scheduler finds parked with no unpark pending after a grace period; spurious unparks are legal and used only to wind a run down"]


def C02(rep):
    chan_mc(rep, rep.tier, kinds=("q", "rv", "os", "bc"))
    # long programs force ring wrap, chunk reuse and slab recycling
    chan_seq(rep, [f for f in ALL_PLUS if "rv" not in f and f != "oneshot"], n(rep.tier, 12, 120), 400, [1, 3, 5, 7],
             ["batch", "mix"], seed_off=101, label="chan-seq-long")
    # order under contention: two producers / two broadcast readers, systematic schedules
    t = rep.tier
    chan_sys(rep, ["spmc_b", "spmc_b_async"], 3, n(t, 12, 14), caps=(1, 2), producers=1, consumers=2, items=2, label="chan-sys-spmc")
    chan_sys(rep, ["mpsc_b", "mpmc_b", "mpsc_u", "mpmc_u"], 3, 8, caps=(2,), items=2, seeds=n(t, (1,), (1, 2, 3)), label="chan-sys-order")
    rep.assumptions += CHAN_ASSUME


def C03(rep):
    chan_mc(rep, rep.tier)
    chan_seq(rep, BOUNDED, n(rep.tier, 24, 400), 70, [1, 2, 3, 4], ["mix", "batch"], seed_off=202, label="chan-seq-bounded")
    chan_sched(rep, BOUNDED, n(rep.tier, 60, 2000), [1, 2, 3], shapes=("prefill", "drain"), seed_off=22)
    # more parked receivers / pending futures than capacity, non-power-of-two capacities first
    chan_seq(rep, [f for f in BOUNDED if f.endswith("_async")], n(rep.tier, 12, 300), 60, [3, 1, 5, 2], ["parked"],
             seed_off=203, label="chan-seq-parked")
    chan_sched(rep, ["mpmc_b", "mpmc_b_async", "mpmc_rv", "mpmc_rv_async"], n(rep.tier, 45, 1500), [3, 1, 2],
               shapes=("manyrx",), strategies=("pct", "random", "pct5"), seed_off=23, label="chan-sched-manyrx")
    if rep.tier != "quick":   # (quick: batchrace runs under C01)
        chan_sched(rep, [f for f in BATCH_MP if "_b" in f], 1500, [1, 2, 3], shapes=("batchrace",),
                   strategies=("pct", "random", "pct5"), seed_off=24, label="chan-sched-batchrace")
    t = rep.tier
    chan_sys(rep, ["mpsc_b", "mpmc_b"] + ([] if t == "quick" else ["mpsc_b_async", "mpmc_b_async"]), 3, n(t, 10, 12),
             caps=n(t, (2,), (2, 3)), shapes=("prefill",), seeds=(1, 2, 3, 4), label="chan-sys-prefill")
    rep.assumptions += CHAN_ASSUME


def C04(rep):
    chan_mc(rep, rep.tier)
    chan_seq(rep, ALL_PLUS, n(rep.tier, 40, 600), 50, [1, 2, 5], ["close", "teardown", "life"], seed_off=303, label="chan-seq-close")
    chan_sched(rep, ALL_PLUS, n(rep.tier, 60, 1500), [1, 2], shapes=("leave", "drain"), seed_off=33)
    add_mc(rep, mc_cached("topic", "MC_TopicA", "MC_TopicA_quick.cfg", ["TopicA.tla"], timeout=1800))
    topic_part(rep, n(rep.tier, 60, 1000), seed_off=3434)
    topic_part(rep, n(rep.tier, 300, 4000), seed_off=3535, mode="topic-thr")
    rep.assumptions += TOPIC_ASSUME
    t = rep.tier
    chan_sys(rep, ["mpsc_b", "mpmc_b", "mpsc_u", "mpmc_rv", "spsc_b", "oneshot"] +
             ([] if t == "quick" else ["mpmc_u", "mpsc_rv", "spsc_rv", "mpsc_b_async", "mpmc_b_async"]), 3, n(t, 8, 10),
             shapes=("leave",), seeds=n(t, (1, 2), (1, 2, 3, 4)), label="chan-sys-leave")
    rep.assumptions += CHAN_ASSUME


def C06(rep):
    chan_mc(rep, rep.tier)
    chan_seq(rep, ASYNC, n(rep.tier, 48, 600), 70, [1, 2, 3], ["async"], seed_off=404, label="chan-seq-async")
    chan_sched(rep, ASYNC, n(rep.tier, 90, 2000), [1, 2], seed_off=44, label="chan-sched-async")
    chan_seq(rep, [f for f in ASYNC if f != "oneshot"] + ["spmc_b_async"], n(rep.tier, 48, 600), 70, [3, 1, 2], ["parked"], seed_off=405,
             label="chan-seq-parked")
    t = rep.tier
    chan_sys(rep, ["mpsc_b_async", "mpmc_b_async", "mpsc_rv_async", "mpmc_rv_async", "mpmc_u_async", "mpsc_u_async",
                   "spsc_b_async", "oneshot"], n(t, 3, 4), 8, seeds=n(t, (1,), (1, 2)), label="chan-sys-async")
    rep.assumptions += CHAN_ASSUME


def C09(rep):
    chan_mc(rep, rep.tier)
    chan_seq(rep, ALL_PLUS, n(rep.tier, 40, 500), 50, [1, 2, 5], ["teardown", "batch", "async", "life"], seed_off=505,
             label="chan-seq-teardown")
    chan_sched(rep, ALL_PLUS, n(rep.tier, 45, 1000), [1, 2], shapes=("leave",), seed_off=55)
    t = rep.tier
    chan_sys(rep, ["mpsc_b", "mpmc_b", "mpmc_rv", "mpsc_u"] + ([] if t == "quick" else ["mpmc_u", "mpsc_rv", "spsc_b", "spsc_rv"]),
             3, 8, shapes=("leave",), seeds=n(t, (3, 4), (3, 4, 5, 6)), items=2, label="chan-sys-teardown")
    rep.assumptions += CHAN_ASSUME


def C07(rep):
    chan_mc(rep, rep.tier, kinds=("bc",))
    bc = ["spmc_b", "spmc_b_async"]
    chan_seq(rep, bc, n(rep.tier, 60, 800), 70, [1, 2, 3, 5], ["mix", "batch", "close", "async"], seed_off=808, label="spmc-seq")
    chan_sched(rep, bc, n(rep.tier, 120, 3000), [1, 2, 3], seed_off=909, label="spmc-sched")
    t = rep.tier
    chan_sys(rep, bc, 3, n(t, 12, 14), caps=(1, 2), producers=1, consumers=2, items=2, shapes=("drain", "leave"),
             label="chan-sys-spmc")
    rep.assumptions += CHAN_ASSUME + ["broadcast payloads are cloned per receiver; only the stored original's destruction is observed (at most once)"]


def topic_part(rep, programs, seed_off=1212, mode="topic-seq", extra=(), label=None):
    """Topic histories (driver `mode`) validated against TopicA / TopicTrace."""
    label = label or mode
    known = C.load_known()
    kf = [x["dev"] for x in known["findings"] if x.get("spec") == "topic"]
    wd = C.workdir()
    out = os.path.join(wd, "topic_%d.ndjson" % time.time_ns())
    t0 = time.time()
    st = C.run_fv([mode, "--programs", programs, "--ops", 70, "--seed", rep.seed + seed_off,
                   "--caps", "1,2,3", "--out", out] + list(extra), timeout=3000)
    rep.extra.setdefault("driver_stats", []).append(dict(st, driver=label))
    hs = C.split_histories(out)
    t1 = time.time()
    r = C.validate_histories(os.path.join(C.SPECS, "topic"), "TopicTrace", "TopicTrace.cfg", hs, kf_for=lambda h: kf)
    _phase(rep, label, t0, t1, time.time())
    rep.validated += r["validated"]
    rep.accepted += r["accepted"]
    for k in r["known"]:
        for d in k["devs"]:
            rep.known.append({"finding": d, "flavour": json.loads(hs[k["history"]][0]).get("fl"), "driver": label, "spec": "topic"})
    for u in r.get("undecided", []):
        rep.inconclusive.append("%s: history %d not decided (%s)" % (label, u["history"], u.get("why", "second phase timed out")))
    for v in r["violations"]:
        rep.violations.append({"what": "history rejected by Layer A (TopicTrace) at record %d: %s" % (v["record_index"], v["record"]),
                               "replay": {"kind": "topic-history", "spec": "topic/TopicTrace", "driver": label,
                                          "first_unmatched_record": v["record_index"], "history": hs[v["history"]]}})
    if hs and len(rep.samples) < 4:
        rep.samples.append({"driver": label, "history_head": [json.loads(x) for x in hs[0][:14]]})
    os.unlink(out)
    return r


TOPIC_ASSUME = ["topic-seq: sequential histories (one thread, futures polled explicitly); the topic module uses parking_lot/papaya directly, "
                "which the scheduler does not see, so concurrent topic scenarios (topic-thr) run free under the OS scheduler",
                "Layer A (specs/topic/TopicA.tla) is written from the property text"]


def C08(rep):
    add_mc(rep, mc_cached("topic", "MC_TopicA", "MC_TopicA_quick.cfg", ["TopicA.tla"], timeout=1800))
    if rep.tier != "quick":
        # two topics, three messages: 2.4 M distinct states (two topics with four messages exceed 10^8)
        add_mc(rep, mc_cached("topic", "MC_TopicA", "MC_TopicA_full.cfg", ["TopicA.tla"], timeout=2400))
    topic_part(rep, n(rep.tier, 120, 2000))
    # receiver threads parked in blocking receives (sync, timed, async) while the senders publish and leave
    topic_part(rep, n(rep.tier, 400, 6000), seed_off=1313, mode="topic-thr")
    rep.assumptions += TOPIC_ASSUME


def _validate_simple(rep, area, module, path, label):
    hs = C.split_histories(path)
    r = C.validate_histories(os.path.join(C.SPECS, area), module, module + ".cfg", hs)
    rep.validated += r["validated"]
    rep.accepted += r["accepted"]
    for v in r["violations"]:
        rep.violations.append({"what": "history rejected by Layer A (%s) at record %d: %s" % (module, v["record_index"], v["record"]),
                               "replay": {"kind": area + "-history", "spec": "%s/%s" % (area, module), "driver": label,
                                          "first_unmatched_record": v["record_index"], "history": hs[v["history"]]}})
    if hs and len(rep.samples) < 3:
        rep.samples.append({"driver": label, "history_head": [json.loads(x) for x in hs[0][:16]]})
    return r


def C10(rep):
    for cfg in (["MC_LockA_mutex_full.cfg", "MC_LockA_rwlock_quick.cfg"] if rep.tier == "quick"
                else ["MC_LockA_mutex_full.cfg", "MC_LockA_rwlock_full.cfg"]):
        add_mc(rep, mc_cached("lock", "MC_LockA", cfg, ["LockA.tla"], workers=4))
    wd = C.workdir()
    out = os.path.join(wd, "lockseq_%d.ndjson" % time.time_ns())
    st = C.run_fv(["lock-seq", "--programs", n(rep.tier, 120, 3000), "--ops", 80, "--seed", rep.seed + 31, "--out", out], timeout=3000)
    rep.extra.setdefault("driver_stats", []).append(dict(st, driver="lock-seq"))
    _validate_simple(rep, "lock", "LockTrace", out, "lock-seq")
    os.unlink(out)
    out = os.path.join(wd, "locksched_%d.ndjson" % time.time_ns())
    st = C.run_fv(["lock-sched", "--runs", n(rep.tier, 400, 12000), "--seed", rep.seed + 32, "--out", out], timeout=3000)
    rep.extra.setdefault("driver_stats", []).append(dict(st, driver="lock-sched"))
    if st.get("stuck", 0) or st.get("step_limit", 0):
        rep.inconclusive.append("lock-sched: %d stuck, %d step-limit runs not judged" % (st.get("stuck", 0), st.get("step_limit", 0)))
    _validate_simple(rep, "lock", "LockTrace", out, "lock-sched")
    os.unlink(out)
    rep.assumptions += ["Layer A (specs/lock/LockA.tla) is written from the property text",
                        "mutual exclusion is judged from the order of acquire / release records (release announced before and confirmed after the guard drop), not from the lock's own state",
                        "writer-not-starved is checked as liveness of the abstract model under weak fairness only; on the code, schedules are sampled (random / PCT), fairness is not enforced",
                        "sequentially consistent interleavings only"]


def C15(rep):
    add_mc(rep, mc_cached("loader", "MC_LoaderA", "MC_LoaderA.cfg", ["LoaderA.tla"], workers=4))
    known = C.load_known()
    kf = [x["dev"] for x in known["findings"] if x.get("spec") == "loader"]
    wd = C.workdir()
    out = os.path.join(wd, "loader_%d.ndjson" % time.time_ns())
    st = C.run_fv(["loader-sched", "--runs", n(rep.tier, 600, 12000), "--seed", rep.seed + 1515, "--out", out], timeout=3000)
    rep.extra.setdefault("driver_stats", []).append(dict(st, driver="loader-sched"))
    if st.get("stuck", 0) or st.get("step_limit", 0):
        rep.inconclusive.append("loader-sched: %d stuck, %d step-limit runs not judged" % (st.get("stuck", 0), st.get("step_limit", 0)))
    hs = C.split_histories(out)
    r = C.validate_histories(os.path.join(C.SPECS, "loader"), "LoaderTrace", "LoaderTrace.cfg", hs, kf_for=lambda h: kf)
    rep.validated += r["validated"]
    rep.accepted += r["accepted"]
    for k in r["known"]:
        for d in k["devs"]:
            rep.known.append({"finding": d, "flavour": "cache-loader", "driver": "loader-sched", "spec": "loader"})
    for v in r["violations"]:
        rep.violations.append({"what": "history rejected by Layer A (LoaderTrace) at record %d: %s" % (v["record_index"], v["record"]),
                               "replay": {"kind": "loader-history", "spec": "loader/LoaderTrace", "driver": "loader-sched",
                                          "first_unmatched_record": v["record_index"], "history": hs[v["history"]]}})
    if hs:
        rep.samples.append({"driver": "loader-sched", "history_head": [json.loads(x) for x in hs[min(3, len(hs) - 1)][:14]]})
    os.unlink(out)
    rep.assumptions += ["two thirds of the scenarios use the thread-based loader (its threads are adopted through a guarded hook), one third an AsyncCache "
                        "with an async loader whose tasks run on scheduler-managed threads (the driver's own TaskSpawner; no tokio)",
                        "the cache's loader thread is adopted by the scheduler through a guarded hook; invalidation is exercised in single-thread scenarios only",
                        "Layer A (specs/loader/LoaderA.tla) is written from the property text"]


RECIPES = {"C15": C15, "C10": C10, "C08": C08, "C07": C07, "C01": C01, "C02": C02, "C03": C03, "C04": C04, "C05": C05, "C06": C06, "C09": C09}
