"""Recipes of the logging area: C19 (routing + pipeline) and C20 (encoders + rolling files).

Specs: specs/log/{RouteA,PipeA,RollerA,EscapeA}.tla (Layer A), {Route,Pipe,Roller,Enc}Trace.tla (trace validation),
MC_*.tla (bounded exploration).  Driver: harness/logx (binary fv-logx).
"""
import concurrent.futures as cf
import hashlib
import json
import os
import re
import time

from . import common as C
from . import props as P

SD = os.path.join(C.SPECS, "log")
BIN = "fv-logx"
WORKERS = 6


def _n(rep, q, t):
    return q if rep.tier == "quick" else t


def _kf():
    """dev ids of the open known findings of this area (deviation actions the trace specs may use)."""
    return sorted(f["dev"] for f in C.load_known().get("findings", []) if f.get("spec") == "log")


def _tmp():
    d = os.path.join(C.workdir(), "tmp")
    os.makedirs(d, exist_ok=True)
    return d


# --------------------------------------------------------------------------- model checking
def _mc(rep, module, cfg, deps, timeout=1500):
    r = P.mc_cached("log", module, cfg, deps, workers=WORKERS, timeout=timeout, heap="6g")
    P.add_mc(rep, r)
    if r.get("never_taken"):
        raise C.ToolError("vacuous model: actions never taken in %s/%s: %s" % (module, cfg, r["never_taken"]))
    return r


def _sha(paths):
    h = hashlib.sha1()
    for p in sorted(paths):
        h.update(open(p, "rb").read())
    return h.hexdigest()[:16]


def _tlc_dump(rep, module, cfg, deps, tag, timeout=1500):
    """Runs an MC config that prints <<"TAG", "<json>">> lines (the inputs TLC enumerates for the driver);
    returns the path of an ndjson file with the printed values. Cached by the hash of the spec files."""
    files = [os.path.join(SD, module + ".tla"), os.path.join(SD, cfg)] + [os.path.join(SD, d) for d in deps]
    key = "%s_%s_%s" % (module, cfg.replace(".cfg", ""), _sha(files))
    cd = os.path.join(C.ROOT, ".work", "mccache")
    os.makedirs(cd, exist_ok=True)
    meta, data = os.path.join(cd, key + ".json"), os.path.join(cd, key + ".ndjson")
    if os.path.exists(meta) and os.path.exists(data):
        r = json.load(open(meta))
        r["cached"] = True
    else:
        t0 = time.time()
        code, out = C.tlc(SD, module, cfg, workers=WORKERS, timeout=timeout, heap="6g",
                          env={"JAVA_TOOL_OPTIONS": "-Xss64m -XX:+UseParallelGC -Xmx6g"})
        states, gen = C.tlc_stats(out)
        ok = code == 0 and "No error has been found" in out
        r = {"module": module, "cfg": cfg, "states": states, "transitions": gen, "ok": ok, "exit": code,
             "wall_s": round(time.time() - t0, 1), "never_taken": []}
        if not ok:
            r["out_tail"] = out[-3000:]
            P.add_mc(rep, r)  # raises ToolError
        vals = []
        for m in re.finditer(r'^<<"%s", (".*")>>$' % tag, out, re.M):
            vals.append(json.loads(m.group(1)))  # a TLA+ string literal holding JSON text
        r["dumped"] = len(vals)
        tmp = data + ".%d" % os.getpid()
        with open(tmp, "w") as f:
            f.write("\n".join(vals) + "\n")
        os.replace(tmp, data)
        json.dump(r, open(meta + ".%d" % os.getpid(), "w"))
        os.replace(meta + ".%d" % os.getpid(), meta)
    P.add_mc(rep, r)
    rep.extra.setdefault("tlc_enumerated_inputs", {})["%s/%s" % (module, cfg)] = r.get("dumped", 0)
    return data


# --------------------------------------------------------------------------- trace validation
def _validate(rep, module, path, label, batch_records=3000, jobs=WORKERS, sample=True):
    """Validates every history of `path` against specs/log/<module>. The histories already carry the `kf`
    list of the open known findings (given to the driver), and the trace specs use a deviation only where the
    strict reading fails, so one pass decides: REJECT = violation, DEV = known finding, else accepted."""
    t0 = time.time()
    hs = C.split_histories(path)
    batches, cur, n = [], [], 0
    for idx, h in enumerate(hs):
        cur.append(idx)
        n += len(h)
        if n >= batch_records:
            batches.append(cur)
            cur, n = [], 0
    if cur:
        batches.append(cur)

    skipped = [0]

    def run(batch):
        rejected, devs, runs = [], [], 0
        while batch:
            lines, bounds = [], []
            for idx in batch:
                bounds.append((len(lines) + 1, len(lines) + len(hs[idx]), idx))
                lines.extend(hs[idx])
            runs += 1
            ok, at, out = C._validate_batch(SD, module, module + ".cfg", lines, "l%d_%d" % (os.getpid(), time.time_ns()))
            for m in re.finditer(r'<<"DEV", "(\w+)", (\d+)>>', out):
                pos = int(m.group(2))
                if ok or pos < at:
                    hit = next((idx for lo, hi, idx in bounds if lo <= pos <= hi), None)
                    devs.append((m.group(1), hit))
            if ok:
                break
            pos = next(i for i, (lo, hi, idx) in enumerate(bounds) if lo <= at <= hi)
            lo, hi, idx = bounds[pos]
            rejected.append({"history": idx, "record_index": at - lo + 1, "record": lines[at - 1]})
            batch = batch[pos + 1:]
            if len(rejected) >= 12:
                # every rejection costs a TLC run; a dozen per batch decide the verdict, the rest is skipped
                skipped[0] += len(batch)
                break
        return rejected, devs, runs

    rejected, devs, runs = [], [], 0
    with cf.ThreadPoolExecutor(max_workers=jobs) as ex:
        for rj, dv, rn in ex.map(run, batches):
            rejected += rj
            devs += dv
            runs += rn
    rep.validated += len(hs) - skipped[0]
    rep.accepted += len(hs) - skipped[0] - len(rejected)
    seen = set()
    for dev, hit in devs:
        rep.known.append({"finding": dev, "flavour": label, "driver": label})
        if dev not in seen and hit is not None:
            seen.add(dev)
            rep.extra.setdefault("known_finding_examples", {}).setdefault(dev, {"driver": label, "history_head": hs[hit][:6]})
    for v in rejected[:40]:
        h = hs[v["history"]]
        rep.violations.append({
            "what": "history rejected by Layer A (%s) at record %d: %s" % (module, v["record_index"], v["record"][:600]),
            "replay": {"kind": "log-history", "spec": "log/" + module, "driver": label,
                       "first_unmatched_record": v["record_index"], "history": h}})
    if sample and hs and len(rep.samples) < 4:
        rep.samples.append({"driver": label, "history_head": [json.loads(x) for x in hs[min(1, len(hs) - 1)][:8]]})
    rep.extra.setdefault("validation", []).append(
        {"driver": label, "spec": module, "histories": len(hs), "records": sum(len(h) for h in hs),
         "rejected": len(rejected), "skipped_after_rejections": skipped[0], "deviations_used": len(devs), "tlc_runs": runs, "wall_s": round(time.time() - t0, 1)})
    return rejected


def _drive(rep, args, label, timeout=1800):
    out = os.path.join(C.workdir(), "%s_%d.ndjson" % (label, time.time_ns()))
    kf = _kf()
    t0 = time.time()
    st = C.run_fv(args + ["--out", out] + (["--kf", ",".join(kf)] if kf else []), timeout=timeout, binary=BIN)
    rep.extra.setdefault("driver_stats", []).append(dict(st, driver=label, wall_s=round(time.time() - t0, 1)))
    # children whose shutdown returned at the library's join deadline (overloaded machine) are not judged;
    # if that happens to more than a few, the run says nothing
    if st.get("deadline_exceeded", 0) > max(2, st.get("configs", 0) // 20):
        raise C.ToolError("%s: %d of %d children hit the shutdown deadline (machine overloaded?)" % (
            label, st["deadline_exceeded"], st.get("configs", 0)))
    return out, st


# --------------------------------------------------------------------------- C19
def C19(rep):
    # Layer A explored by TLC
    _mc(rep, "MC_RouteA", "MC_RouteA_quick.cfg", ["RouteA.tla"])
    _mc(rep, "MC_PipeA", "MC_PipeA_quick.cfg" if rep.tier == "quick" else "MC_PipeA.cfg", ["PipeA.tla"])
    # routing, in process: the logger trees TLC enumerates, replayed on build_filter_for_appender + process_event
    cfgs = _tlc_dump(rep, "MC_RouteA", "MC_RouteA_dump_quick.cfg" if rep.tier == "quick" else "MC_RouteA_dump.cfg",
                     ["RouteA.tla"], "CFG")
    out, _ = _drive(rep, ["route-inproc", "--from", cfgs, "--group", 100], "route-inproc-tlc")
    _validate(rep, "RouteTrace", out, "route-inproc-tlc", batch_records=1500)
    os.unlink(out)
    # ... and seeded random trees with 3 loggers over all 6 levels
    out, _ = _drive(rep, ["route-inproc", "--random", _n(rep, 6000, 20000), "--seed", rep.seed, "--group", 100],
                    "route-inproc-random")
    _validate(rep, "RouteTrace", out, "route-inproc-random", batch_records=1500)
    os.unlink(out)
    # end to end in child processes: init_from_file, log + tracing macros, files and streams read back
    out, st = _drive(rep, ["e2e", "--mode", "route", "--configs", _n(rep, 40, 300), "--seed", rep.seed, "--jobs", 4,
                           "--tmp", _tmp()], "e2e-route")
    _validate(rep, "PipeTrace", out, "e2e-route")
    os.unlink(out)
    # pipeline: free-running emitters, shutdown / guard drop at a seeded moment
    out, st = _drive(rep, ["e2e", "--mode", "stress", "--configs", _n(rep, 100, 400), "--seed", rep.seed + 17, "--jobs", 4,
                           "--tmp", _tmp()], "e2e-shutdown")
    _validate(rep, "PipeTrace", out, "e2e-shutdown")
    os.unlink(out)
    rep.assumptions += [
        "Layer A: RouteA.Deliver is written from the C19 sentence (module paths = names split at '::', root = empty path); "
        "PipeA's predicates (exactly once, per-thread order, no accepted event lost, streams drain then disconnect) judge every history",
        "accepted = the emitting call returned before shutdown()/drop of the guard was called (both logged under one lock); "
        "events racing with shutdown may or may not arrive but are still checked for selection, order and duplicates",
        "in-process routing goes through the guarded accessor fibre_logging::verif::Router (real build_filter_for_appender + "
        "EventProcessor::process_event, with the log-bridge and tracing fast-path checks); the global subscriber is exercised by the child processes",
        "console appenders and the debug_report appender are not observed; only the blocking overflow policy is used end to end",
        "a child whose shutdown()/drop returned because the library's join deadline (10 s / 5 s) expired is not judged (counted as deadline_exceeded): "
        "the deadline is the documented escape for stuck writers and is only reached here on an overloaded machine",
        "emitter interleavings are chosen by the OS scheduler (small channel capacities, slow consumers and a seeded shutdown point widen the windows); not exhaustive",
    ]


# --------------------------------------------------------------------------- C20
ROLL_CFGS_QUICK = ["minutely:10:2:0", "never:10:1:-", "minutely:10:1:1", "hourly:10:0:-", "minutely:10:-:-", "daily:-:2:1"]
ROLL_CFGS_MORE = ["hourly:10:3:0", "daily:10:2:-", "never:10:-:0", "never:10:3:1", "minutely:-:1:-", "minutely:10:2:0:.zip",
                  "daily:10:1:0", "hourly:10:-:1"]


def _words(rep):
    return _tlc_dump(rep, "MC_EscapeA", "MC_EscapeA_quick.cfg" if rep.tier == "quick" else "MC_EscapeA.cfg",
                     ["EscapeA.tla"], "WORD")


def C20(rep):
    for r in ("rm1", "r1", "r2"):
        _mc(rep, "MC_RollerA", "MC_RollerA_%s%s.cfg" % (r, "_quick" if rep.tier == "quick" else ""), ["RollerA.tla"])
    # rolling files: (a) every canonical program up to a depth on the core policies, (b) deeper programs sampled and
    # longer random programs on all policies
    core = ROLL_CFGS_QUICK[:3] if rep.tier == "quick" else ROLL_CFGS_QUICK[:4]
    out, st = _drive(rep, ["roller", "--cfgs", ",".join(core), "--depth", _n(rep, 4, 5), "--programs", 100000,
                           "--seed", rep.seed, "--tmp", _tmp()], "roller-exhaustive")
    _validate(rep, "RollerTrace", out, "roller-exhaustive")
    os.unlink(out)
    rep.extra["roller_enumeration_exhaustive"] = {"depth": st.get("depth"), "policies": core, "exhaustive": bool(st.get("exhaustive"))}
    cfgs = ROLL_CFGS_QUICK + ([] if rep.tier == "quick" else ROLL_CFGS_MORE)
    out, st = _drive(rep, ["roller", "--cfgs", ",".join(cfgs), "--depth", _n(rep, 6, 7), "--programs", _n(rep, 120, 1500),
                           "--random", _n(rep, 25, 300), "--random-len", _n(rep, 30, 60), "--seed", rep.seed + 1,
                           "--tmp", _tmp()], "roller-sampled")
    _validate(rep, "RollerTrace", out, "roller-sampled")
    os.unlink(out)
    # encoders: class words enumerated by TLC, bytes judged by an independent JSON parser in the driver
    words = _words(rep)
    out, st = _drive(rep, ["enc-json", "--classes", words, "--random", _n(rep, 500, 5000), "--seed", rep.seed], "enc-json")
    _validate(rep, "EncTrace", out, "enc-json")
    os.unlink(out)
    out, st = _drive(rep, ["enc-pattern", "--random", _n(rep, 300, 5000), "--seed", rep.seed], "enc-pattern")
    _validate(rep, "EncTrace", out, "enc-pattern")
    os.unlink(out)
    rep.assumptions += [
        "byte-level validity of JSON is decided by an independent parser (serde_json) in the driver, a deliberate step outside TLA+ "
        "(DESIGN.md section 9); TLA+ (EscapeA) enumerates the input classes, EncTrace states what must hold of the parser's reading",
        "a non-finite float has no JSON literal: required is a valid record with the field present (null is accepted); its value is not compared",
        "RollerA leaves open when a roll happens and how keys relate to the clock; it demands whole records, no loss/duplicate/reorder in "
        "(period, sequence) name order, no reuse of an existing name, retention = newest N after every step",
        "the roller is driven through the guarded accessor fibre_logging::verif::Roller (new_at_time/write_internal with an injected clock) and "
        "observed after flush(); the clock only moves forward; I/O errors are not injected",
        "a record is a run of one symbol, so tearing/duplication is visible in the bytes; compressed files are read through gzip",
    ]


RECIPES = {"C19": C19, "C20": C20}
