#!/bin/bash
# usage: confirm_mutant.sh <dir with patch.diff + demo*.rs> <crate> [--suite]
# Confirms in a scratch worktree: demo FAILS with the patch, PASSES without; optionally the crate's suite passes with it.
D=$1; CRATE=${2:-fibre}; SUITE=${3:-}
W=${MTC:-/tmp/mtc}
[ -d $W/repo ] || { mkdir -p $W; git -C /repo worktree add -q --detach $W/repo HEAD || exit 2; }
git -C $W/repo checkout -q --detach $(git -C /repo rev-parse HEAD); git -C $W/repo checkout -q -- .; git -C $W/repo clean -fdq -e target
case $CRATE in fibre) SUB=channels;; fibre_cache) SUB=cache;; fibre_ioc) SUB=ioc;; fibre_logging) SUB=logging;; esac
DEMO=$(ls $D/demo*.rs | head -1); T=zz_demo_$(basename $D)
cp $DEMO $W/repo/$SUB/tests/$T.rs
cd $W/repo
run_demo() { timeout 1500 cargo test -p $CRATE --offline -j 6 --test $T > $W/demo.log 2>&1; echo $?; }
git apply $D/patch.diff || { echo "APPLY-FAIL"; exit 2; }
with=$(run_demo)
git apply -R $D/patch.diff
without=$(run_demo)
res="demo_with_patch_exit=$with demo_without_patch_exit=$without"
if [ "$SUITE" = "--suite" ]; then
  git apply $D/patch.diff
  rm -f $SUB/tests/$T.rs
  timeout 3000 nice -n 10 cargo test -p $CRATE --offline -j 6 --no-fail-fast > $W/suite.log 2>&1
  fails=$(grep -E "^test .* FAILED|^test result: FAILED" $W/suite.log | grep -v "oneshot/mod.rs" | head -5 | tr '\n' ';')
  res="$res suite_failures=[${fails}]"
  git apply -R $D/patch.diff
fi
rm -f $SUB/tests/$T.rs
echo "$(basename $(dirname $(dirname $D)))/$(basename $D): $res"
