#!/bin/bash
# usage: mutate.sh <patch.diff> <property id>...   -- runs the quick checks against a scratch copy of /repo with the patch applied
set -u
PATCH=$1; shift
MT=${MT:-/tmp/mt}
if [ ! -d $MT/repo ]; then
  mkdir -p $MT; git -C /repo worktree add -q --detach $MT/repo HEAD || exit 2
fi
# bring the scratch worktree to /repo's HEAD
git -C $MT/repo checkout -q --detach $(git -C /repo rev-parse HEAD) && git -C $MT/repo checkout -q -- . || exit 2
mkdir -p $MT/harness
rsync -a --delete --exclude target /verif/harness/ $MT/harness/
find $MT/harness -name Cargo.toml | xargs sed -i "s#/repo/#$MT/repo/#g"
git -C $MT/repo apply "$PATCH" || { echo "patch does not apply"; exit 2; }
TAG=$(echo "$PATCH" | sed "s#[/.]#_#g" | tail -c 40)
mkdir -p $MT/out
rc=0
for P in "$@"; do
  VERIF_HARNESS=$MT/harness VERIF_OUT=$MT/out /verif/check $P --tier quick > $MT/out/${TAG}_$P.log 2>&1
  c=$?
  echo "$P exit=$c $(grep -c '^VIOLATION' $MT/out/${TAG}_$P.log) violation lines; $(grep -E '^\[C|INCONCLUSIVE' $MT/out/${TAG}_$P.log | tail -1 | cut -c1-300)"
  [ $c -ne 0 ] && rc=1
done
git -C $MT/repo checkout -q -- .
exit $rc
