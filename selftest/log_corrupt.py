"""Binding self-test of the log area: corrupt one field of a recorded history, TLC must reject it.
Usage: python3 /verif/selftest/log_corrupt.py   (needs harness/target/release/fv-logx)"""
import json,subprocess,os,re,tempfile
W=tempfile.mkdtemp(prefix='log_corrupt_', dir='/verif/.work')+'/'
B='/verif/harness/target/release/fv-logx'
def drv(*a): subprocess.run([B]+[str(x) for x in a],check=True,stdout=subprocess.DEVNULL)
drv('e2e','--mode','route','--configs',8,'--seed',1,'--tmp',W+'tmp','--out',W+'e1.ndjson')
drv('e2e','--mode','stress','--configs',12,'--seed',18,'--tmp',W+'tmp','--out',W+'s1.ndjson')
drv('route-inproc','--random',50,'--seed',3,'--kf','LOG_F25','--out',W+'r.ndjson')
drv('roller','--cfgs','minutely:10:2:0','--depth',4,'--programs',60,'--seed',1,'--tmp',W+'tmp','--out',W+'ro.ndjson')
open(W+'w.ndjson','w').write('["plain"]\n["quote","newline"]\n')
drv('enc-json','--classes',W+'w.ndjson','--out',W+'j.ndjson')
def tlc(module, path):
    env=dict(os.environ, TRACE=path, JAVA_TOOL_OPTIONS="-Xss1g -Dtlc2.tool.queue.IStateQueue=StateDeque")
    p=subprocess.run(["timeout","300","tlc","-workers","1","-metadir",W+"mdc","-cleanup","-noGenerateSpecTE","-config",module+".cfg",module+".tla"],cwd="/verif/specs/log",env=env,stdout=subprocess.PIPE,stderr=subprocess.STDOUT,text=True)
    m=re.search(r'<<"REJECT", (\d+),',p.stdout)
    if m: return "REJECT at record %s"%m.group(1)
    if "is violated" in p.stdout: return "INVARIANT violated"
    return "accepted" if "No error has been found" in p.stdout else "tool error: "+p.stdout[-300:]
def first_history(path, pred=lambda h: True):
    hs=[];cur=None
    for line in open(W+path):
        line=line.strip()
        if '"k":"new"' in line:
            if cur: hs.append(cur)
            cur=[]
        if cur is not None: cur.append(line)
    hs.append(cur)
    return next(h for h in hs if pred(h))
def write(h,name):
    open(W+name,'w').write("\n".join(h)+"\n"); return W+name
res=[]
h=first_history('e1.ndjson', lambda h: any('"k":"file"' in l and len(json.loads(l)['es'])>2 for l in h))
res.append(("PipeTrace original", tlc("PipeTrace", write(h,'c0.ndjson'))))
def mut_file(f):
    h2=list(h)
    for i,l in enumerate(h2):
        r=json.loads(l)
        if r['k']=='file' and len(r['es'])>2:
            f(r); h2[i]=json.dumps(r); break
    return h2
def rm(r): r['es']=r['es'][:1]+r['es'][2:]
def sw(r): r['es'][0],r['es'][1]=r['es'][1],r['es'][0]
def du(r): r['es'].append(r['es'][0])
res.append(("PipeTrace: one event removed from a file (loss)", tlc("PipeTrace", write(mut_file(rm),'c1.ndjson'))))
res.append(("PipeTrace: two events of one thread swapped (order)", tlc("PipeTrace", write(mut_file(sw),'c1.ndjson'))))
res.append(("PipeTrace: event duplicated", tlc("PipeTrace", write(mut_file(du),'c1.ndjson'))))
hs=first_history('s1.ndjson', lambda h: sum('"k":"rv"' in l for l in h)>3 and any('"k":"rd"' in l for l in h))
res.append(("PipeTrace stress original", tlc("PipeTrace", write(hs,'c1.ndjson'))))
h5=list(hs)
ird=next(i for i,l in enumerate(h5) if '"k":"rd"' in l); a=json.loads(h5[ird])['a']
irv=max(i for i,l in enumerate(h5) if '"k":"rv"' in l and json.loads(l)['a']==a and i<ird)
h5[ird],h5[irv]=h5[irv],h5[ird]
res.append(("PipeTrace: value after Disconnected", tlc("PipeTrace", write(h5,'c1.ndjson'))))
h6=[l for l in hs if not ('"k":"rd"' in l)]
res.append(("PipeTrace: stream never disconnects", tlc("PipeTrace", write(h6,'c1.ndjson'))))
# move an `er` of an undelivered-later event? : mark shutdown earlier so that a lost accepted event would show: remove a delivered rv
h7=list(hs); irv=next(i for i,l in enumerate(h7) if '"k":"rv"' in l); del h7[irv]
res.append(("PipeTrace: accepted event missing on a stream", tlc("PipeTrace", write(h7,'c1.ndjson'))))
hr=first_history('r.ndjson'); hr=hr[:3]+[hr[-1]]
res.append(("RouteTrace original", tlc("RouteTrace", write(hr,'c1.ndjson'))))
r=json.loads(hr[2]); r['gt'][0][0]=(r['gt'][0][0]+1)%4; r['gl'][0][0]=r['gt'][0][0]
res.append(("RouteTrace: one delivery code changed", tlc("RouteTrace", write(hr[:2]+[json.dumps(r)]+hr[3:],'c1.ndjson'))))
r=json.loads(hr[2]); r['gt'][2][1]=(r['gt'][2][1]+4)%16
res.append(("RouteTrace: log and tracing differ", tlc("RouteTrace", write(hr[:2]+[json.dumps(r)]+hr[3:],'c1.ndjson'))))
ho=first_history('ro.ndjson', lambda h: any('"k":"w"' in l and len(json.loads(l)['files'])>=2 for l in h))
res.append(("RollerTrace original", tlc("RollerTrace", write(ho,'c1.ndjson'))))
def mut_roller(f):
    h=list(ho)
    for i,l in enumerate(h):
        r=json.loads(l)
        if r['k']=='w' and len(r['files'])>=2:
            f(r); h[i]=json.dumps(r); break
    return h
def swap(r): r['files'][0]['ids'],r['files'][1]['ids']=r['files'][1]['ids'],r['files'][0]['ids']
def torn(r): r['files'][0]['ids']=[-x for x in r['files'][0]['ids']]
def lose(r): r['files']=r['files'][1:]
def clob(r): r['files'][1]['s']=r['files'][0]['s']; r['files'][1]['p']=r['files'][0]['p']
for nm,f in (("contents of two rolled files swapped",swap),("torn record",torn),("a retained rolled file missing",lose),("two files with one name",clob)):
    res.append(("RollerTrace: "+nm, tlc("RollerTrace", write(mut_roller(f),'c1.ndjson'))))
hj=first_history('j.ndjson'); hj=hj[:3]+[hj[-1]]
res.append(("EncTrace original", tlc("EncTrace", write(hj,'c1.ndjson'))))
r=json.loads(hj[1]); r['one_line']=False; res.append(("EncTrace: not a single line", tlc("EncTrace", write([hj[0],json.dumps(r)]+hj[2:],'c1.ndjson'))))
r=json.loads(hj[1]); r['rt_message']=False; res.append(("EncTrace: message does not round-trip", tlc("EncTrace", write([hj[0],json.dumps(r)]+hj[2:],'c1.ndjson'))))
for a,b in res: print("%-62s %s"%(a,b))
import shutil; shutil.rmtree(W, ignore_errors=True)
