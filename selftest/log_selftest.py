#!/usr/bin/env python3
"""Self-test of the log area: hand-applied bugs in a scratch copy of /repo must be rejected by the quick oracle.

Setup (scratch, delete afterwards):
  mkdir -p /tmp/log_scratch && cd /tmp/log_scratch && cp -r /repo repo && rm -rf repo/target repo/.git
  mkdir -p h/.cargo && cp -r /verif/harness/logx h/logx && cp /verif/harness/Cargo.lock h/ && cp /verif/harness/.cargo/config.toml h/.cargo/
  printf '[workspace]\nmembers = ["logx"]\nresolver = "2"\n[profile.release]\ndebug = 1\nopt-level = 2\noverflow-checks = true\ndebug-assertions = true\n' > h/Cargo.toml
  sed -i 's#/repo/#/tmp/log_scratch/repo/#g' h/logx/Cargo.toml
Usage: python3 log_selftest.py [MUTANT ...|FIXES|BASE]   (FIXES applies the three fix candidates and validates strictly, kf=[])
"""
import json
import os
import subprocess
import sys
import time

sys.path.insert(0, "/verif")
from vlib import common as C
from vlib import props as P
from vlib import props_log as L

SCR = "/tmp/log_scratch"
C.HARNESS = SCR + "/h"
LOGSRC = SCR + "/repo/logging/src/"

MUTANTS = {
    "M1_no_boundary": ("subscriber/actor.rs", '.map_or(false, |rest| rest.is_empty() || rest.starts_with("::"))', ".is_some()", ["route"]),
    "M2_gate_off": ("subscriber/processor.rs", "Some((prefix, false)) => Some(prefix),", "Some((prefix, false)) if prefix.is_empty() => Some(prefix),", ["route"]),
    "M3_level_strict": ("subscriber/processor.rs", "Some((_, (level_filter, _))) => event_level <= *level_filter,", "Some((_, (level_filter, _))) => event_level < *level_filter,", ["route"]),
    "M4_log_bridge_level": ("subscriber/log_handler.rs", "Level::Debug => tracing_core::Level::DEBUG,", "Level::Debug => tracing_core::Level::TRACE,", ["e2e_route"]),
    "M5_no_final_drain": ("init.rs", "  while let Ok(bytes) = rx.try_recv() {\n    write_one(&mut *writer, &bytes, &mut is_dirty, appender_name, error_tx);\n  }\n  if is_dirty {", "  if is_dirty {", ["e2e_stress"]),
    "M6_streams_not_closed": ("subscriber/processor.rs", "ActorAction::SendEvent(sender) => {\n          let _ = sender.close();", "ActorAction::SendEvent(sender) => {\n          let _ = sender;", ["e2e_stress"]),
    "M7_time_roll_seq1": ("roller.rs", "let (period_for_rolled_file, next_sequence) = (self.current_period_start, last_sequence + 1);",
                          "let (period_for_rolled_file, next_sequence) = (self.current_period_start, if new_period_start > self.current_period_start { 1 } else { last_sequence + 1 });", ["roller"]),
    "M8_retention_oldest": ("roller.rs", "      .timestamp\n      .cmp(&self.timestamp)\n      .then_with(|| other.sequence.cmp(&self.sequence))", "      .timestamp\n      .cmp(&self.timestamp)\n      .then_with(|| self.sequence.cmp(&other.sequence))", ["roller"]),
    "M9_retention_plus_one": ("roller.rs", "for old_file in sorted_files.iter().skip(max_retained as usize) {", "for old_file in sorted_files.iter().skip(max_retained as usize + 1) {", ["roller"]),
    "M10_json_newline": ("encoders/json.rs", 'json_map.insert("message".to_string(), Value::String(msg.clone()));', 'json_map.insert("message".to_string(), Value::String(msg.replace(\'\\n\', " ")));', ["enc_json"]),
    "M11_json_key_case": ("encoders/json.rs", ".map(|(key, log_value)| (key.clone(), Self::log_value_to_json_value(log_value)))", ".map(|(key, log_value)| (key.to_lowercase(), Self::log_value_to_json_value(log_value)))", ["enc_json"]),
    "M12_pattern_truncate": ("encoders/pattern.rs", "    if content.len() >= width {\n      buf.push_str(content);\n      return;\n    }", "    if content.len() >= width {\n      buf.push_str(&content[..width]);\n      return;\n    }", ["enc_pattern"]),
    "M13_double_dispatch": ("subscriber/processor.rs", "        ActorAction::SendEvent(sender) => event_senders.push((actor, sender)),", "        ActorAction::SendEvent(sender) => {\n          event_senders.push((actor, sender));\n          if event.target.len() == 7 {\n            event_senders.push((actor, sender));\n          }\n        }", ["route"]),
}

FIXES = [
    ("encoders/pattern.rs", "let width = padding.abs() as usize;",
     "// `{:>width$}` panics above u16::MAX and `abs()` overflows on i32::MIN: clamp instead.\n    let width = (padding.unsigned_abs() as usize).min(u16::MAX as usize);"),
    ("encoders/json.rs", """        for (key, log_value) in &event.fields {
          // Avoid overwriting core fields if a custom field has the same name
          if !json_map.contains_key(key) {
            json_map.insert(key.clone(), Self::log_value_to_json_value(log_value));
          }
        }""", """        // A custom field whose name collides with a key written above (or with "fields" itself) keeps its
        // value under the nested "fields" object instead of being dropped.
        let mut collided = serde_json::Map::new();
        for (key, log_value) in &event.fields {
          if json_map.contains_key(key) || key == "fields" {
            collided.insert(key.clone(), Self::log_value_to_json_value(log_value));
          } else {
            json_map.insert(key.clone(), Self::log_value_to_json_value(log_value));
          }
        }
        if !collided.is_empty() {
          json_map.insert("fields".to_string(), Value::Object(collided));
        }"""),
    ("subscriber/actor.rs", "fn target_matches_prefix(target: &str, prefix: &str) -> bool {", "pub(crate) fn target_matches_prefix(target: &str, prefix: &str) -> bool {"),
    ("subscriber/processor.rs", "  max_level: LevelFilter,\n}\n", "  max_level: LevelFilter,\n  /// Every configured logger (name, additive), whether or not it names an appender.\n  all_loggers: Vec<(String, bool)>,\n}\n"),
    ("subscriber/processor.rs", "      error_tx,\n      max_level,\n    }\n  }\n", "      error_tx,\n      max_level,\n      all_loggers: Vec::new(),\n    }\n  }\n\n  pub(crate) fn with_loggers(mut self, loggers: Vec<(String, bool)>) -> Self {\n    self.all_loggers = loggers;\n    self\n  }\n"),
    ("subscriber/processor.rs", "    let non_additive_gate: Option<&str> = match winner {", "    // Loggers that name no appender appear in no rule map but still decide additivity.\n    for (name, additive) in &self.all_loggers {\n      if crate::subscriber::actor::target_matches_prefix(metadata.target(), name)\n        && winner.map_or(true, |(wp, _)| name.len() > wp.len())\n      {\n        winner = Some((name.as_str(), *additive));\n      }\n    }\n    let non_additive_gate: Option<&str> = match winner {"),
    ("init.rs", "  let processor = Arc::new(EventProcessor::new(actors, error_tx_channel));", "  let processor = Arc::new(EventProcessor::new(actors, error_tx_channel).with_loggers(\n    internal_config\n      .loggers\n      .values()\n      .filter(|l| l.name != \"root\")\n      .map(|l| (l.name.clone(), l.additive))\n      .collect(),\n  ));"),
    # the verification accessor builds the processor the same way
    ("init.rs", "    Router {\n      processor: EventProcessor::new(actors, None),", "    Router {\n      processor: EventProcessor::new(actors, None).with_loggers(\n        config.loggers.values().filter(|l| l.name != \"root\").map(|l| (l.name.clone(), l.additive)).collect(),\n      ),"),
]


def sh(cmd, **kw):
    return subprocess.run(cmd, shell=True, stdout=subprocess.PIPE, stderr=subprocess.STDOUT, text=True, **kw)


def build():
    p = sh("cd %s/h && cargo build --release --offline -q -p fv-logx 2>&1 | grep -E '^error' -A12 | head -40" % SCR)
    if p.stdout.strip():
        raise RuntimeError("build failed:\n" + p.stdout)


def patch(file, old, new):
    p = LOGSRC + file
    s = open(p).read()
    assert s.count(old) == 1, "%s: pattern occurs %d times" % (file, s.count(old))
    open(p, "w").write(s.replace(old, new))


def restore():
    sh("cd %s && rm -rf repo/logging/src && cp -r /repo/logging/src repo/logging/src" % SCR)


def steps(rep, names):
    for nme in names:
        if nme == "route":
            out, _ = L._drive(rep, ["route-inproc", "--random", 1500, "--seed", 5, "--group", 100], "route")
            L._validate(rep, "RouteTrace", out, "route", batch_records=1500)
        elif nme == "e2e_route":
            out, _ = L._drive(rep, ["e2e", "--mode", "route", "--configs", 16, "--seed", 5, "--jobs", 4, "--tmp", L._tmp()], "e2e-route")
            L._validate(rep, "PipeTrace", out, "e2e-route")
        elif nme == "e2e_stress":
            out, _ = L._drive(rep, ["e2e", "--mode", "stress", "--configs", 40, "--seed", 18, "--jobs", 4, "--tmp", L._tmp()], "e2e-shutdown")
            L._validate(rep, "PipeTrace", out, "e2e-shutdown")
        elif nme == "roller":
            out, _ = L._drive(rep, ["roller", "--cfgs", "minutely:10:2:0,never:10:1:-,minutely:10:1:1", "--depth", 4, "--programs", 100000, "--seed", 1, "--tmp", L._tmp()], "roller")
            L._validate(rep, "RollerTrace", out, "roller")
        elif nme == "enc_json":
            words = L._words(rep)
            out, _ = L._drive(rep, ["enc-json", "--classes", words, "--random", 300, "--seed", 1], "enc-json")
            L._validate(rep, "EncTrace", out, "enc-json")
        elif nme == "enc_pattern":
            out, _ = L._drive(rep, ["enc-pattern", "--random", 300, "--seed", 1], "enc-pattern")
            L._validate(rep, "EncTrace", out, "enc-pattern")
        os.unlink(out)


def run(name, names):
    rep = P.Report("selftest", "quick", 1)
    t0 = time.time()
    try:
        steps(rep, names)
        verdict = "CAUGHT" if rep.violations else "missed"
        first = rep.violations[0]["what"][:260] if rep.violations else ""
    except C.ToolError as e:
        verdict, first = "tool-error", str(e)[:300]
    known = sorted({k["finding"] for k in rep.known})
    print("%-24s %-8s histories=%d violations=%d known=%s  %.0fs\n      %s" % (name, verdict, rep.validated, len(rep.violations), known, time.time() - t0, first), flush=True)
    return verdict


def main():
    which = sys.argv[1:] or (list(MUTANTS) + ["FIXES", "BASE"])
    for name in which:
        restore()
        if name == "BASE":
            build()
            run("BASE(unchanged)", ["route", "e2e_route", "e2e_stress", "roller", "enc_json", "enc_pattern"])
        elif name == "FIXES":
            for f, o, n in FIXES:
                patch(f, o, n)
            build()
            L._kf = lambda: []   # strict: no deviation allowed
            run("FIXES(strict, kf=[])", ["route", "e2e_route", "e2e_stress", "enc_json", "enc_pattern"])
            L._kf = L.__dict__["_kf_orig"]
        else:
            f, o, n, st = MUTANTS[name]
            patch(f, o, n)
            build()
            run(name, st)
    restore()
    C.cleanup_workdir()


L.__dict__["_kf_orig"] = L._kf
if __name__ == "__main__":
    main()
