fn main() {
  eprintln!("fv-policyx: not built yet");
  std::process::exit(2);
}
