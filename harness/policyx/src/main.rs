//! fv-policyx: driver for property C14 (eviction policies).
//!
//! Replays call sequences on every built-in policy of `fibre_cache::policy` through the
//! `CachePolicy` trait and records what was called and what came back, as ndjson histories
//! for TLC trace validation against specs/policy/PolicyTrace.tla. The driver is the user of
//! the trait: it never computes an expected result.
//!
//!   --mode enum   --seqs FILE          replay every sequence of FILE (one JSON array of
//!                                      [op,a,b] calls per line, printed by MC_PolicySeq)
//!   --mode rand   --programs N --ops M --seed S   seeded random longer sequences, more keys
//!   --mode replay --prog '[[1,1,1],[4,1,0]]' [--inst arc/2]   one sequence, history on stdout
//!   --out FILE    ndjson histories        --policies lru,fifo,...   restrict the policies
//!
//! Identical histories of several policy instances are written once, with the list of the
//! instances in the `new` record.

use fibre_cache::policy::arc::ArcPolicy;
use fibre_cache::policy::clock::ClockPolicy;
use fibre_cache::policy::fifo::Fifo;
use fibre_cache::policy::lru::LruPolicy;
use fibre_cache::policy::null::NullPolicy;
use fibre_cache::policy::random::RandomPolicy;
use fibre_cache::policy::sieve::SievePolicy;
use fibre_cache::policy::slru::SlruPolicy;
use fibre_cache::policy::tinylfu::TinyLfuPolicy;
use fibre_cache::policy::{AdmissionDecision, CachePolicy};
use rand::rngs::StdRng;
use rand::{Rng, SeedableRng};
use std::collections::{BTreeMap, BTreeSet, HashMap};
use std::io::{BufRead, BufWriter, Write};
use std::panic::{catch_unwind, AssertUnwindSafe};
use std::sync::mpsc;
use std::sync::{Arc, Mutex};
use std::time::Duration;

type Pol = Box<dyn CachePolicy<u64, ()>>;

#[derive(Clone, Debug)]
struct Inst {
  name: &'static str,
  cap: u64,
}

impl Inst {
  fn label(&self) -> String {
    match self.name {
      "arc" | "slru" | "tinylfu" => format!("{}/{}", self.name, self.cap),
      _ => self.name.to_string(),
    }
  }
  fn build(&self) -> Pol {
    match self.name {
      "lru" => Box::new(LruPolicy::<u64>::new()),
      "fifo" => Box::new(Fifo::<u64>::new()),
      "sieve" => Box::new(SievePolicy::<u64>::new()),
      "clock" => Box::new(ClockPolicy::<u64>::new()),
      "random" => Box::new(RandomPolicy::<u64>::new()),
      "null" => Box::new(NullPolicy),
      "slru" => Box::new(SlruPolicy::<u64>::new(self.cap)),
      "arc" => Box::new(ArcPolicy::<u64>::new(self.cap as usize)),
      "tinylfu" => Box::new(TinyLfuPolicy::<u64>::new(self.cap)),
      other => panic!("unknown policy {other}"),
    }
  }
}

const ALL: [&str; 9] = ["lru", "fifo", "sieve", "clock", "slru", "arc", "tinylfu", "random", "null"];

fn parse_inst(s: &str) -> Inst {
  let (n, c) = match s.split_once('/') {
    Some((n, c)) => (n, c.parse().expect("capacity")),
    None => (s, 0),
  };
  let name = ALL.iter().find(|x| **x == n).unwrap_or_else(|| panic!("unknown policy {n}"));
  Inst { name, cap: c }
}

/// The instances every enumerated sequence is replayed on (3 keys, costs <= 3).
fn enum_instances(sel: &BTreeSet<String>) -> Vec<Inst> {
  let mut v = Vec::new();
  for n in ALL {
    if !sel.is_empty() && !sel.contains(n) {
      continue;
    }
    let caps: &[u64] = match n {
      "arc" => &[2, 4],
      "slru" => &[2, 10],
      "tinylfu" => &[0, 100, 300],
      _ => &[0],
    };
    for c in caps {
      v.push(Inst { name: n, cap: *c });
    }
  }
  v
}

#[derive(Clone, Copy, Debug)]
enum Call {
  Admit(u64, u64),
  Access(u64),
  Remove(u64),
  Evict(u64),
  Clear,
}

fn call_of(t: &[u64]) -> Call {
  match t[0] {
    1 => Call::Admit(t[1], t[2]),
    2 => Call::Access(t[1]),
    3 => Call::Remove(t[1]),
    4 => Call::Evict(t[1]),
    5 => Call::Clear,
    x => panic!("bad op code {x}"),
  }
}

fn arr(v: &[u64]) -> String {
  let s: Vec<String> = v.iter().map(|x| x.to_string()).collect();
  format!("[{}]", s.join(","))
}

/// Where the worker is: the history in progress, for the watchdog.
type Progress = Arc<Mutex<Vec<String>>>;

struct Runner {
  pol: Pol,
  told: HashMap<u64, u64>, // cost passed with the last on_admit of a key (argument bookkeeping only)
  body: Vec<String>,
  dead: bool,
  progress: Progress,
  head: String,
}

impl Runner {
  fn new(inst: &Inst, progress: Progress) -> Self {
    let head = format!(
      "{{\"k\":\"new\",\"pols\":[\"{}\"],\"inst\":[\"{}\"],\"caps\":[{}],\"kf\":[]}}",
      inst.name,
      inst.label(),
      inst.cap
    );
    *progress.lock().unwrap() = vec![head.clone()];
    Runner { pol: inst.build(), told: HashMap::new(), body: Vec::new(), dead: false, progress, head }
  }

  fn push(&mut self, s: String) {
    self.body.push(s);
  }

  /// Performs one call; returns the victims an admission nominated.
  fn step(&mut self, c: Call) -> Vec<u64> {
    if self.dead {
      return vec![];
    }
    // announce the call before making it, so that a hang is attributed to it
    *self.progress.lock().unwrap() = {
      let mut p = vec![self.head.clone()];
      p.extend(self.body.iter().cloned());
      p.push(format!("{{\"k\":\"hung\",\"op\":\"{:?}\"}}", c));
      p
    };
    let pol = &self.pol;
    let mut victims = vec![];
    let rec = match c {
      Call::Admit(k, cost) => {
        self.told.insert(k, cost);
        catch_unwind(AssertUnwindSafe(|| pol.on_admit(&k, cost))).map(|d| match d {
          AdmissionDecision::Admit => format!("{{\"k\":\"admit\",\"key\":{k},\"c\":{cost}}}"),
          AdmissionDecision::Reject => format!("{{\"k\":\"admit\",\"key\":{k},\"c\":{cost},\"d\":\"reject\",\"v\":[]}}"),
          AdmissionDecision::AdmitAndEvict(v) => {
            victims = v.clone();
            format!("{{\"k\":\"admit\",\"key\":{k},\"c\":{cost},\"d\":\"evict\",\"v\":{}}}", arr(&v))
          }
        })
      }
      Call::Access(k) => {
        // the cache passes the entry's cost: the cost of the key's last admission
        let cost = *self.told.get(&k).unwrap_or(&1);
        catch_unwind(AssertUnwindSafe(|| pol.on_access(&k, cost)))
          .map(|_| format!("{{\"k\":\"access\",\"key\":{k},\"c\":{cost}}}"))
      }
      Call::Remove(k) => {
        catch_unwind(AssertUnwindSafe(|| pol.on_remove(&k))).map(|_| format!("{{\"k\":\"remove\",\"key\":{k}}}"))
      }
      Call::Evict(n) => catch_unwind(AssertUnwindSafe(|| pol.evict(n)))
        .map(|(v, f)| format!("{{\"k\":\"evict\",\"n\":{n},\"v\":{},\"f\":{f}}}", arr(&v))),
      Call::Clear => catch_unwind(AssertUnwindSafe(|| pol.clear())).map(|_| "{\"k\":\"clear\"}".to_string()),
    };
    match rec {
      Ok(s) => self.push(s),
      Err(e) => {
        let msg = e.downcast_ref::<String>().cloned().or_else(|| e.downcast_ref::<&str>().map(|s| s.to_string()));
        let msg = serde_json::to_string(&msg.unwrap_or_default()).unwrap();
        self.push(format!("{{\"k\":\"panic\",\"op\":\"{:?}\",\"msg\":{}}}", c, msg));
        self.dead = true;
      }
    }
    victims
  }

  /// Returns the body; a history that did not die ends with an `end` record.
  fn finish(mut self) -> Vec<String> {
    if !self.dead {
      self.push("{\"k\":\"end\"}".to_string());
    }
    self.body
  }
}

#[derive(Default)]
struct Stats {
  programs: u64,
  histories: u64,
  groups: u64,
  records: u64,
  calls: u64,
  panics: u64,
}

struct Sink {
  tx: mpsc::Sender<String>,
  st: Stats,
}

impl Sink {
  /// Writes the histories of one program, identical bodies once.
  fn emit(&mut self, src: &str, id: u64, runs: Vec<(Inst, Vec<String>)>) {
    self.st.programs += 1;
    let mut groups: BTreeMap<Vec<String>, Vec<Inst>> = BTreeMap::new();
    for (i, b) in runs {
      self.st.histories += 1;
      self.st.calls += b.len() as u64;
      if b.last().map_or(false, |l| l.contains("\"k\":\"panic\"")) {
        self.st.panics += 1;
      }
      groups.entry(b).or_default().push(i);
    }
    let mut out = String::new();
    for (body, insts) in groups {
      let names: BTreeSet<&str> = insts.iter().map(|i| i.name).collect();
      let names: Vec<String> = names.iter().map(|n| format!("\"{n}\"")).collect();
      let labels: Vec<String> = insts.iter().map(|i| format!("\"{}\"", i.label())).collect();
      let caps: Vec<String> = insts.iter().map(|i| i.cap.to_string()).collect();
      out.push_str(&format!(
        "{{\"k\":\"new\",\"pols\":[{}],\"inst\":[{}],\"caps\":[{}],\"kf\":[],\"src\":\"{src}\",\"id\":{id}}}\n",
        names.join(","),
        labels.join(","),
        caps.join(",")
      ));
      self.st.groups += 1;
      self.st.records += 1 + body.len() as u64;
      for l in body {
        out.push_str(&l);
        out.push('\n');
      }
    }
    self.tx.send(out).ok();
  }
}

fn run_fixed(inst: &Inst, prog: &[Call], progress: &Progress) -> Vec<String> {
  let mut r = Runner::new(inst, progress.clone());
  for c in prog {
    r.step(*c);
  }
  r.finish()
}

fn parse_seq(line: &str) -> Vec<Call> {
  let v: Vec<Vec<u64>> = serde_json::from_str(line).expect("sequence line");
  v.iter().map(|t| call_of(t)).collect()
}

fn mode_enum(seqs: &str, sel: &BTreeSet<String>, sink: &mut Sink, progress: &Progress) {
  let insts = enum_instances(sel);
  let f = std::io::BufReader::new(std::fs::File::open(seqs).expect("open --seqs"));
  for (id, line) in f.lines().enumerate() {
    let line = line.unwrap();
    if line.trim().is_empty() {
      continue;
    }
    let prog = parse_seq(&line);
    let runs = insts.iter().map(|i| (i.clone(), run_fixed(i, &prog, progress))).collect();
    sink.emit("enum", id as u64, runs);
  }
}

/// A random program: a profile, then calls drawn from it; `janitor` makes the driver behave
/// like the cache's maintenance pass (victims of an admission are reported back with
/// on_remove); at the end the policy is drained with evict(1) until it nominates nothing.
fn mode_rand(programs: u64, ops: u64, seed: u64, sel: &BTreeSet<String>, sink: &mut Sink, progress: &Progress) {
  const COSTS: [&[u64]; 4] = [&[1], &[0, 1, 3], &[0, 1, 2, 3, 5, 8], &[1, 2, 50]];
  for p in 0..programs {
    let mut rng = StdRng::seed_from_u64(seed.wrapping_mul(0x9E37_79B9_7F4A_7C15).wrapping_add(p));
    let nkeys = rng.random_range(2..=9u64);
    let costs = COSTS[rng.random_range(0..COSTS.len())];
    let janitor = rng.random_bool(0.5);
    let len = rng.random_range(ops / 2..=ops);
    // weights: admit, access, remove, evict, clear
    let w: [u32; 5] = match rng.random_range(0..4) {
      0 => [50, 20, 10, 18, 2],
      1 => [35, 40, 5, 19, 1],
      2 => [60, 5, 5, 30, 0],
      _ => [30, 25, 25, 17, 3],
    };
    let total: u32 = w.iter().sum();
    let mut prog = Vec::new();
    for _ in 0..len {
      let mut x = rng.random_range(0..total);
      let mut kind = 0;
      for (i, wi) in w.iter().enumerate() {
        if x < *wi {
          kind = i;
          break;
        }
        x -= wi;
      }
      let k = rng.random_range(1..=nkeys);
      prog.push(match kind {
        0 => Call::Admit(k, costs[rng.random_range(0..costs.len())]),
        1 => Call::Access(k),
        2 => Call::Remove(k),
        3 => Call::Evict(match rng.random_range(0..10) {
          0 => 0,
          1..=5 => rng.random_range(1..=4),
          6..=8 => rng.random_range(1..=20),
          _ => 1000,
        }),
        _ => Call::Clear,
      });
    }
    let arc_cap = [1u64, 2, 3, 5, 8][rng.random_range(0..5)];
    let slru_cap = [0u64, 1, 4, 10, 50][rng.random_range(0..5)];
    let lfu_cap = [0u64, 1, 10, 100, 400, 1000][rng.random_range(0..6)];
    let mut runs = Vec::new();
    for n in ALL {
      if !sel.is_empty() && !sel.contains(n) {
        continue;
      }
      let inst = Inst { name: n, cap: match n { "arc" => arc_cap, "slru" => slru_cap, "tinylfu" => lfu_cap, _ => 0 } };
      let mut r = Runner::new(&inst, progress.clone());
      for c in &prog {
        let victims = r.step(*c);
        if janitor {
          for v in victims {
            r.step(Call::Remove(v));
          }
        }
      }
      // drain: what a janitor of a cache that must shrink to nothing would do
      for _ in 0..(nkeys + 2) {
        let before = r.body.len();
        r.step(Call::Evict(1));
        let empty = r.body.get(before).map_or(true, |l| l.contains("\"v\":[]"));
        if empty || r.dead {
          break;
        }
      }
      runs.push((inst, r.finish()));
    }
    sink.emit("rand", p, runs);
  }
}

fn main() {
  let args: Vec<String> = std::env::args().skip(1).collect();
  let mut kv: HashMap<String, String> = HashMap::new();
  let mut i = 0;
  while i + 1 < args.len() {
    kv.insert(args[i].trim_start_matches("--").to_string(), args[i + 1].clone());
    i += 2;
  }
  let get = |k: &str, d: &str| kv.get(k).cloned().unwrap_or_else(|| d.to_string());
  let mode = get("mode", "rand");
  let sel: BTreeSet<String> = get("policies", "").split(',').filter(|s| !s.is_empty()).map(|s| s.to_string()).collect();
  std::panic::set_hook(Box::new(|_| {}));

  if mode == "replay" {
    let prog = parse_seq(&get("prog", "[]"));
    let insts = match kv.get("inst") {
      Some(s) => s.split(',').map(parse_inst).collect(),
      None => enum_instances(&sel),
    };
    let progress: Progress = Arc::new(Mutex::new(vec![]));
    for inst in insts {
      let r = Runner::new(&inst, progress.clone());
      println!("{}", r.head);
      for l in run_fixed(&inst, &prog, &progress) {
        println!("{l}");
      }
    }
    return;
  }

  let out_path = get("out", "/dev/stdout");
  let mut out = BufWriter::new(std::fs::File::create(&out_path).expect("create --out"));
  let (tx, rx) = mpsc::channel::<String>();
  let (done_tx, done_rx) = mpsc::channel::<Stats>();
  let progress: Progress = Arc::new(Mutex::new(vec![]));
  let wp = progress.clone();
  let kv2 = kv.clone();
  let mode2 = mode.clone();
  std::thread::spawn(move || {
    let get = |k: &str, d: &str| kv2.get(k).cloned().unwrap_or_else(|| d.to_string());
    let mut sink = Sink { tx, st: Stats::default() };
    match mode2.as_str() {
      "enum" => mode_enum(&get("seqs", ""), &sel, &mut sink, &wp),
      "rand" => mode_rand(
        get("programs", "100").parse().unwrap(),
        get("ops", "40").parse().unwrap(),
        get("seed", "1").parse().unwrap(),
        &sel,
        &mut sink,
        &wp,
      ),
      m => {
        eprintln!("unknown mode {m}");
        std::process::exit(2);
      }
    }
    let Sink { tx, st } = sink;
    drop(tx);
    done_tx.send(st).ok();
  });

  // watchdog: a call that does not return within 20 s is recorded as `hung`
  let mut hung = 0u64;
  loop {
    match rx.recv_timeout(Duration::from_secs(20)) {
      Ok(chunk) => out.write_all(chunk.as_bytes()).unwrap(),
      Err(mpsc::RecvTimeoutError::Disconnected) => break,
      Err(mpsc::RecvTimeoutError::Timeout) => {
        for l in progress.lock().unwrap().iter() {
          writeln!(out, "{l}").unwrap();
        }
        hung = 1;
        break;
      }
    }
  }
  out.flush().unwrap();
  let st = if hung == 0 { done_rx.recv().unwrap_or_default() } else { Stats::default() };
  println!(
    "{{\"mode\":\"{}\",\"programs\":{},\"histories\":{},\"groups\":{},\"records\":{},\"calls\":{},\"panics\":{},\"hung\":{}}}",
    mode, st.programs, st.histories, st.groups, st.records, st.calls, st.panics, hung
  );
  std::process::exit(0);
}
