//! Rolling file appender (C20): the real `CustomRoller` with an injected clock (`fibre_logging::verif::Roller`)
//! in a scratch directory.  A program is a sequence of steps
//!     w<size>  write one record of that many bytes      ti  clock step inside the current period
//!     R        restart (drop the roller, open it again)  to  clock step into the next period
//! After every step the roller is flushed and the directory is projected to
//!     active file -> record ids,   rolled files -> (period index, sequence, compressed?) -> record ids
//! Record i is `size_i` copies of one symbol, so a file is parsed into runs; a run whose length is not a multiple
//! of the record size is a torn record and is logged as a negative id.  The driver never decides anything.

use crate::{Args, Rng};
use chrono::{DateTime, Duration as CDuration, NaiveDate, NaiveDateTime, TimeZone, Utc};
use fibre_logging::config::processed::{CompressionPolicyInternal, RollingPolicyInternal};
use fibre_logging::verif::Roller;
use serde_json::{json, Value};
use std::io::{Read, Write};
use std::path::Path;

const SYMS: &[u8] = b"abcdefghijklmnopqrstuvwxyzABCDEFGHIJKLMNOPQRSTUVWXYZ0123456789";
const PREFIX: &str = "app";
const SUFFIX: &str = ".log";

#[derive(Clone, Debug)]
pub struct RCfg {
  pub gran: String,        // never | minutely | hourly | daily
  pub limit: Option<u64>,  // max_file_size
  pub retain: Option<u32>, // max_retained_sequences
  pub comp: Option<u32>,   // Some(k): compression with k newest rolled files left uncompressed
  pub csuffix: String,
}

#[derive(Clone, Debug, PartialEq)]
pub enum Step {
  W(u64),
  TickIn,
  TickOver,
  Restart,
}

impl Step {
  fn label(&self) -> String {
    match self {
      Step::W(n) => format!("w{}", n),
      Step::TickIn => "ti".into(),
      Step::TickOver => "to".into(),
      Step::Restart => "R".into(),
    }
  }
}

fn period_len(gran: &str) -> i64 {
  match gran {
    "minutely" => 60,
    "hourly" => 3600,
    _ => 86400,
  }
}

/// Start of period 0. Chosen so that period 1 also crosses the hour and the day boundary.
fn p0(gran: &str) -> DateTime<Utc> {
  match gran {
    "minutely" => Utc.with_ymd_and_hms(2024, 2, 28, 23, 59, 0).unwrap(),
    "hourly" => Utc.with_ymd_and_hms(2024, 2, 28, 23, 0, 0).unwrap(),
    "daily" => Utc.with_ymd_and_hms(2024, 2, 28, 0, 0, 0).unwrap(),
    _ => Utc.with_ymd_and_hms(2024, 2, 28, 23, 59, 0).unwrap(),
  }
}

struct Clock {
  gran: String,
  period: i64,
  off: i64,
}

impl Clock {
  fn now(&self) -> DateTime<Utc> {
    p0(&self.gran) + CDuration::seconds(self.period * period_len(&self.gran) + self.off)
  }
  /// The abstract clock reading that goes into the history: the period index (always 0 without time rolling).
  fn abs(&self) -> i64 {
    if self.gran == "never" { 0 } else { self.period }
  }
}

fn parse_ts(s: &str) -> Option<NaiveDateTime> {
  NaiveDateTime::parse_from_str(s, "%Y-%m-%d_%H-%M-%S").ok().or_else(|| NaiveDate::parse_from_str(s, "%Y-%m-%d").ok().and_then(|d| d.and_hms_opt(0, 0, 0)))
}

/// Period index encoded in a rolled file name; None if it is not on the period grid.
fn period_of(ts: NaiveDateTime, gran: &str) -> Option<i64> {
  if gran == "never" {
    return if ts == DateTime::<Utc>::UNIX_EPOCH.naive_utc() { Some(0) } else { None };
  }
  let d = (Utc.from_utc_datetime(&ts) - p0(gran)).num_seconds();
  if d % period_len(gran) == 0 { Some(d / period_len(gran)) } else { None }
}

fn parse_runs(bytes: &[u8], sizes: &[u64]) -> Vec<i64> {
  // sizes[i-1] = size of record i; symbol of record i = SYMS[(i-1) % 62]
  let mut out = Vec::new();
  let mut i = 0;
  while i < bytes.len() {
    let b = bytes[i];
    let mut j = i;
    while j < bytes.len() && bytes[j] == b {
      j += 1;
    }
    let run = (j - i) as u64;
    match SYMS.iter().position(|s| *s == b).filter(|p| *p < sizes.len()) {
      Some(p) => {
        let id = (p + 1) as i64;
        let sz = sizes[p];
        if sz > 0 && run % sz == 0 {
          for _ in 0..run / sz {
            out.push(id);
          }
        } else {
          out.push(-id); // torn / partial record
        }
      }
      None => out.push(-1000), // bytes nobody wrote
    }
    i = j;
  }
  out
}

fn observe(dir: &Path, cfg: &RCfg, sizes: &[u64]) -> Value {
  let mut act: Vec<i64> = Vec::new();
  let mut files: Vec<(i64, u64, bool, Vec<i64>, String)> = Vec::new();
  let mut other: Vec<String> = Vec::new();
  let active = format!("{}{}", PREFIX, SUFFIX);
  let mut names: Vec<String> = std::fs::read_dir(dir).map(|rd| rd.flatten().map(|e| e.file_name().to_string_lossy().to_string()).collect()).unwrap_or_default();
  names.sort();
  for f in names {
    let p = dir.join(&f);
    if f == active {
      act = parse_runs(&std::fs::read(&p).unwrap_or_default(), sizes);
      continue;
    }
    // app.<ts>.<seq>.log[<csuffix>]
    let (stem, z) = match f.strip_suffix(cfg.csuffix.as_str()) {
      Some(s) if !cfg.csuffix.is_empty() && cfg.comp.is_some() => (s.to_string(), true),
      _ => (f.clone(), false),
    };
    let parsed = stem
      .strip_prefix(&format!("{}.", PREFIX))
      .and_then(|r| r.strip_suffix(SUFFIX))
      .and_then(|mid| mid.rsplit_once('.'))
      .and_then(|(ts, seq)| Some((parse_ts(ts)?, seq.parse::<u64>().ok()?)))
      .and_then(|(ts, seq)| Some((period_of(ts, &cfg.gran)?, seq)));
    match parsed {
      Some((per, seq)) => {
        let raw = std::fs::read(&p).unwrap_or_default();
        let bytes = if z {
          let mut d = flate2::read::GzDecoder::new(&raw[..]);
          let mut v = Vec::new();
          match d.read_to_end(&mut v) {
            Ok(_) => v,
            Err(_) => b"?".to_vec(), // undecodable: shows up as foreign bytes
          }
        } else {
          raw
        };
        files.push((per, seq, z, parse_runs(&bytes, sizes), f));
      }
      None => other.push(f),
    }
  }
  files.sort();
  json!({
    "act": act,
    "files": files.iter().map(|(p, s, z, ids, _)| json!({"p": p, "s": s, "z": z, "ids": ids})).collect::<Vec<_>>(),
    "other": other,
  })
}

fn policy(dir: &Path, cfg: &RCfg) -> RollingPolicyInternal {
  RollingPolicyInternal {
    directory: dir.to_path_buf(),
    file_name_prefix: PREFIX.into(),
    file_name_suffix: SUFFIX.into(),
    time_granularity: cfg.gran.clone(),
    max_file_size: cfg.limit,
    max_retained_sequences: cfg.retain,
    compression: cfg.comp.map(|k| CompressionPolicyInternal { compressed_file_suffix: cfg.csuffix.clone(), max_uncompressed_sequences: k }),
  }
}

fn merge(mut rec: Value, obs: Value) -> Value {
  for (k, v) in obs.as_object().unwrap() {
    rec[k] = v.clone();
  }
  rec
}

/// Runs one program; returns its history records (without `new`).
fn run_program(dir: &Path, cfg: &RCfg, prog: &[Step]) -> Vec<Value> {
  let _ = std::fs::remove_dir_all(dir);
  std::fs::create_dir_all(dir).unwrap();
  if std::env::var_os("FV_LOGX_FOREIGN").is_some() {
    // probe only: rolled files of another appender whose prefix extends ours ("app2" vs "app")
    std::fs::write(dir.join("app2.log"), b"##").unwrap();
    std::fs::write(dir.join("app2.2024-02-28_23-58-00.1.log"), b"####").unwrap();
    std::fs::write(dir.join("app2.2024-02-28_23-58-00.2.log"), b"####").unwrap();
  }
  let mut clock = Clock { gran: cfg.gran.clone(), period: 0, off: 5 };
  let mut recs = Vec::new();
  let mut sizes: Vec<u64> = Vec::new();
  let mut roller = match Roller::open_at(policy(dir, cfg), clock.now()) {
    Ok(r) => Some(r),
    Err(e) => {
      recs.push(json!({"k": "error", "what": "open", "msg": e.to_string()}));
      return recs;
    }
  };
  for st in prog {
    match st {
      Step::TickIn => {
        clock.off = (clock.off + 7).min(55);
        recs.push(json!({"k": "tick", "t": clock.abs()}));
      }
      Step::TickOver => {
        clock.period += 1;
        clock.off = 3;
        recs.push(json!({"k": "tick", "t": clock.abs()}));
      }
      Step::Restart => {
        roller = None; // drop: BufWriter flushes
        let res = match Roller::open_at(policy(dir, cfg), clock.now()) {
          Ok(r) => {
            roller = Some(r);
            "ok".to_string()
          }
          Err(e) => format!("err:{}", e),
        };
        recs.push(merge(json!({"k": "restart", "t": clock.abs(), "res": res}), observe(dir, cfg, &sizes)));
        if roller.is_none() {
          return recs;
        }
      }
      Step::W(n) => {
        let id = sizes.len() + 1;
        sizes.push(*n);
        let buf = vec![SYMS[(id - 1) % SYMS.len()]; *n as usize];
        let r = roller.as_mut().unwrap();
        let res = match r.write_all_at(&buf, clock.now()).and_then(|_| r.flush()) {
          Ok(()) => "ok".to_string(),
          Err(e) => format!("err:{}", e),
        };
        recs.push(merge(json!({"k": "w", "id": id, "sz": n, "t": clock.abs(), "res": res}), observe(dir, cfg, &sizes)));
      }
    }
  }
  drop(roller);
  recs.push(json!({"k": "end"}));
  recs
}

fn alphabet(cfg: &RCfg, lim: u64) -> Vec<Step> {
  let mut v = Vec::new();
  if cfg.limit.is_some() {
    for s in [1, lim - 1, lim, lim + 1] {
      v.push(Step::W(s));
    }
  } else {
    v.push(Step::W(3));
  }
  if cfg.gran != "never" {
    v.push(Step::TickIn);
    v.push(Step::TickOver);
  }
  v.push(Step::Restart);
  v
}

/// All canonical programs of exactly `depth` steps: end with a write, at least two writes, no `ti` directly
/// before another tick (ti.ti = ti, ti.to = to up to the offset), no R.R.
fn enumerate(alpha: &[Step], depth: usize) -> Vec<Vec<Step>> {
  fn rec(alpha: &[Step], depth: usize, cur: &mut Vec<Step>, out: &mut Vec<Vec<Step>>) {
    if cur.len() == depth {
      let writes = cur.iter().filter(|s| matches!(s, Step::W(_))).count();
      if writes >= 2 && matches!(cur.last(), Some(Step::W(_))) {
        out.push(cur.clone());
      }
      return;
    }
    for s in alpha {
      if let Some(last) = cur.last() {
        if *last == Step::TickIn && matches!(s, Step::TickIn | Step::TickOver) {
          continue;
        }
        if *last == Step::Restart && *s == Step::Restart {
          continue;
        }
      }
      cur.push(s.clone());
      rec(alpha, depth, cur, out);
      cur.pop();
    }
  }
  let mut out = Vec::new();
  rec(alpha, depth, &mut Vec::new(), &mut out);
  out
}

fn parse_cfg(s: &str) -> RCfg {
  // gran:limit:retain:comp   with '-' for none, e.g. minutely:10:2:0   never:10:-:-
  let p: Vec<&str> = s.split(':').collect();
  let opt = |x: &str| if x == "-" { None } else { Some(x.parse::<u64>().expect("number")) };
  RCfg {
    gran: p[0].to_string(),
    limit: opt(p[1]),
    retain: opt(p[2]).map(|v| v as u32),
    comp: opt(p[3]).map(|v| v as u32),
    csuffix: if p.len() > 4 { p[4].to_string() } else { ".gz".into() },
  }
}

pub fn run(a: &Args) {
  let out = a.get("out", "/dev/stdout");
  let mut w = std::io::BufWriter::new(std::fs::File::create(&out).expect("create out"));
  let cfgs: Vec<RCfg> = a.list("cfgs", "minutely:10:2:0").iter().map(|s| parse_cfg(s)).collect();
  let depth = a.num("depth", 5) as usize;
  let budget = a.num("programs", 1000) as usize; // per configuration, for the enumerated part
  let random = a.num("random", 0) as usize; // longer random programs per configuration
  let rlen = a.num("random-len", 30) as usize;
  let seed = a.num("seed", 1);
  let kf = a.list("kf", "");
  let base = std::path::PathBuf::from(a.get("tmp", &std::env::temp_dir().display().to_string())).join(format!("fv-logx-roll-{}", std::process::id()));
  let dir = base.join("d");
  let (mut n, mut n_panic, mut total_enum, mut exhaustive) = (0u64, 0u64, 0u64, true);
  let emit = |cfg: &RCfg, prog: &[Step], w: &mut std::io::BufWriter<std::fs::File>, kind: &str| {
    let (d2, c2, p2) = (dir.clone(), cfg.clone(), prog.to_vec());
    let r = std::panic::catch_unwind(move || run_program(&d2, &c2, &p2));
    let lim = cfg.limit.map(|v| v as i64).unwrap_or(0);
    writeln!(
      w,
      "{}",
      json!({"k": "new", "kf": kf, "gran": cfg.gran, "limit": lim, "retain": cfg.retain.map(|v| v as i64).unwrap_or(-1),
             "comp": cfg.comp.map(|v| v as i64).unwrap_or(-1), "prog": prog.iter().map(|s| s.label()).collect::<Vec<_>>(), "src": kind})
    )
    .unwrap();
    match r {
      Ok(recs) => {
        for rec in recs {
          writeln!(w, "{}", rec).unwrap();
        }
      }
      Err(e) => {
        writeln!(w, "{}", json!({"k": "panic", "msg": crate::panic_msg(e)})).unwrap();
        return true;
      }
    }
    false
  };
  for (ci, cfg) in cfgs.iter().enumerate() {
    let lim = cfg.limit.unwrap_or(10);
    let alpha = alphabet(cfg, lim);
    let mut rng = Rng::new(seed.wrapping_mul(7919).wrapping_add(ci as u64));
    if depth > 0 {
      let mut progs: Vec<Vec<Step>> = Vec::new();
      for d in 2..=depth {
        progs.extend(enumerate(&alpha, d));
      }
      total_enum += progs.len() as u64;
      if progs.len() > budget {
        exhaustive = false;
        // deterministic sample without replacement (partial Fisher-Yates)
        for i in 0..budget {
          let j = i + rng.below((progs.len() - i) as u64) as usize;
          progs.swap(i, j);
        }
        progs.truncate(budget);
      }
      for p in &progs {
        n += 1;
        if emit(cfg, p, &mut w, "enum") {
          n_panic += 1;
        }
      }
    }
    for _ in 0..random {
      let len = 8 + rng.below((rlen.max(9) - 8) as u64) as usize;
      let mut p = Vec::new();
      let mut writes = 0;
      while p.len() < len && writes < 60 {
        // writes twice as likely as the rest
        let s = if rng.chance(1, 2) {
          if cfg.limit.is_some() { Step::W(*rng.pick(&[1, 2, lim / 2, lim - 1, lim, lim + 1, 2 * lim + 3])) } else { Step::W(1 + rng.below(9)) }
        } else {
          rng.pick(&alpha).clone()
        };
        if matches!(s, Step::W(_)) {
          writes += 1;
        }
        p.push(s);
      }
      n += 1;
      if emit(cfg, &p, &mut w, "random") {
        n_panic += 1;
      }
    }
  }
  w.flush().unwrap();
  let _ = std::fs::remove_dir_all(&base);
  println!("{}", json!({"programs": n, "enumerable": total_enum, "exhaustive": exhaustive, "panics": n_panic, "depth": depth}));
}
