//! End-to-end (C19): one child process per configuration, because `init_from_file` installs process-global
//! state.  The child initialises the real library from a generated YAML file, emits events through the `log`
//! and `tracing` macros from free-running threads, shuts down (or drops the guard) at a seeded moment, then reads
//! back what reached the custom streams and the appender files.  All records go through one mutex-protected log,
//! so "er before sc" in the history means: the emitting call returned before shutdown() was called.

use crate::route::{self, LoggerSpec, LEVEL_NAMES, TARGETS};
use crate::{Args, Rng};
use serde_json::{json, Value};
use std::io::Write;
use std::path::{Path, PathBuf};
use std::sync::atomic::{AtomicBool, AtomicU64, Ordering};
use std::sync::{Arc, Mutex};
use std::time::{Duration, Instant};

// ------------------------------------------------------------------------------------------------ parent

fn appender_yaml(dir: &Path, name: &str, kind: &str, cap: u64) -> String {
  let d = dir.display();
  match kind {
    "stream" => format!("  {}:\n    kind: custom\n    buffer_size: {}\n    overflow: block\n", name, cap),
    "file_pat" => format!(
      "  {n}:\n    kind: file\n    path: \"{d}/{n}.log\"\n    channel_capacity: {c}\n    overflow: block\n    encoder:\n      kind: pattern\n      pattern: \"%m%n\"\n",
      n = name, d = d, c = cap
    ),
    "file_json" => format!(
      "  {n}:\n    kind: file\n    path: \"{d}/{n}.log\"\n    channel_capacity: {c}\n    overflow: block\n    encoder:\n      kind: json_lines\n",
      n = name, d = d, c = cap
    ),
    "roll" => format!(
      "  {n}:\n    kind: rolling_file\n    directory: \"{d}/roll_{n}\"\n    file_name_prefix: \"r\"\n    file_name_suffix: \".log\"\n    channel_capacity: {c}\n    overflow: block\n    policy:\n      time_granularity: never\n      max_file_size: \"64b\"\n    encoder:\n      kind: pattern\n      pattern: \"%m%n\"\n",
      n = name, d = d, c = cap
    ),
    _ => panic!("unknown appender kind {}", kind),
  }
}

struct Job {
  idx: usize,
  spec: Value,
  dir: PathBuf,
}

pub fn parent(a: &Args) {
  let out = a.get("out", "/dev/stdout");
  let n = a.num("configs", 10) as usize;
  let mode = a.get("mode", "route");
  let seed = a.num("seed", 1);
  let jobs = a.num("jobs", 4).max(1) as usize;
  let kf = a.list("kf", "");
  let limit = Duration::from_secs(a.num("child-timeout", 40));
  let base = PathBuf::from(a.get("tmp", &std::env::temp_dir().display().to_string())).join(format!("fv-logx-{}", std::process::id()));
  std::fs::create_dir_all(&base).expect("tmp dir");
  let exe = std::env::current_exe().expect("current exe");
  let kinds_all = ["stream", "file_pat", "file_json", "roll"];
  let mut rng = Rng::new(seed ^ 0xE2E);
  let mut queue = Vec::new();
  for idx in 0..n {
    let dir = base.join(format!("c{}", idx));
    std::fs::create_dir_all(&dir).unwrap();
    let napps = 2 + rng.below(2) as usize;
    let names = ["A", "B", "C"];
    let mut apps = Vec::new();
    let mut yaml = String::from("version: 1\nappenders:\n");
    for i in 0..napps {
      // the first appender of a stress configuration is always a stream (drain-then-disconnect is observed)
      let kind = if i == 0 && mode == "stress" { "stream" } else { *rng.pick(&kinds_all) };
      let cap = if mode == "stress" { 1 + rng.below(3) } else { 1 + rng.below(64) };
      yaml.push_str(&appender_yaml(&dir, names[i], kind, cap));
      apps.push(json!({"n": names[i], "kind": kind, "cap": cap}));
    }
    let app_names: Vec<&str> = names[..napps].to_vec();
    let lg: Vec<LoggerSpec> = if mode == "stress" {
      let mut v = vec![LoggerSpec { name: "root".into(), level: 5, add: true, apps: app_names.iter().map(|s| s.to_string()).collect() }];
      if rng.chance(1, 2) {
        let mut extra = route::random_loggers(&mut rng, 1, &app_names);
        extra.retain(|l| l.name != "root");
        v.extend(extra);
      }
      v
    } else {
      route::random_loggers(&mut rng, 3, &app_names)
    };
    yaml.push_str(&route::loggers_yaml(&lg));
    std::fs::write(dir.join("fibre_logging.yaml"), &yaml).unwrap();
    // one stress configuration in eight is a burst: four emitters racing for a queue of 1-3 slots for a long time
    // (the blocking overflow policy must hold under contention, not only when one thread fills the queue)
    let burst = mode == "stress" && idx % 8 == 5;
    let threads = if burst { 4 } else if mode == "stress" { 1 + rng.below(3) } else { 1 };
    let per_thread = if burst { 500 } else if mode == "stress" { 20 + rng.below(60) } else { 60 };
    let total = threads * per_thread;
    let cut: i64 = if mode == "stress" && !burst && !rng.chance(1, 5) { rng.below(total + 1) as i64 } else { -1 };
    let spec = json!({
      "dir": dir.display().to_string(), "lg": route::loggers_json(&lg), "apps": apps, "threads": threads,
      "per_thread": per_thread, "mode": mode, "cut": cut, "drop": rng.chance(1, 3), "seed": rng.next() % 1_000_000,
      "consume_delay_us": if rng.chance(1, 3) { 200 } else { 0 }, "kf": kf, "idx": idx,
    });
    std::fs::write(dir.join("spec.json"), spec.to_string()).unwrap();
    queue.push(Job { idx, spec, dir });
  }
  let queue = Arc::new(Mutex::new(queue));
  let results: Arc<Mutex<Vec<(usize, Vec<String>, &'static str)>>> = Arc::new(Mutex::new(Vec::new()));
  let mut hs = Vec::new();
  for _ in 0..jobs {
    let (queue, results, exe) = (queue.clone(), results.clone(), exe.clone());
    hs.push(std::thread::spawn(move || loop {
      let job = match queue.lock().unwrap().pop() {
        Some(j) => j,
        None => break,
      };
      let hist = job.dir.join("hist.ndjson");
      // a child that exceeds the limit is run once more with twice the limit (a loaded machine is not a hang)
      let mut status = None;
      for attempt in 0..2u32 {
        let _ = std::fs::remove_file(&hist);
        for (name, kind) in job.spec["apps"].as_array().unwrap().iter().map(|a| (a["n"].as_str().unwrap(), a["kind"].as_str().unwrap())) {
          let _ = std::fs::remove_file(job.dir.join(format!("{}.log", name)));
          if kind == "roll" {
            let _ = std::fs::remove_dir_all(job.dir.join(format!("roll_{}", name)));
          }
        }
        let mut child = std::process::Command::new(&exe)
          .arg("child")
          .arg("--spec")
          .arg(job.dir.join("spec.json"))
          .arg("--out")
          .arg(&hist)
          .stdin(std::process::Stdio::null())
          .stdout(std::process::Stdio::null())
          .stderr(std::process::Stdio::null())
          .spawn()
          .expect("spawn child");
        let t0 = Instant::now();
        let lim = limit * (attempt + 1);
        status = loop {
          match child.try_wait().expect("wait") {
            Some(st) => break Some(st),
            None if t0.elapsed() > lim => {
              let _ = child.kill();
              let _ = child.wait();
              break None;
            }
            None => std::thread::sleep(Duration::from_millis(5)),
          }
        };
        if status.is_some() {
          break;
        }
      }
      let mut lines: Vec<String> = std::fs::read_to_string(&hist).unwrap_or_default().lines().map(|s| s.to_string()).collect();
      let header = json!({"k": "new", "kf": job.spec["kf"], "lg": job.spec["lg"], "apps": job.spec["apps"], "threads": job.spec["threads"],
                          "what": job.spec["mode"], "cut": job.spec["cut"], "drop": job.spec["drop"], "idx": job.spec["idx"], "seed": job.spec["seed"]});
      let complete = lines.last().map_or(false, |l| l.contains("\"k\":\"end\""));
      let tag = match status {
        None => {
          lines.push(json!({"k": "hung", "after_s": limit.as_secs()}).to_string());
          "hung"
        }
        Some(st) if !st.success() || !complete => {
          lines.push(json!({"k": "crash", "code": st.code()}).to_string());
          "crash"
        }
        _ => "ok",
      };
      let deadline_hit = lines.iter().any(|l| l.contains("\"k\":\"sr\"") && l.contains("\"deadline_hit\":true"));
      let tag = if deadline_hit && tag == "ok" { "deadline" } else { tag };
      let mut all = vec![header.to_string()];
      all.extend(lines);
      results.lock().unwrap().push((job.idx, all, tag));
      let _ = std::fs::remove_dir_all(&job.dir);
    }));
  }
  for h in hs {
    h.join().unwrap();
  }
  let mut res = std::mem::take(&mut *results.lock().unwrap());
  res.sort_by_key(|r| r.0);
  let mut w = std::io::BufWriter::new(std::fs::File::create(&out).expect("create out"));
  let (mut hung, mut crash, mut recs, mut deadline) = (0, 0, 0usize, 0);
  for (_, lines, tag) in &res {
    match *tag {
      "hung" => hung += 1,
      "crash" => crash += 1,
      "deadline" => {
        // shutdown returned because the library's join deadline expired, not because the writers finished:
        // what is on disk then depends on the machine, so the history is not judged
        deadline += 1;
        continue;
      }
      _ => {}
    }
    for l in lines {
      recs += 1;
      writeln!(w, "{}", l).unwrap();
    }
  }
  w.flush().unwrap();
  let _ = std::fs::remove_dir_all(&base);
  println!("{}", json!({"configs": n, "mode": mode, "records": recs, "hung": hung, "crashed": crash, "deadline_exceeded": deadline}));
}

// ------------------------------------------------------------------------------------------------ child

static LOG: Mutex<Vec<String>> = Mutex::new(Vec::new());
static RETURNED: AtomicU64 = AtomicU64::new(0);

fn push(v: Value) {
  LOG.lock().unwrap().push(v.to_string());
}

macro_rules! tr_lv {
  ($tg:literal, $lv:expr, $msg:expr) => {
    match $lv {
      1 => tracing::event!(target: $tg, tracing::Level::ERROR, "{}", $msg),
      2 => tracing::event!(target: $tg, tracing::Level::WARN, "{}", $msg),
      3 => tracing::event!(target: $tg, tracing::Level::INFO, "{}", $msg),
      4 => tracing::event!(target: $tg, tracing::Level::DEBUG, "{}", $msg),
      _ => tracing::event!(target: $tg, tracing::Level::TRACE, "{}", $msg),
    }
  };
}

fn emit_tracing(t: &str, lv: u8, msg: &str) {
  match t {
    "a" => tr_lv!("a", lv, msg),
    "a::b" => tr_lv!("a::b", lv, msg),
    "a::b::c" => tr_lv!("a::b::c", lv, msg),
    "a::bcd" => tr_lv!("a::bcd", lv, msg),
    "ab" => tr_lv!("ab", lv, msg),
    _ => tr_lv!("x", lv, msg),
  }
}

fn emit_log(t: &str, lv: u8, msg: &str) {
  let level = match lv {
    1 => log::Level::Error,
    2 => log::Level::Warn,
    3 => log::Level::Info,
    4 => log::Level::Debug,
    _ => log::Level::Trace,
  };
  log::log!(target: t, level, "{}", msg);
}

fn id_of(msg: &str) -> i64 {
  msg.strip_prefix('e').and_then(|s| s.parse::<i64>().ok()).unwrap_or(-1)
}

fn read_lines(p: &Path) -> Vec<String> {
  std::fs::read_to_string(p).unwrap_or_default().lines().map(|s| s.to_string()).collect()
}

fn read_back(dir: &Path, name: &str, kind: &str) -> Vec<i64> {
  match kind {
    "file_pat" => read_lines(&dir.join(format!("{}.log", name))).iter().map(|l| id_of(l)).collect(),
    "file_json" => read_lines(&dir.join(format!("{}.log", name)))
      .iter()
      .map(|l| serde_json::from_str::<Value>(l).ok().and_then(|v| v["message"].as_str().map(id_of)).unwrap_or(-1))
      .collect(),
    "roll" => {
      // rolled files r.1970-01-01.<seq>.log in sequence order, then the active file r.log
      let d = dir.join(format!("roll_{}", name));
      let mut rolled: Vec<(u64, PathBuf)> = Vec::new();
      let mut other = Vec::new();
      if let Ok(rd) = std::fs::read_dir(&d) {
        for e in rd.flatten() {
          let f = e.file_name().to_string_lossy().to_string();
          if f == "r.log" {
            continue;
          }
          let seq = f.strip_prefix("r.1970-01-01.").and_then(|r| r.strip_suffix(".log")).and_then(|s| s.parse::<u64>().ok());
          match seq {
            Some(s) => rolled.push((s, e.path())),
            None => other.push(f),
          }
        }
      }
      rolled.sort();
      let mut ids = Vec::new();
      for (_, p) in rolled {
        ids.extend(read_lines(&p).iter().map(|l| id_of(l)));
      }
      ids.extend(read_lines(&d.join("r.log")).iter().map(|l| id_of(l)));
      // a file that does not follow the naming scheme is reported as an unknown record
      ids.extend(other.iter().map(|_| -2));
      ids
    }
    _ => Vec::new(),
  }
}

pub fn child(a: &Args) {
  let spec: Value = serde_json::from_str(&std::fs::read_to_string(a.get("spec", "")).expect("spec")).expect("spec json");
  let out = a.get("out", "");
  let r = std::panic::catch_unwind(|| child_body(&spec));
  if let Err(e) = r {
    push(json!({"k": "panic", "msg": crate::panic_msg(e)}));
  } else {
    push(json!({"k": "end"}));
  }
  let lines = std::mem::take(&mut *LOG.lock().unwrap());
  let mut w = std::io::BufWriter::new(std::fs::File::create(&out).expect("create out"));
  for l in lines {
    writeln!(w, "{}", l).unwrap();
  }
  w.flush().unwrap();
  drop(w);
  // emitter threads stuck inside the library must not keep the process alive
  std::process::exit(0);
}

fn child_body(spec: &Value) {
  let dir = PathBuf::from(spec["dir"].as_str().unwrap());
  let threads = spec["threads"].as_u64().unwrap();
  let per_thread = spec["per_thread"].as_u64().unwrap();
  let mode = spec["mode"].as_str().unwrap().to_string();
  let cut = spec["cut"].as_i64().unwrap();
  let seed = spec["seed"].as_u64().unwrap();
  let delay = spec["consume_delay_us"].as_u64().unwrap();
  let apps: Vec<(String, String)> =
    spec["apps"].as_array().unwrap().iter().map(|a| (a["n"].as_str().unwrap().to_string(), a["kind"].as_str().unwrap().to_string())).collect();

  let mut init = match fibre_logging::init_from_file(&dir.join("fibre_logging.yaml")) {
    Ok(i) => i,
    Err(e) => {
      push(json!({"k": "error", "what": "init", "msg": e.to_string()}));
      return;
    }
  };

  // consumers of the custom streams
  let shutdown_returned: Arc<Mutex<Option<Instant>>> = Arc::new(Mutex::new(None));
  let mut consumers = Vec::new();
  for (name, kind) in &apps {
    if kind != "stream" {
      continue;
    }
    let rx = init.custom_streams.remove(name).expect("custom stream receiver");
    let (name, sr) = (name.clone(), shutdown_returned.clone());
    consumers.push(std::thread::spawn(move || loop {
      match rx.recv_timeout(Duration::from_millis(50)) {
        Ok(ev) => {
          push(json!({"k": "rv", "a": name, "e": id_of(ev.message.as_deref().unwrap_or("")), "tg": ev.target, "lv": ev.level.to_string()}));
          if delay > 0 {
            std::thread::sleep(Duration::from_micros(delay));
          }
        }
        Err(fibre::RecvErrorTimeout::Disconnected) => {
          push(json!({"k": "rd", "a": name}));
          break;
        }
        Err(fibre::RecvErrorTimeout::Timeout) => {
          let t = *sr.lock().unwrap();
          if t.map_or(false, |t| t.elapsed() > Duration::from_secs(3)) {
            // neither a value nor a disconnect 3 s after shutdown returned
            push(json!({"k": "rt", "a": name}));
            break;
          }
        }
      }
    }));
  }

  // emitters
  let done_flags: Vec<Arc<AtomicBool>> = (0..threads).map(|_| Arc::new(AtomicBool::new(false))).collect();
  let mut emitters = Vec::new();
  for t in 1..=threads {
    let flag = done_flags[(t - 1) as usize].clone();
    let mode = mode.clone();
    emitters.push(std::thread::Builder::new().name(format!("emit{}", t)).spawn(move || {
      let mut rng = Rng::new(seed.wrapping_mul(31).wrapping_add(t));
      for j in 0..per_thread {
        let id = (t * 1000 + j) as i64;
        let (tg, lv, via_log) = if mode == "route" {
          // the whole target x level matrix through log, then through tracing
          let c = j % 30;
          (TARGETS[(c / 5) as usize], (c % 5 + 1) as u8, j < 30)
        } else {
          (*rng.pick(&TARGETS), (1 + rng.below(5)) as u8, rng.chance(1, 2))
        };
        let msg = format!("e{}", id);
        push(json!({"k": "ec", "t": t, "e": id, "tg": route::path_of(tg), "lv": lv, "via": if via_log { "log" } else { "tracing" }}));
        if via_log {
          emit_log(tg, lv, &msg);
        } else {
          emit_tracing(tg, lv, &msg);
        }
        {
          // the return is logged under the same lock as `sc`, after the call returned
          let mut g = LOG.lock().unwrap();
          g.push(json!({"k": "er", "t": t, "e": id}).to_string());
          RETURNED.fetch_add(1, Ordering::SeqCst);
        }
      }
      flag.store(true, Ordering::SeqCst);
    }).unwrap());
  }

  // shutdown at the seeded moment
  let total = threads * per_thread;
  let want = if cut < 0 { total } else { cut as u64 };
  let t0 = Instant::now();
  while RETURNED.load(Ordering::SeqCst) < want && t0.elapsed() < Duration::from_secs(20) {
    std::thread::yield_now();
  }
  let by_drop = spec["drop"].as_bool().unwrap();
  push(json!({"k": "sc", "how": if by_drop { "drop" } else { "shutdown" }, "returned": RETURNED.load(Ordering::SeqCst)}));
  let t_shut = Instant::now();
  // writer threads that are still running after the call were abandoned at the library's deadline
  let handles_before = init.appender_task_handles.len();
  if by_drop {
    drop(init);
  } else {
    init.shutdown(Duration::from_secs(10));
  }
  let ms = t_shut.elapsed().as_millis() as u64;
  let deadline_ms: u64 = if by_drop { 5000 } else { 10000 };
  push(json!({"k": "sr", "ms": ms, "writers": handles_before, "deadline_hit": ms + 20 >= deadline_ms}));
  *shutdown_returned.lock().unwrap() = Some(Instant::now());

  // emitters finish their scripts (events after shutdown are discarded by the library)
  let t1 = Instant::now();
  while !done_flags.iter().all(|f| f.load(Ordering::SeqCst)) && t1.elapsed() < Duration::from_secs(8) {
    std::thread::sleep(Duration::from_millis(2));
  }
  for (i, f) in done_flags.iter().enumerate() {
    if !f.load(Ordering::SeqCst) {
      // informational: an emitting call that raced with shutdown never returned (not constrained by C19)
      push(json!({"k": "stuck", "t": i + 1}));
    }
  }
  for c in consumers {
    let _ = c.join();
  }
  for (name, kind) in &apps {
    if kind != "stream" {
      push(json!({"k": "file", "a": name, "es": read_back(&dir, name, kind)}));
    }
  }
  let _ = LEVEL_NAMES;
  drop(emitters);
}
