//! Routing (C19 first half): configurations -> real `build_filter_for_appender` + `EventProcessor::process_event`
//! (through `fibre_logging::verif::Router`), observed delivery matrix per configuration.
//!
//! The driver only records: which appender streams received the event. Names are projected to module
//! paths (split at "::", the root logger is the empty path) because TLC has no substring operators.

use crate::{Args, Rng};
use fibre_logging::config::{processed::process_raw_config, raw::ConfigRaw};
use serde_json::{json, Value};
use std::io::Write;

pub const POOL: [&str; 5] = ["root", "a", "a::b", "a::bc", "ab"];
pub const TARGETS: [&str; 6] = ["a", "a::b", "a::b::c", "a::bcd", "ab", "x"];
pub const LEVEL_NAMES: [&str; 6] = ["off", "error", "warn", "info", "debug", "trace"];
pub const APPS: [&str; 2] = ["A", "B"];

#[derive(Clone, Debug)]
pub struct LoggerSpec {
  pub name: String,
  pub level: u8, // 0 = off, 1 = error .. 5 = trace
  pub add: bool,
  pub apps: Vec<String>,
}

pub fn path_of(name: &str) -> Vec<String> {
  if name == "root" { Vec::new() } else { name.split("::").map(|s| s.to_string()).collect() }
}

pub fn name_of(path: &[String]) -> String {
  if path.is_empty() { "root".into() } else { path.join("::") }
}

pub fn level_of(lv: u8) -> tracing::Level {
  match lv {
    1 => tracing::Level::ERROR,
    2 => tracing::Level::WARN,
    3 => tracing::Level::INFO,
    4 => tracing::Level::DEBUG,
    _ => tracing::Level::TRACE,
  }
}

pub fn loggers_json(lg: &[LoggerSpec]) -> Value {
  Value::Array(
    lg.iter()
      .map(|l| json!({"n": path_of(&l.name), "lv": l.level, "add": l.add, "apps": l.apps}))
      .collect(),
  )
}

pub fn loggers_from_json(v: &Value) -> Vec<LoggerSpec> {
  v.as_array()
    .expect("lg array")
    .iter()
    .map(|l| {
      let path: Vec<String> = l["n"].as_array().unwrap().iter().map(|s| s.as_str().unwrap().to_string()).collect();
      LoggerSpec {
        name: name_of(&path),
        level: l["lv"].as_u64().unwrap() as u8,
        add: l["add"].as_bool().unwrap(),
        apps: l["apps"].as_array().unwrap().iter().map(|s| s.as_str().unwrap().to_string()).collect(),
      }
    })
    .collect()
}

/// YAML `loggers:` section for a logger list.
pub fn loggers_yaml(lg: &[LoggerSpec]) -> String {
  let mut s = String::from("loggers:\n");
  if lg.is_empty() {
    return "loggers: {}\n".into();
  }
  for l in lg {
    s.push_str(&format!(
      "  \"{}\":\n    level: {}\n    appenders: [{}]\n    additive: {}\n",
      l.name,
      LEVEL_NAMES[l.level as usize],
      l.apps.join(", "),
      l.add
    ));
  }
  s
}

pub fn random_loggers(rng: &mut Rng, max: usize, apps: &[&str]) -> Vec<LoggerSpec> {
  let n = 1 + rng.below(max as u64) as usize;
  let mut names: Vec<&str> = POOL.to_vec();
  let mut out = Vec::new();
  for _ in 0..n {
    let i = rng.below(names.len() as u64) as usize;
    let name = names.remove(i);
    let mut a = Vec::new();
    for ap in apps {
      if rng.chance(1, 2) {
        a.push(ap.to_string());
      }
    }
    out.push(LoggerSpec { name: name.to_string(), level: rng.below(6) as u8, add: rng.chance(1, 2), apps: a });
  }
  out
}

fn observe(lg: &[LoggerSpec]) -> Result<Value, String> {
  let mut yaml = String::from("version: 1\nappenders:\n");
  for a in APPS {
    yaml.push_str(&format!("  {}:\n    kind: custom\n    buffer_size: 8\n", a));
  }
  yaml.push_str(&loggers_yaml(lg));
  let raw: ConfigRaw = serde_yaml::from_str(&yaml).map_err(|e| format!("yaml: {}", e))?;
  let cfg = process_raw_config(raw).map_err(|e| format!("config: {}", e))?;
  let router = fibre_logging::verif::router_from_config(&cfg, 8);
  let mut by_via = Vec::new();
  for via_log in [true, false] {
    let mut per_target = Vec::new();
    for t in TARGETS {
      let mut per_level = Vec::new();
      for lv in 1..=5u8 {
        router.emit(level_of(lv), t, "m", via_log);
        // code = sum over appenders i (in APPS order) of copies_i * 4^i; -1: an event that was not the emitted one
        let mut got: i64 = 0;
        for (name, evs) in router.drain() {
          let i = APPS.iter().position(|a| *a == name).expect("known appender") as u32;
          for ev in evs {
            if ev.target == t && ev.level == level_of(lv) && got >= 0 {
              got += 4i64.pow(i);
            } else {
              got = -1;
            }
          }
        }
        per_level.push(got);
      }
      per_target.push(per_level);
    }
    by_via.push(per_target);
  }
  Ok(json!({"k": "cfg", "lg": loggers_json(lg), "gl": by_via[0], "gt": by_via[1]}))
}

pub fn run(a: &Args) {
  let out = a.get("out", "/dev/stdout");
  let mut w = std::io::BufWriter::new(std::fs::File::create(&out).expect("create out"));
  let group = a.num("group", 100) as usize;
  let kf = a.list("kf", "");
  let mut configs: Vec<Vec<LoggerSpec>> = Vec::new();
  if a.has("from") {
    let txt = std::fs::read_to_string(a.get("from", "")).expect("read --from");
    for line in txt.lines() {
      if line.trim().is_empty() {
        continue;
      }
      let v: Value = serde_json::from_str(line).expect("config line");
      configs.push(loggers_from_json(&v["lg"]));
    }
  }
  let mut rng = Rng::new(a.num("seed", 1));
  for _ in 0..a.num("random", 0) {
    configs.push(random_loggers(&mut rng, a.num("max-loggers", 3) as usize, &APPS));
  }
  let targets: Vec<Vec<String>> = TARGETS.iter().map(|t| path_of(t)).collect();
  let (mut n, mut n_panic, mut n_hist) = (0u64, 0u64, 0u64);
  for chunk in configs.chunks(group.max(1)) {
    n_hist += 1;
    writeln!(w, "{}", json!({"k": "new", "kf": kf, "tg": targets, "apps": APPS, "what": "route"})).unwrap();
    for lg in chunk {
      n += 1;
      let lg2 = lg.clone();
      let r = std::panic::catch_unwind(move || observe(&lg2));
      let rec = match r {
        Ok(Ok(v)) => v,
        Ok(Err(e)) => json!({"k": "error", "lg": loggers_json(lg), "msg": e}),
        Err(e) => {
          n_panic += 1;
          json!({"k": "panic", "lg": loggers_json(lg), "msg": crate::panic_msg(e)})
        }
      };
      writeln!(w, "{}", rec).unwrap();
    }
    writeln!(w, "{}", json!({"k": "end"})).unwrap();
  }
  w.flush().unwrap();
  println!("{}", json!({"configs": n, "histories": n_hist, "cases": n * 60, "panics": n_panic}));
}
