//! Encoders (C20).  Inputs are strings over character classes enumerated by TLC (specs/log/EscapeA.tla); the
//! driver maps a class word to a concrete string, formats a real `LogEvent` with the real encoder and records
//! what an independent JSON parser (serde_json) reads back.  The byte-level oracle is that parser (DESIGN 9).

use crate::{Args, Rng};
use fibre_logging::config::processed::JsonLinesEncoderInternal;
use fibre_logging::encoders::{json::JsonLinesFormatter, pattern::PatternFormatter, EventFormatter};
use fibre_logging::{LogEvent, LogValue};
use serde_json::{json, Value};
use std::io::Write;
use tracing::Level;

const CORE_KEYS: [&str; 10] = ["timestamp", "level", "target", "message", "name", "span_id", "parent_id", "thread_id", "thread_name", "fields"];

fn concrete(cls: &str, salt: usize) -> String {
  let pick = |v: &[&str]| v[salt % v.len()].to_string();
  match cls {
    "plain" => pick(&["a", "Z9", " ", "key_1", "/", "x y"]),
    "quote" => "\"".into(),
    "backslash" => "\\".into(),
    "newline" => pick(&["\n", "\r\n", "\r"]),
    "ctrl" => pick(&["\u{0}", "\t", "\u{1b}", "\u{7f}", "\u{8}", "\u{c}", "\u{1f}"]),
    "nonascii" => pick(&["é", "日本", "😀", "\u{2028}", "\u{85}", "\u{feff}", "\u{fffd}", "\u{10ffff}"]),
    "empty" => String::new(),
    "long" => {
      if salt % 2 == 0 { "x".repeat(70_000) } else { "\"\\\n\u{1}é".repeat(3_000) }
    }
    other => panic!("unknown class {}", other),
  }
}

fn word(classes: &[String], salt: usize) -> String {
  classes.iter().enumerate().map(|(i, c)| concrete(c, salt + i)).collect()
}

fn levels() -> [Level; 5] {
  [Level::ERROR, Level::WARN, Level::INFO, Level::DEBUG, Level::TRACE]
}

struct Case {
  pos: &'static str,
  cls: Vec<String>,
  flat: bool,
  event: LogEvent,
  note: Value,
}

fn base_event(salt: usize) -> LogEvent {
  let mut ev = LogEvent::new(levels()[salt % 5], "app::mod", "ev", Some("hello".to_string()));
  if salt % 3 == 0 {
    ev.thread_id = Some("7".into());
    ev.thread_name = Some("main".into());
    ev.span_id = Some("Id(1)".into());
    ev.parent_id = Some("Id(2)".into());
  }
  ev
}

fn json_value_of(v: &LogValue) -> Option<Value> {
  match v {
    LogValue::String(s) | LogValue::Debug(s) => Some(Value::String(s.clone())),
    LogValue::Int(i) => Some(json!(i)),
    LogValue::Bool(b) => Some(json!(b)),
    LogValue::Float(f) if f.is_finite() => Some(json!(f)),
    LogValue::Float(_) => None,
  }
}

fn check_json(case: &Case) -> Value {
  let fmt = JsonLinesFormatter::new(JsonLinesEncoderInternal { flatten_fields: case.flat });
  let ev = case.event.clone();
  let r = std::panic::catch_unwind(std::panic::AssertUnwindSafe(|| fmt.format_event(&ev)));
  let mut rec = json!({"k": "json", "pos": case.pos, "cls": case.cls, "flat": case.flat, "note": case.note,
                       "nfields": case.event.fields.len()});
  let bytes = match r {
    Err(e) => {
      rec["res"] = json!(format!("panic:{}", crate::panic_msg(e)));
      return rec;
    }
    Ok(Err(e)) => {
      rec["res"] = json!(format!("err:{}", e));
      return rec;
    }
    Ok(Ok(b)) => b,
  };
  rec["res"] = json!("ok");
  let body = if bytes.last() == Some(&b'\n') { &bytes[..bytes.len() - 1] } else { &bytes[..] };
  let one_line = bytes.last() == Some(&b'\n') && !body.iter().any(|b| *b == b'\n' || *b == b'\r');
  rec["one_line"] = json!(one_line);
  let parsed: Option<Value> = serde_json::from_slice::<Value>(body).ok().filter(|v| v.is_object());
  rec["valid"] = json!(parsed.is_some());
  let v = match parsed {
    Some(v) => v,
    None => return rec,
  };
  let e = &case.event;
  rec["rt_level"] = json!(v["level"].as_str().and_then(|s| s.parse::<Level>().ok()) == Some(e.level));
  rec["rt_target"] = json!(v["target"].as_str() == Some(e.target.as_str()));
  rec["rt_message"] = json!(match &e.message {
    Some(m) => v["message"].as_str() == Some(m.as_str()),
    None => v.get("message").is_none(),
  });
  // a custom field is looked for under "fields" and, with flatten_fields, at top level; it round-trips if one
  // of these places holds the value that went in (the statement does not say where a field has to live)
  let (mut present, mut equal, mut nonfinite) = (true, true, false);
  let mut lost: Vec<String> = Vec::new();
  for (k, val) in &e.fields {
    let mut places: Vec<&Value> = Vec::new();
    if let Some(g) = v.get("fields").and_then(|h| h.get(k)) {
      places.push(g);
    }
    if case.flat {
      if let Some(g) = v.get(k) {
        places.push(g);
      }
    }
    if places.is_empty() {
      present = false;
      equal = false;
      lost.push(k.clone());
      continue;
    }
    match json_value_of(val) {
      Some(want) => {
        let same = places.iter().any(|g| match (g.as_f64(), want.as_f64()) {
          (Some(a), Some(b)) if g.is_number() && want.is_number() => a == b,
          _ => **g == want,
        });
        if !same {
          equal = false;
          lost.push(k.clone());
        }
      }
      None => nonfinite = true, // JSON has no literal for it: only presence is observed
    }
  }
  rec["fields_present"] = json!(present);
  rec["fields_equal"] = json!(equal);
  rec["nonfinite"] = json!(nonfinite);
  rec["lost"] = json!(lost.iter().map(|k| if k.len() > 40 { format!("{}...", k.chars().take(20).collect::<String>()) } else { k.clone() }).filter(|k| k.is_ascii()).collect::<Vec<_>>());
  rec
}

pub fn run_json(a: &Args) {
  let out = a.get("out", "/dev/stdout");
  let mut w = std::io::BufWriter::new(std::fs::File::create(&out).expect("create out"));
  let kf = a.list("kf", "");
  let mut words: Vec<Vec<String>> = Vec::new();
  let txt = std::fs::read_to_string(a.get("classes", "")).expect("read --classes");
  for line in txt.lines() {
    if line.trim().is_empty() {
      continue;
    }
    let v: Value = serde_json::from_str(line).expect("class word");
    words.push(v.as_array().unwrap().iter().map(|s| s.as_str().unwrap().to_string()).collect());
  }
  let mut rng = Rng::new(a.num("seed", 1));
  let mut cases: Vec<Case> = Vec::new();
  let mut salt = 0usize;
  for wd in &words {
    for flat in [false, true] {
      salt += 1;
      // the word as message
      let mut ev = base_event(salt);
      ev.message = Some(word(wd, salt));
      cases.push(Case { pos: "msg", cls: wd.clone(), flat, event: ev, note: json!({}) });
      // as target
      let mut ev = base_event(salt);
      ev.target = word(wd, salt);
      cases.push(Case { pos: "tgt", cls: wd.clone(), flat, event: ev, note: json!({}) });
      // as field name (second plain field next to it)
      let mut ev = base_event(salt);
      ev.fields.insert(word(wd, salt), LogValue::String("v".into()));
      ev.fields.insert("other".into(), LogValue::Int(7));
      cases.push(Case { pos: "fname", cls: wd.clone(), flat, event: ev, note: json!({}) });
      // as field value, String and Debug flavour
      let mut ev = base_event(salt);
      ev.fields.insert("k".into(), LogValue::String(word(wd, salt)));
      ev.fields.insert("d".into(), LogValue::Debug(word(wd, salt + 1)));
      cases.push(Case { pos: "fval", cls: wd.clone(), flat, event: ev, note: json!({}) });
    }
  }
  // field names equal to the keys the encoder writes itself
  for flat in [false, true] {
    for key in CORE_KEYS {
      for with_ids in [0usize, 1] {
        let mut ev = base_event(if with_ids == 0 { 3 } else { 4 }); // salt 3: span/thread ids present
        ev.fields.insert(key.to_string(), LogValue::String("custom".into()));
        ev.fields.insert("other".into(), LogValue::Bool(true));
        cases.push(Case { pos: "core", cls: vec![], flat, event: ev, note: json!({"key": key, "ids": with_ids == 0}) });
      }
    }
  }
  // numbers, including the non-finite floats
  for flat in [false, true] {
    for (name, f) in [("nan", f64::NAN), ("inf", f64::INFINITY), ("-inf", f64::NEG_INFINITY), ("1.5", 1.5), ("-2.25", -2.25), ("1e10", 1e10), ("0.1", 0.1), ("-0", -0.0), ("max", f64::MAX)] {
      let mut ev = base_event(1);
      ev.fields.insert("f".into(), LogValue::Float(f));
      ev.fields.insert("i".into(), LogValue::Int(if f.is_sign_negative() { i64::MIN } else { i64::MAX }));
      ev.fields.insert("b".into(), LogValue::Bool(false));
      cases.push(Case { pos: "num", cls: vec![], flat, event: ev, note: json!({"float": name}) });
    }
    let mut ev = base_event(2);
    ev.message = None;
    cases.push(Case { pos: "nomsg", cls: vec![], flat, event: ev, note: json!({}) });
  }
  // random combinations: every position filled from the word list at once
  for _ in 0..a.num("random", 0) {
    salt += 1;
    let mut ev = base_event(salt);
    ev.message = Some(word(&words[rng.below(words.len() as u64) as usize], salt));
    ev.target = word(&words[rng.below(words.len() as u64) as usize], salt + 1);
    for i in 0..1 + rng.below(3) as usize {
      let k = word(&words[rng.below(words.len() as u64) as usize], salt + 2 + i);
      let val = word(&words[rng.below(words.len() as u64) as usize], salt + 5 + i);
      // names equal to encoder keys are covered by the `core` cases; keep this family collision-free
      if CORE_KEYS.contains(&k.as_str()) {
        continue;
      }
      ev.fields.insert(k, if rng.chance(1, 2) { LogValue::String(val) } else { LogValue::Debug(val) });
    }
    cases.push(Case { pos: "mix", cls: vec![], flat: rng.chance(1, 2), event: ev, note: json!({}) });
  }
  let group = a.num("group", 400) as usize;
  let (mut n, mut bad) = (0u64, 0u64);
  for chunk in cases.chunks(group.max(1)) {
    writeln!(w, "{}", json!({"k": "new", "kf": kf, "what": "json"})).unwrap();
    for c in chunk {
      n += 1;
      let rec = check_json(c);
      if rec["res"] != "ok" || rec["valid"] != true {
        bad += 1;
      }
      writeln!(w, "{}", rec).unwrap();
    }
    writeln!(w, "{}", json!({"k": "end"})).unwrap();
  }
  w.flush().unwrap();
  println!("{}", json!({"cases": n, "class_words": words.len(), "invalid_or_failed": bad}));
}

// ------------------------------------------------------------------------------------------------ pattern

fn overflow_checks_on() -> bool {
  std::panic::catch_unwind(|| std::hint::black_box(i32::MIN).abs()).is_err()
}

fn pattern_events() -> Vec<(String, LogEvent)> {
  let mut v = Vec::new();
  let msgs: Vec<(&str, Option<String>)> = vec![
    ("plain", Some("hello world".into())),
    ("quote_backslash", Some("say \"hi\" \\ {x} %m %d 100%".into())),
    ("newline", Some("line1\nline2\r\n".into())),
    ("nonascii", Some("héllo 日本 😀".into())),
    ("ctrl", Some("\u{0}\t\u{1b}".into())),
    ("empty", Some(String::new())),
    ("long", Some("m".repeat(10_000))),
    ("none", None),
  ];
  for (i, (name, m)) in msgs.into_iter().enumerate() {
    let mut ev = LogEvent::new(levels()[i % 5], if i % 2 == 0 { "app::mod" } else { "日本é::t" }, "ev", m);
    if i % 2 == 0 {
      ev.thread_name = Some("worker-1".into());
    }
    if i % 3 != 1 {
      ev.fields.insert("k1".into(), LogValue::String("v 1".into()));
      ev.fields.insert("message".into(), LogValue::String("dup".into()));
      ev.fields.insert("ünï".into(), LogValue::Float(f64::NAN));
      ev.fields.insert("n".into(), LogValue::Int(-5));
    }
    v.push((name.to_string(), ev));
  }
  v
}

/// The conversion characters of a pattern, scanned by the documented grammar
///   %[-]<digits>?<letter>({<options>})?   |   %%   |   literal text
/// (leftmost match, a directive is preferred over an escaped percent).  This classifies the generated input
/// ("does the pattern ask for the message?"); it is not an expectation about the output.
fn directives(pat: &str) -> Vec<(char, Option<i64>)> {
  let b: Vec<char> = pat.chars().collect();
  let mut out = Vec::new();
  let mut i = 0;
  while i < b.len() {
    if b[i] != '%' {
      i += 1;
      continue;
    }
    // try a directive
    let mut j = i + 1;
    let mut k = j;
    if k < b.len() && b[k] == '-' {
      k += 1;
    }
    let d0 = k;
    while k < b.len() && b[k].is_ascii_digit() {
      k += 1;
    }
    let mut pad: Option<i64> = None;
    if k > d0 {
      j = k; // padding present (sign only counts together with digits)
      let txt: String = b[i + 1..k].iter().collect();
      // the encoder keeps a padding only if it fits an i32
      pad = txt.parse::<i32>().ok().map(|v| v as i64);
    }
    if j < b.len() && b[j].is_ascii_alphabetic() {
      out.push((b[j], pad));
      j += 1;
      if j < b.len() && b[j] == '{' {
        if let Some(close) = b[j + 1..].iter().position(|c| *c == '}') {
          if close >= 1 {
            j = j + 1 + close + 1;
          }
        }
      }
      i = j;
    } else if i + 1 < b.len() && b[i + 1] == '%' {
      i += 2;
    } else {
      i += 1;
    }
  }
  out
}

pub fn run_pattern(a: &Args) {
  let out = a.get("out", "/dev/stdout");
  let mut w = std::io::BufWriter::new(std::fs::File::create(&out).expect("create out"));
  let kf = a.list("kf", "");
  let mut rng = Rng::new(a.num("seed", 1));
  let convs = ["d", "d{%Y-%m-%d}", "d{%H:%M:%S%.3f}", "p", "l", "t", "m", "T", "n", "X", "X{k1}", "X{missing}", "X{message}", "m{opt}"];
  // (7, 8, 12, 15: wider than the non-ASCII targets / messages counted in characters, narrower than their byte length)
  let mut pads: Vec<&str> = vec!["", "5", "-5", "7", "8", "-8", "12", "-12", "15", "0", "-0", "1", "-1", "40", "-40", "007", "300", "65535", "-65536", "100000", "2147483648", "99999999999"];
  let ovf = overflow_checks_on();
  if ovf {
    // only where the negation is checked: otherwise the width becomes 2^64 - 2^31 and the process dies allocating
    pads.push("-2147483648");
  }
  let lits = ["%%", " - ", "[", "]{}", "% ", "%5", "%{x}", "é→", "%", "}{", "%-"];
  let mut atoms: Vec<String> = Vec::new();
  for c in convs {
    for p in &pads {
      atoms.push(format!("%{}{}", p, c));
    }
  }
  let n_conv_atoms = atoms.len();
  for l in lits {
    atoms.push(l.to_string());
  }
  let mut patterns: Vec<String> = Vec::new();
  patterns.push(String::new());
  patterns.extend(atoms.iter().cloned());
  // all ordered pairs of unpadded converters / literals
  let small: Vec<String> = convs.iter().map(|c| format!("%{}", c)).chain(lits.iter().map(|s| s.to_string())).collect();
  for x in &small {
    for y in &small {
      patterns.push(format!("{}{}", x, y));
      patterns.push(format!("{} {}", x, y));
    }
  }
  for _ in 0..a.num("random", 200) {
    let n = 3 + rng.below(5);
    let mut s = String::new();
    for _ in 0..n {
      s.push_str(rng.pick(&atoms[..]).as_str());
      if rng.chance(1, 3) {
        s.push(' ');
      }
    }
    patterns.push(s);
  }
  let events = pattern_events();
  let group = a.num("group", 400) as usize;
  let (mut n, mut panics) = (0u64, 0u64);
  let mut recs: Vec<Value> = Vec::new();
  for (pi, pat) in patterns.iter().enumerate() {
    let dirs = directives(pat);
    let has_m = dirs.iter().any(|(c, _)| *c == 'm');
    // input class: some directive (other than %n, which ignores padding) asks for a field wider than 65535 columns
    let pad_big = dirs.iter().any(|(c, p)| *c != 'n' && p.map_or(false, |v| v.abs() > 65535));
    let fmt = std::panic::catch_unwind(|| PatternFormatter::new(pat));
    for (ei, (ename, ev)) in events.iter().enumerate() {
      // every pattern on two events, the padded single atoms on all of them
      if pi > n_conv_atoms && (pi + ei) % 4 > 1 {
        continue;
      }
      n += 1;
      let mut rec = json!({"k": "pat", "pat": pat, "ev": ename, "has_m": has_m, "pad_big": pad_big});
      match &fmt {
        Err(_) => {
          rec["res"] = json!("panic:new");
          panics += 1;
        }
        Ok(f) => match std::panic::catch_unwind(std::panic::AssertUnwindSafe(|| f.format_event(ev))) {
          Err(e) => {
            rec["res"] = json!(format!("panic:{}", crate::panic_msg(e)));
            panics += 1;
          }
          Ok(Err(e)) => rec["res"] = json!(format!("err:{}", e)),
          Ok(Ok(bytes)) => {
            rec["res"] = json!("ok");
            let s = String::from_utf8_lossy(&bytes);
            rec["utf8"] = json!(std::str::from_utf8(&bytes).is_ok());
            rec["verbatim"] = json!(match &ev.message {
              Some(m) => s.contains(m.as_str()),
              None => true,
            });
            rec["ends_nl"] = json!(bytes.last() == Some(&b'\n'));
          }
        },
      }
      recs.push(rec);
    }
  }
  for chunk in recs.chunks(group.max(1)) {
    writeln!(w, "{}", json!({"k": "new", "kf": kf, "what": "pattern"})).unwrap();
    for r in chunk {
      writeln!(w, "{}", r).unwrap();
    }
    writeln!(w, "{}", json!({"k": "end"})).unwrap();
  }
  w.flush().unwrap();
  println!("{}", json!({"cases": n, "patterns": patterns.len(), "panics": panics, "overflow_checks": ovf}));
}
