fn main() {
  eprintln!("fv-logx: not built yet");
  std::process::exit(2);
}
