//! fv-logx: drivers that run the real fibre_logging code and record histories for TLC.
//!
//!   route-inproc  routing matrix of many configurations inside one process (verif::Router)
//!   e2e           child processes: init_from_file + log/tracing macros + shutdown, read back
//!   child         (internal) one e2e child
//!   roller        CustomRoller with an injected clock in a temp directory
//!   enc-json      JSON-lines encoder over class-enumerated inputs (oracle: serde_json)
//!   enc-pattern   pattern encoder over a directive grammar

mod e2e;
mod enc;
mod roller;
mod route;

use std::collections::HashMap;

pub struct Args(HashMap<String, String>);
impl Args {
  fn parse(it: impl Iterator<Item = String>) -> Args {
    let mut m = HashMap::new();
    let v: Vec<String> = it.collect();
    let mut i = 0;
    while i < v.len() {
      if let Some(k) = v[i].strip_prefix("--") {
        let val = if i + 1 < v.len() && !v[i + 1].starts_with("--") {
          i += 1;
          v[i].clone()
        } else {
          "1".into()
        };
        m.insert(k.to_string(), val);
      }
      i += 1;
    }
    Args(m)
  }
  pub fn get(&self, k: &str, d: &str) -> String {
    self.0.get(k).cloned().unwrap_or_else(|| d.to_string())
  }
  pub fn has(&self, k: &str) -> bool {
    self.0.contains_key(k)
  }
  pub fn num(&self, k: &str, d: u64) -> u64 {
    self.0.get(k).map(|s| s.parse().expect("number")).unwrap_or(d)
  }
  pub fn list(&self, k: &str, d: &str) -> Vec<String> {
    self.get(k, d).split(',').filter(|s| !s.is_empty()).map(|s| s.to_string()).collect()
  }
}

/// splitmix64: the only random source of the drivers (deterministic given the seed).
pub struct Rng(pub u64);
impl Rng {
  pub fn new(seed: u64) -> Rng {
    Rng(seed.wrapping_mul(0x9E37_79B9_7F4A_7C15).wrapping_add(0x1234_5678_9ABC_DEF1))
  }
  pub fn next(&mut self) -> u64 {
    self.0 = self.0.wrapping_add(0x9E37_79B9_7F4A_7C15);
    let mut z = self.0;
    z = (z ^ (z >> 30)).wrapping_mul(0xBF58_476D_1CE4_E5B9);
    z = (z ^ (z >> 27)).wrapping_mul(0x94D0_49BB_1331_11EB);
    z ^ (z >> 31)
  }
  pub fn below(&mut self, n: u64) -> u64 {
    if n == 0 { 0 } else { self.next() % n }
  }
  pub fn chance(&mut self, num: u64, den: u64) -> bool {
    self.below(den) < num
  }
  pub fn pick<'a, T>(&mut self, v: &'a [T]) -> &'a T {
    &v[self.below(v.len() as u64) as usize]
  }
}

pub fn panic_msg(e: Box<dyn std::any::Any + Send>) -> String {
  if let Some(s) = e.downcast_ref::<String>() {
    s.clone()
  } else if let Some(s) = e.downcast_ref::<&str>() {
    s.to_string()
  } else {
    "panic".into()
  }
}

fn main() {
  let mut it = std::env::args().skip(1);
  let cmd = it.next().unwrap_or_default();
  let args = Args::parse(it);
  // a panic inside library code is data: keep the default hook quiet
  std::panic::set_hook(Box::new(|_| {}));
  match cmd.as_str() {
    "route-inproc" => route::run(&args),
    "e2e" => e2e::parent(&args),
    "child" => e2e::child(&args),
    "roller" => roller::run(&args),
    "enc-json" => enc::run_json(&args),
    "enc-pattern" => enc::run_pattern(&args),
    _ => {
      eprintln!("usage: fv-logx <route-inproc|e2e|roller|enc-json|enc-pattern> [--key value]...");
      std::process::exit(2);
    }
  }
}
