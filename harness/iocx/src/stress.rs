//! ioc-stress: free-running threads released by a barrier.  The once-cell and
//! dashmap internals are foreign code without hooks, so the schedules are
//! chosen by the OS; the factories dawdle to widen the windows.  Every call,
//! return and factory event goes to the one global log in real-time order, and
//! the history is judged by TLC against IocTrace like any other.
//!
//! scenarios
//!   first      N threads resolve the same singleton (or trait singleton) for the
//!              first time, its factory resolves other services, a registrar
//!              thread registers OTHER keys (same name other type, same type
//!              other name, ...) meanwhile
//!   rereg      N threads keep resolving a key while a registrar re-registers it
//!   transient  N threads resolve a transient
//!   cycle      a dependency cycle spread over threads (A needs B, B needs A; thread 1
//!              asks for A while thread 2 asks for B)

use crate::ctr::AEnv;
use crate::model::*;
use crate::seq::Rng;
use serde_json::json;
use std::sync::mpsc;
use std::sync::{Arc, Barrier};
use std::time::{Duration, Instant};

pub struct Round {
  pub scenario: String,
  pub threads: usize,
  pub seed: u64,
  pub global: bool,
  pub round: u64,
}

#[derive(Clone)]
enum Step {
  Res(KeyD, Via),
  Reg(KeyD, Kind, Vec<Dep>),
  Pause(Widen),
}

fn run_steps(env: &Arc<AEnv>, steps: &[Step]) {
  for s in steps {
    match s {
      Step::Res(k, v) => {
        let _ = env.resolve(k, *v);
      }
      Step::Reg(k, kind, deps) => AEnv::register(env, k, *kind, deps),
      Step::Pause(w) => w.pause(),
    }
  }
}

fn pick_widen(rng: &mut Rng) -> Widen {
  match rng.below(4) {
    0 => Widen::Yield(1 + rng.below(4) as u32),
    1 => Widen::SleepUs(20 + rng.below(200)),
    2 => Widen::SleepUs(200 + rng.below(800)),
    _ => Widen::Yield(8),
  }
}

fn dep(k: &KeyD, rng: &mut Rng) -> Dep {
  Dep { key: k.clone(), via: *rng.pick(&[Via::Get, Via::MaybeFrom, Via::From]) }
}

/// Runs one round; returns true if the watchdog had to give up on some thread.
pub fn run_round(r: &Round) -> bool {
  let mut rng = Rng(r.seed);
  begin();
  set_tid(1);
  let flavour = if r.global { "global" } else { "inst" };
  rec_new(flavour, "stress", r.round, json!({"scenario": r.scenario, "threads": r.threads}));
  let widen = if r.scenario == "cycle" { Widen::SleepUs(if rng.chance(3, 4) { 3000 } else { 0 }) } else { pick_widen(&mut rng) };
  let env = AEnv::new(r.global, 1, widen);
  // the global container is shared by all rounds of the process: fresh names per round
  let sfx = if r.global { format!("{}", r.round) } else { String::new() };
  let nm = |s: &str| -> String { format!("{s}{sfx}") };
  let key = |ty: Ty, n: &str| KeyD::new(0, ty, Some(&nm(n)));
  let vias: &[Via] = if r.global {
    &[Via::Get, Via::Maybe, Via::Resolve, Via::MaybeFrom, Via::From]
  } else {
    &[Via::Get, Via::MaybeFrom, Via::From]
  };
  let n = r.threads;
  let mut setup: Vec<Step> = Vec::new();
  let mut plans: Vec<Vec<Step>> = vec![Vec::new(); n]; // resolver threads 2..n+1
  let mut registrar: Vec<Step> = Vec::new(); // thread n+2
  let mut finale: Vec<Step> = Vec::new();
  let mut limit = Duration::from_secs(20);

  match r.scenario.as_str() {
    "first" => {
      let lazy_trait = rng.chance(1, 3);
      let k = if lazy_trait { key(Ty::Q0, "k") } else { key(Ty::S0, "k") };
      let kkind = if lazy_trait { Kind::Trait } else { Kind::Singleton };
      let d1 = key(Ty::S1, "d");
      let d2 = key(Ty::S1, "e");
      let shape = rng.below(4);
      let kdeps = match shape {
        0 => vec![],
        1 => vec![dep(&d1, &mut rng)],
        _ => vec![dep(&d1, &mut rng), dep(&d2, &mut rng)],
      };
      let d1deps = if shape == 3 { vec![dep(&d2, &mut rng)] } else { vec![] };
      let late_d2 = rng.chance(1, 4);
      setup.push(Step::Reg(k.clone(), kkind, kdeps));
      setup.push(Step::Reg(d1.clone(), Kind::Singleton, d1deps));
      if !late_d2 {
        setup.push(Step::Reg(d2.clone(), Kind::Transient, vec![]));
      }
      // neighbours of k in the key space, registered while k is being resolved
      let others = [
        (key(Ty::S1, "k"), Kind::Singleton),
        (key(Ty::S0, "x"), Kind::Instance),
        (key(Ty::Q1, "k"), Kind::Trait),
        (if r.global { key(Ty::S0, "u") } else { KeyD::new(0, Ty::S0, None) }, Kind::Transient),
        (key(Ty::S0, "kk"), Kind::Singleton),
      ];
      for t in 0..n {
        let first: &KeyD = match rng.below(6) {
          0 => &d1,
          1 => &others[rng.below(others.len() as u64) as usize].0,
          _ => &k,
        };
        plans[t].push(Step::Res(first.clone(), *rng.pick(vias)));
        if rng.chance(1, 3) {
          plans[t].push(Step::Pause(Widen::Yield(1 + rng.below(3) as u32)));
        }
        plans[t].push(Step::Res(k.clone(), *rng.pick(&[Via::Get, Via::MaybeFrom])));
        if rng.chance(1, 2) {
          let o = &others[rng.below(others.len() as u64) as usize].0;
          plans[t].push(Step::Res(o.clone(), *rng.pick(&[Via::Get, Via::MaybeFrom])));
        }
      }
      if late_d2 {
        registrar.push(Step::Reg(d2.clone(), Kind::Transient, vec![]));
      }
      for (ok, okind) in others.iter() {
        if rng.chance(1, 2) {
          registrar.push(Step::Pause(Widen::Yield(1 + rng.below(4) as u32)));
        }
        let deps = if *okind != Kind::Instance && rng.chance(1, 4) { vec![dep(&d1, &mut rng)] } else { vec![] };
        registrar.push(Step::Reg(ok.clone(), *okind, deps));
      }
      finale.push(Step::Res(k.clone(), Via::Get));
      finale.push(Step::Res(d1.clone(), Via::Get));
      for (ok, _) in others.iter() {
        finale.push(Step::Res(ok.clone(), Via::Get));
      }
    }
    "rereg" => {
      let k = key(Ty::S0, "k");
      let d1 = key(Ty::S1, "d");
      setup.push(Step::Reg(d1.clone(), Kind::Singleton, vec![]));
      setup.push(Step::Reg(k.clone(), Kind::Singleton, if rng.chance(1, 2) { vec![dep(&d1, &mut rng)] } else { vec![] }));
      let reps = 3 + rng.below(2) as usize;
      for t in 0..n {
        for _ in 0..reps {
          plans[t].push(Step::Res(k.clone(), *rng.pick(&[Via::Get, Via::MaybeFrom])));
          if rng.chance(1, 2) {
            plans[t].push(Step::Pause(pick_widen(&mut rng)));
          }
        }
      }
      let kinds = [Kind::Singleton, Kind::Instance, Kind::Transient, Kind::Singleton];
      let start = rng.below(4) as usize;
      for j in 0..3 {
        registrar.push(Step::Pause(pick_widen(&mut rng)));
        let kind = kinds[(start + j) % 4];
        let deps = if kind != Kind::Instance && rng.chance(1, 3) { vec![dep(&d1, &mut rng)] } else { vec![] };
        registrar.push(Step::Reg(k.clone(), kind, deps));
      }
      finale.push(Step::Res(k.clone(), Via::Get));
      finale.push(Step::Res(k.clone(), Via::MaybeFrom));
    }
    "transient" => {
      let k = key(Ty::S0, "t");
      let d1 = key(Ty::S1, "d");
      setup.push(Step::Reg(d1.clone(), Kind::Singleton, vec![]));
      setup.push(Step::Reg(k.clone(), Kind::Transient, if rng.chance(1, 2) { vec![dep(&d1, &mut rng)] } else { vec![] }));
      for t in 0..n {
        for _ in 0..3 {
          plans[t].push(Step::Res(k.clone(), *rng.pick(vias)));
        }
      }
      registrar.push(Step::Reg(key(Ty::S1, "t"), Kind::Transient, vec![]));
      registrar.push(Step::Reg(key(Ty::S0, "tt"), Kind::Transient, vec![]));
      finale.push(Step::Res(k.clone(), Via::Get));
      finale.push(Step::Res(d1.clone(), Via::Get));
    }
    "cycle" => {
      // never on the global container: a hung thread keeps a shard read-locked for good
      let len = if n >= 3 && rng.chance(1, 2) { 3 } else { 2 };
      let ks = [key(Ty::S0, "ca"), key(Ty::S1, "cb"), key(Ty::Q0, "cc")];
      for j in 0..len {
        let kind = if ks[j].ty.is_trait() { Kind::Trait } else { Kind::Singleton };
        setup.push(Step::Reg(ks[j].clone(), kind, vec![Dep { key: ks[(j + 1) % len].clone(), via: Via::Get }]));
      }
      for t in 0..n {
        plans[t].push(Step::Res(ks[t % len].clone(), Via::Get));
      }
      limit = Duration::from_millis(3000);
    }
    s => panic!("unknown scenario {s}"),
  }

  run_steps(&env, &setup);

  let barrier = Arc::new(Barrier::new(n + 2));
  let (txd, rxd) = mpsc::channel::<u32>();
  let mut all: Vec<(u32, Vec<Step>)> = plans.into_iter().enumerate().map(|(i, p)| (i as u32 + 2, p)).collect();
  all.push((n as u32 + 2, registrar));
  let mut expected: Vec<u32> = Vec::new();
  for (t, steps) in all {
    expected.push(t);
    let env = env.clone();
    let txd = txd.clone();
    let barrier = barrier.clone();
    std::thread::Builder::new()
      .name(format!("ioc-{t}"))
      .spawn(move || {
        set_tid(t);
        barrier.wait();
        run_steps(&env, &steps);
        let _ = txd.send(t);
      })
      .expect("spawn");
  }
  drop(txd);
  barrier.wait();

  // wait until every thread is done, or nothing has moved (no new record, no thread finished)
  // for `limit`: the threads are then blocked for good
  let mut last_len = log_len();
  let mut last_move = Instant::now();
  let mut done: Vec<u32> = Vec::new();
  while done.len() < expected.len() {
    match rxd.recv_timeout(Duration::from_millis(25)) {
      Ok(t) => {
        done.push(t);
        last_move = Instant::now();
      }
      Err(mpsc::RecvTimeoutError::Timeout) => {
        let n = log_len();
        if n != last_len {
          last_len = n;
          last_move = Instant::now();
        } else if last_move.elapsed() >= limit {
          break;
        }
      }
      Err(mpsc::RecvTimeoutError::Disconnected) => break,
    }
  }
  if done.len() < expected.len() {
    let mut ts: Vec<u32> = expected.into_iter().filter(|t| !done.contains(t)).collect();
    ts.sort();
    push(json!({"k":"hung","ts":ts}));
    push(json!({"k":"end"}));
    return true;
  }
  run_steps(&env, &finale);
  push(json!({"k":"end"}));
  false
}
