//! fv-iocx: drivers that run the real fibre_ioc code and record histories for
//! TLC (specs/ioc/IocTrace.tla).
//!
//!   fv-iocx ioc-seq    --container inst|local|global --out F [--programs-file P | --random N --ops M]
//!                      [--seed S] [--permute 1] [--stride K] [--limit L] [--chunk C]
//!   fv-iocx ioc-stress --container inst|global --out F --rounds R --threads 2,4,8
//!                      --scenarios first,rereg,transient,cycle [--seed S]
//!
//! The histories are produced by child processes of this binary (`--child 1`):
//! a stack overflow or abort inside the library kills only the child and is
//! recorded as a `crash` record, a hang is cut by a watchdog and recorded as
//! a `hung` record, a panic is caught and recorded as a `ret` with res = panic.
//! The global container is process-global, so in `--container global` every
//! sequential program gets its own process.

mod ctr;
mod model;
mod seq;
mod stress;

use serde_json::json;
use std::collections::HashMap;
use std::io::Write;
use std::process::Command;
use std::sync::mpsc;
use std::sync::Arc;
use std::time::Duration;

pub struct Args(HashMap<String, String>);
impl Args {
  fn parse(it: impl Iterator<Item = String>) -> Args {
    let mut m = HashMap::new();
    let v: Vec<String> = it.collect();
    let mut i = 0;
    while i < v.len() {
      if let Some(k) = v[i].strip_prefix("--") {
        let val = if i + 1 < v.len() && !v[i + 1].starts_with("--") {
          i += 1;
          v[i].clone()
        } else {
          "1".into()
        };
        m.insert(k.to_string(), val);
      }
      i += 1;
    }
    Args(m)
  }
  pub fn get(&self, k: &str, d: &str) -> String {
    self.0.get(k).cloned().unwrap_or_else(|| d.to_string())
  }
  pub fn num(&self, k: &str, d: u64) -> u64 {
    self.0.get(k).map(|s| s.parse().expect("number")).unwrap_or(d)
  }
  pub fn list(&self, k: &str, d: &str) -> Vec<String> {
    self.get(k, d).split(',').filter(|s| !s.is_empty()).map(|s| s.to_string()).collect()
  }
  pub fn has(&self, k: &str) -> bool {
    self.0.contains_key(k)
  }
}

fn main() {
  let mut it = std::env::args().skip(1);
  let cmd = it.next().unwrap_or_default();
  let args = Args::parse(it);
  // a panic inside library code is data: keep the default hook quiet
  std::panic::set_hook(Box::new(|_| {}));
  let child = args.has("child");
  match (cmd.as_str(), child) {
    ("ioc-seq", false) => parent_seq(&args),
    ("ioc-seq", true) => child_seq(&args),
    ("ioc-stress", false) => parent_stress(&args),
    ("ioc-stress", true) => child_stress(&args),
    _ => {
      eprintln!("usage: fv-iocx <ioc-seq|ioc-stress> [--key value]...");
      std::process::exit(2);
    }
  }
}

fn mix(seed: u64, x: u64) -> u64 {
  let mut r = seq::Rng(seed ^ x.wrapping_mul(0x9E37_79B9_7F4A_7C15));
  r.next()
}

// ------------------------------------------------------------------ children
const EXIT_HUNG: i32 = 3;

fn write_history(w: &mut impl Write, recs: &[String]) {
  for r in recs {
    writeln!(w, "{r}").unwrap();
  }
  w.flush().unwrap();
}

fn child_seq(a: &Args) {
  let flavour = a.get("container", "inst");
  let from = a.num("from", 0) as usize;
  let to = a.num("to", 0) as usize;
  let progs: Vec<String> = std::fs::read_to_string(a.get("progs", "")).expect("read progs").lines().map(|s| s.to_string()).collect();
  let progs = Arc::new(progs);
  let mut w = std::io::BufWriter::new(std::fs::File::create(a.get("out", "/dev/stdout")).expect("create out"));
  let (txj, rxj) = mpsc::channel::<usize>();
  let (txd, rxd) = mpsc::channel::<()>();
  {
    let progs = progs.clone();
    let flavour = flavour.clone();
    std::thread::Builder::new()
      .name("ioc-seq".into())
      .spawn(move || {
        for idx in rxj {
          let prog = model::parse_program(&progs[idx]);
          seq::run_program(&prog, &flavour, idx as u64);
          if txd.send(()).is_err() {
            break;
          }
        }
      })
      .expect("spawn");
  }
  for idx in from..to.min(progs.len()) {
    txj.send(idx).expect("worker alive");
    match rxd.recv_timeout(Duration::from_secs(5)) {
      Ok(()) => write_history(&mut w, &model::take()),
      Err(mpsc::RecvTimeoutError::Timeout) => {
        let mut recs = model::take();
        recs.push(json!({"k":"hung","ts":[1]}).to_string());
        recs.push(json!({"k":"end"}).to_string());
        write_history(&mut w, &recs);
        std::process::exit(EXIT_HUNG);
      }
      Err(mpsc::RecvTimeoutError::Disconnected) => {
        eprintln!("fv-iocx: the driver's worker thread died on program {idx}");
        std::process::exit(4);
      }
    }
  }
}

fn child_stress(a: &Args) {
  let global = a.get("container", "inst") == "global";
  let from = a.num("from", 0);
  let to = a.num("to", 0);
  let seed = a.num("seed", 1);
  let threads: Vec<usize> = a.list("threads", "2,4,8").iter().map(|s| s.parse().expect("threads")).collect();
  let scenarios: Vec<String> = a.list("scenarios", "first,rereg,transient").into_iter().filter(|s| !(global && s == "cycle")).collect();
  let mut w = std::io::BufWriter::new(std::fs::File::create(a.get("out", "/dev/stdout")).expect("create out"));
  for round in from..to {
    let r = stress::Round {
      scenario: scenarios[(round as usize) % scenarios.len()].clone(),
      threads: threads[(round as usize / scenarios.len()) % threads.len()],
      seed: mix(seed, round),
      global,
      round,
    };
    stress::run_round(&r);
    write_history(&mut w, &model::take());
  }
}

// ------------------------------------------------------------------- parents
#[derive(Default)]
struct Stats {
  programs: u64,
  histories: u64,
  records: u64,
  panics: u64,
  hung: u64,
  crashed: u64,
  skipped: u64,
  children: u64,
}

/// Runs one child over [from, to); appends its histories to `w`; returns the
/// index to continue from.
fn run_child(cmd: &str, a: &Args, extra: &[(&str, String)], from: u64, to: u64, child_out: &str, w: &mut impl Write, st: &mut Stats, flavour: &str, mode: &str) -> u64 {
  let exe = std::env::current_exe().expect("current exe");
  let mut c = Command::new(exe);
  c.arg(cmd).arg("--child").arg("1").arg("--from").arg(from.to_string()).arg("--to").arg(to.to_string()).arg("--out").arg(child_out);
  c.arg("--container").arg(flavour).arg("--seed").arg(a.get("seed", "1"));
  for (k, v) in extra {
    c.arg(format!("--{k}")).arg(v);
  }
  let status = c.status().expect("spawn child");
  st.children += 1;
  let text = std::fs::read_to_string(child_out).unwrap_or_default();
  let mut news = 0u64;
  for line in text.lines() {
    if line.contains("\"k\":\"new\"") {
      news += 1;
      st.histories += 1;
    }
    if line.contains("\"res\":\"panic\"") {
      st.panics += 1;
    }
    st.records += 1;
    writeln!(w, "{line}").unwrap();
  }
  let _ = std::fs::remove_file(child_out);
  match status.code() {
    Some(0) => to,
    Some(EXIT_HUNG) => {
      st.hung += 1;
      from + news
    }
    Some(4) | Some(2) => {
      eprintln!("fv-iocx: child failed (driver error)");
      std::process::exit(2);
    }
    other => {
      // killed by a signal (stack overflow -> SIGSEGV / SIGABRT) or an abort inside the library
      let idx = from + news;
      let what = match other {
        Some(c) => format!("exit code {c}"),
        None => format!("{status}"),
      };
      writeln!(w, "{}", json!({"k":"new","c":flavour,"mode":mode,"kf":[],"p":idx})).unwrap();
      writeln!(w, "{}", json!({"k":"crash","status":what})).unwrap();
      st.histories += 1;
      st.records += 2;
      st.crashed += 1;
      idx + 1
    }
  }
}

fn parent_seq(a: &Args) {
  let flavour = a.get("container", "inst");
  let local = flavour == "local";
  let global = flavour == "global";
  let seed = a.num("seed", 1);
  let out = a.get("out", "/dev/stdout");
  let permute = a.num("permute", 1) == 1;
  let mut st = Stats::default();
  // 1. the abstract programs
  let mut progs: Vec<Vec<model::OpD>> = Vec::new();
  if a.has("programs-file") {
    for path in a.list("programs-file", "") {
      for line in std::fs::read_to_string(&path).expect("read programs file").lines() {
        if !line.trim().is_empty() {
          progs.push(model::parse_program(line));
        }
      }
    }
  }
  let nrandom = a.num("random", 0);
  let ops = a.num("ops", 30) as usize;
  for p in 0..nrandom {
    let mut rng = seq::Rng(mix(seed, p));
    progs.push(seq::random_program(&mut rng, ops, local));
  }
  // 2. sampling, symmetry, API forms, what the flavour cannot express
  let stride = a.num("stride", 1).max(1);
  let offset = a.num("offset", 0);
  let limit = a.num("limit", u64::MAX);
  let mut lines: Vec<String> = Vec::new();
  for (i, p) in progs.iter().enumerate() {
    if (i as u64 + offset) % stride != 0 || lines.len() as u64 >= limit {
      continue;
    }
    if local && seq::uses_instance(p) {
      st.skipped += 1;
      continue;
    }
    let h = mix(seed, i as u64);
    let c = seq::concretise(p, if permute { h & 3 } else { 0 }, h >> 8, global, local);
    lines.push(serde_json::Value::Array(c.iter().map(|o| o.json()).collect()).to_string());
  }
  st.programs = lines.len() as u64;
  let progs_path = format!("{out}.progs");
  std::fs::write(&progs_path, lines.join("\n") + "\n").expect("write progs");
  // 3. children
  let mut w = std::io::BufWriter::new(std::fs::File::create(&out).expect("create out"));
  let n = lines.len() as u64;
  let chunk = if global { 1 } else { a.num("chunk", 5000) };
  let child_out = format!("{out}.child");
  let mut from = 0u64;
  let extra = [("progs", progs_path.clone())];
  if global {
    // one process per program; a few at a time
    let par = a.num("jobs", 6).max(1);
    while from < n {
      let hi = (from + par).min(n);
      let handles: Vec<_> = (from..hi)
        .map(|i| {
          let exe = std::env::current_exe().expect("current exe");
          let co = format!("{child_out}.{i}");
          let mut c = Command::new(exe);
          c.arg("ioc-seq").arg("--child").arg("1").arg("--from").arg(i.to_string()).arg("--to").arg((i + 1).to_string());
          c.arg("--out").arg(&co).arg("--container").arg("global").arg("--progs").arg(&progs_path);
          (i, co, c.spawn().expect("spawn child"))
        })
        .collect();
      for (i, co, mut h) in handles {
        let status = h.wait().expect("wait child");
        st.children += 1;
        let text = std::fs::read_to_string(&co).unwrap_or_default();
        let _ = std::fs::remove_file(&co);
        let mut news = 0;
        for line in text.lines() {
          if line.contains("\"k\":\"new\"") {
            news += 1;
          }
          if line.contains("\"res\":\"panic\"") {
            st.panics += 1;
          }
          st.records += 1;
          writeln!(w, "{line}").unwrap();
        }
        st.histories += 1;
        match status.code() {
          Some(0) => {}
          Some(EXIT_HUNG) => st.hung += 1,
          Some(4) | Some(2) => {
            eprintln!("fv-iocx: child failed (driver error)");
            std::process::exit(2);
          }
          other => {
            let what = match other {
              Some(c) => format!("exit code {c}"),
              None => format!("{status}"),
            };
            if news == 0 {
              writeln!(w, "{}", json!({"k":"new","c":"global","mode":"seq","kf":[],"p":i})).unwrap();
              st.records += 1;
            }
            writeln!(w, "{}", json!({"k":"crash","status":what})).unwrap();
            st.records += 1;
            st.crashed += 1;
          }
        }
      }
      from = hi;
    }
  } else {
    while from < n {
      let to = (from + chunk).min(n);
      from = run_child("ioc-seq", a, &extra, from, to, &child_out, &mut w, &mut st, &flavour, "seq");
    }
  }
  w.flush().unwrap();
  if !a.has("keep-progs") {
    let _ = std::fs::remove_file(&progs_path);
  }
  print_stats(&st);
}

fn parent_stress(a: &Args) {
  let flavour = a.get("container", "inst");
  let out = a.get("out", "/dev/stdout");
  let rounds = a.num("rounds", 30);
  let mut st = Stats::default();
  st.programs = rounds;
  let mut w = std::io::BufWriter::new(std::fs::File::create(&out).expect("create out"));
  let child_out = format!("{out}.child");
  let extra = [("threads", a.get("threads", "2,4,8")), ("scenarios", a.get("scenarios", "first,rereg,transient"))];
  let mut from = 0u64;
  while from < rounds {
    from = run_child("ioc-stress", a, &extra, from, rounds, &child_out, &mut w, &mut st, &flavour, "stress");
  }
  w.flush().unwrap();
  // hung rounds are recorded inside the histories
  print_stats(&st);
}

fn print_stats(st: &Stats) {
  println!(
    "{}",
    json!({"programs": st.programs, "histories": st.histories, "records": st.records, "panics": st.panics,
           "hung": st.hung, "crashed": st.crashed, "skipped": st.skipped, "children": st.children})
  );
}
