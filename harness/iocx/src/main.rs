fn main() {
  eprintln!("fv-iocx: not built yet");
  std::process::exit(2);
}
