//! Shared vocabulary of the IoC drivers: keys, kinds, resolution forms, the
//! service types that get registered, the global history log.
//!
//! The driver is the "user" of fibre_ioc: it logs what it calls and what it
//! gets back (plus what its own factories do); it never computes an expected
//! result.  Layer A (specs/ioc/IocA.tla) is the oracle.

use serde_json::{json, Value};
use std::cell::Cell;
use std::collections::HashMap;
use std::sync::atomic::{AtomicU32, Ordering};
use std::sync::Mutex;

// ---- the one global log ----------------------------------------------------
static LOG: Mutex<Vec<String>> = Mutex::new(Vec::new());
static NEXT_O: AtomicU32 = AtomicU32::new(1);
static NEXT_G: AtomicU32 = AtomicU32::new(1);
static NEXT_I: AtomicU32 = AtomicU32::new(1);
/// epoch of the current history: threads abandoned by an earlier (hung) history
/// carry an old epoch and are ignored
static EPOCH: AtomicU32 = AtomicU32::new(0);
/// first observed address of every instance id (Arc::ptr_eq / Rc::ptr_eq classes)
static PTRS: Mutex<Option<HashMap<u32, usize>>> = Mutex::new(None);

thread_local! {
  static TID: Cell<u32> = const { Cell::new(0) };
  static MY_EPOCH: Cell<u32> = const { Cell::new(0) };
}

pub fn set_tid(t: u32) {
  TID.with(|c| c.set(t));
  MY_EPOCH.with(|c| c.set(EPOCH.load(Ordering::SeqCst)));
}
pub fn tid() -> u32 {
  TID.with(|c| c.get())
}

fn lock<T>(m: &Mutex<T>) -> std::sync::MutexGuard<'_, T> {
  m.lock().unwrap_or_else(|e| e.into_inner())
}

pub fn push(v: Value) {
  let s = v.to_string();
  let mut g = lock(&LOG);
  if MY_EPOCH.with(|c| c.get()) == EPOCH.load(Ordering::SeqCst) {
    g.push(s);
  }
}

/// Starts a new history (the calling thread joins it).
pub fn begin() {
  let mut g = lock(&LOG);
  EPOCH.fetch_add(1, Ordering::SeqCst);
  g.clear();
  NEXT_O.store(1, Ordering::SeqCst);
  NEXT_G.store(1, Ordering::SeqCst);
  NEXT_I.store(1, Ordering::SeqCst);
  *lock(&PTRS) = Some(HashMap::new());
  drop(g);
  MY_EPOCH.with(|c| c.set(EPOCH.load(Ordering::SeqCst)));
}

/// Takes the records of the current history and closes it for stragglers.
pub fn take() -> Vec<String> {
  let mut g = lock(&LOG);
  EPOCH.fetch_add(1, Ordering::SeqCst);
  std::mem::take(&mut *g)
}

pub fn log_len() -> usize {
  lock(&LOG).len()
}

pub fn next_o() -> u32 {
  NEXT_O.fetch_add(1, Ordering::SeqCst)
}
pub fn next_g() -> u32 {
  NEXT_G.fetch_add(1, Ordering::SeqCst)
}
pub fn next_i() -> u32 {
  NEXT_I.fetch_add(1, Ordering::SeqCst)
}

/// true iff `ptr` is the address under which instance `id` was first seen
pub fn same_object(id: u32, ptr: usize) -> bool {
  let mut g = lock(&PTRS);
  let m = g.get_or_insert_with(HashMap::new);
  *m.entry(id).or_insert(ptr) == ptr
}

// ---- vocabulary ------------------------------------------------------------
#[derive(Clone, Copy, PartialEq, Eq, Debug)]
pub enum Ty {
  S0,
  S1,
  Q0,
  Q1,
}
impl Ty {
  pub fn as_str(self) -> &'static str {
    match self {
      Ty::S0 => "S0",
      Ty::S1 => "S1",
      Ty::Q0 => "Q0",
      Ty::Q1 => "Q1",
    }
  }
  pub fn parse(s: &str) -> Ty {
    match s {
      "S0" => Ty::S0,
      "S1" => Ty::S1,
      "Q0" => Ty::Q0,
      "Q1" => Ty::Q1,
      _ => panic!("unknown type {s}"),
    }
  }
  pub fn is_trait(self) -> bool {
    matches!(self, Ty::Q0 | Ty::Q1)
  }
}

#[derive(Clone, Copy, PartialEq, Eq, Debug)]
pub enum Kind {
  Instance,
  Singleton,
  Transient,
  Trait,
}
impl Kind {
  pub fn as_str(self) -> &'static str {
    match self {
      Kind::Instance => "instance",
      Kind::Singleton => "singleton",
      Kind::Transient => "transient",
      Kind::Trait => "trait",
    }
  }
  pub fn parse(s: &str) -> Kind {
    match s {
      "instance" => Kind::Instance,
      "singleton" => Kind::Singleton,
      "transient" => Kind::Transient,
      "trait" => Kind::Trait,
      _ => panic!("unknown kind {s}"),
    }
  }
}

/// The API form a resolution goes through.
#[derive(Clone, Copy, PartialEq, Eq, Debug)]
pub enum Via {
  Get,       // container.get::<T>(name)
  MaybeFrom, // maybe_resolve_from!(container, ...)
  From,      // resolve_from!(container, ...)      panics when missing
  Maybe,     // maybe_resolve!(...)                global container only
  Resolve,   // resolve!(...)                      global container only, panics when missing
}
impl Via {
  pub fn as_str(self) -> &'static str {
    match self {
      Via::Get => "get",
      Via::MaybeFrom => "maybe_resolve_from",
      Via::From => "resolve_from",
      Via::Maybe => "maybe_resolve",
      Via::Resolve => "resolve",
    }
  }
  pub fn parse(s: &str) -> Via {
    match s {
      "get" | "" => Via::Get,
      "maybe_resolve_from" => Via::MaybeFrom,
      "resolve_from" => Via::From,
      "maybe_resolve" => Via::Maybe,
      "resolve" => Via::Resolve,
      _ => panic!("unknown via {s}"),
    }
  }
  /// the global-container macros only exist for the global container
  pub fn normalise(self, is_global: bool) -> Via {
    match (self, is_global) {
      (Via::Maybe, false) => Via::MaybeFrom,
      (Via::Resolve, false) => Via::From,
      (v, _) => v,
    }
  }
  pub const ALL: [Via; 5] = [Via::Get, Via::MaybeFrom, Via::From, Via::Maybe, Via::Resolve];
}

#[derive(Clone, Debug, PartialEq, Eq)]
pub struct KeyD {
  pub c: usize,
  pub ty: Ty,
  pub name: Option<String>,
}
impl KeyD {
  pub fn new(c: usize, ty: Ty, name: Option<&str>) -> KeyD {
    KeyD { c, ty, name: name.map(|s| s.to_string()) }
  }
  pub fn json(&self) -> Value {
    let n = match &self.name {
      None => "-".to_string(),
      Some(s) => format!("={s}"),
    };
    json!([format!("c{}", self.c), self.ty.as_str(), n])
  }
  pub fn parse(v: &Value) -> KeyD {
    let c = v[0].as_str().expect("key[0]").trim_start_matches('c').parse().expect("container index");
    let ty = Ty::parse(v[1].as_str().expect("key[1]"));
    let n = v[2].as_str().expect("key[2]");
    let name = if n == "-" { None } else { Some(n.trim_start_matches('=').to_string()) };
    KeyD { c, ty, name }
  }
}

#[derive(Clone, Debug)]
pub struct Dep {
  pub key: KeyD,
  pub via: Via,
}

#[derive(Clone, Debug)]
pub enum OpD {
  Reg { key: KeyD, kind: Kind, deps: Vec<Dep> },
  Res { key: KeyD, via: Via },
}

impl OpD {
  pub fn json(&self) -> Value {
    match self {
      OpD::Reg { key, kind, deps } => json!({"op":"reg","key":key.json(),"kind":kind.as_str(),
        "deps": deps.iter().map(|d| json!({"key": d.key.json(), "via": d.via.as_str()})).collect::<Vec<_>>()}),
      OpD::Res { key, via } => json!({"op":"res","key":key.json(),"via":via.as_str()}),
    }
  }
  /// Accepts the TLC form (deps = list of keys, via possibly "") and the driver form.
  pub fn parse(v: &Value) -> OpD {
    let key = KeyD::parse(&v["key"]);
    match v["op"].as_str().expect("op") {
      "reg" => {
        let deps = v["deps"]
          .as_array()
          .map(|a| {
            a.iter()
              .map(|d| {
                if d.is_array() {
                  Dep { key: KeyD::parse(d), via: Via::Get }
                } else {
                  Dep { key: KeyD::parse(&d["key"]), via: Via::parse(d["via"].as_str().unwrap_or("get")) }
                }
              })
              .collect()
          })
          .unwrap_or_default();
        OpD::Reg { key, kind: Kind::parse(v["kind"].as_str().expect("kind")), deps }
      }
      "res" => OpD::Res { key, via: Via::parse(v["via"].as_str().unwrap_or("get")) },
      o => panic!("unknown op {o}"),
    }
  }
}

pub fn parse_program(line: &str) -> Vec<OpD> {
  let v: Value = serde_json::from_str(line).expect("program json");
  v.as_array().expect("program = array of ops").iter().map(OpD::parse).collect()
}

// ---- the services ----------------------------------------------------------
// Every object carries its unique instance id and the generation (registration
// serial) of the registration that built it.  Deliberately not Clone.
pub struct S0 {
  pub id: u32,
  pub g: u32,
}
pub struct S1 {
  pub id: u32,
  pub g: u32,
}
pub trait Q0: Send + Sync {
  fn ident(&self) -> (u32, u32);
}
pub trait Q1: Send + Sync {
  fn ident(&self) -> (u32, u32);
}
pub struct Q0Impl {
  pub id: u32,
  pub g: u32,
}
pub struct Q1Impl {
  pub id: u32,
  pub g: u32,
}
impl Q0 for Q0Impl {
  fn ident(&self) -> (u32, u32) {
    (self.id, self.g)
  }
}
impl Q1 for Q1Impl {
  fn ident(&self) -> (u32, u32) {
    (self.id, self.g)
  }
}

/// What a resolution handed back.
#[derive(Clone, Copy, Debug)]
pub struct Obs {
  pub id: u32,
  pub g: u32,
  pub ptr: usize,
}

/// How much a factory dawdles (widens the race window in the stress driver).
#[derive(Clone, Copy, Debug)]
pub enum Widen {
  None,
  Yield(u32),
  SleepUs(u64),
}
impl Widen {
  pub fn pause(self) {
    match self {
      Widen::None => {}
      Widen::Yield(n) => {
        for _ in 0..n {
          std::thread::yield_now()
        }
      }
      Widen::SleepUs(us) => std::thread::sleep(std::time::Duration::from_micros(us)),
    }
  }
}

// ---- records ---------------------------------------------------------------
pub fn rec_new(container: &str, mode: &str, p: u64, extra: Value) {
  let mut v = json!({"k":"new","c":container,"mode":mode,"kf":[],"p":p});
  if let (Some(m), Some(e)) = (v.as_object_mut(), extra.as_object()) {
    for (k, x) in e {
      m.insert(k.clone(), x.clone());
    }
  }
  push(v);
}

pub fn rec_call_reg(o: u32, key: &KeyD, kind: Kind, g: u32, i: u32, deps: &[Dep]) {
  push(json!({"k":"call","t":tid(),"o":o,"op":"reg","key":key.json(),"kind":kind.as_str(),"g":g,"i":i,
    "deps": deps.iter().map(|d| d.key.json()).collect::<Vec<_>>()}));
}

pub fn rec_call_res(o: u32, key: &KeyD, via: Via) {
  push(json!({"k":"call","t":tid(),"o":o,"op":"res","key":key.json(),"via":via.as_str()}));
}

pub fn rec_ret(o: u32, res: &str, i: u32, ig: u32, peq: bool, pk: &str, msg: &str) {
  if msg.is_empty() {
    push(json!({"k":"ret","t":tid(),"o":o,"res":res,"i":i,"ig":ig,"peq":peq,"pk":pk}));
  } else {
    push(json!({"k":"ret","t":tid(),"o":o,"res":res,"i":i,"ig":ig,"peq":peq,"pk":pk,"msg":msg}));
  }
}

pub fn panic_message(e: &(dyn std::any::Any + Send)) -> String {
  if let Some(s) = e.downcast_ref::<String>() {
    s.clone()
  } else if let Some(s) = e.downcast_ref::<&str>() {
    s.to_string()
  } else {
    "panic".into()
  }
}

/// Classifies a panic message the way the documentation words it.
pub fn panic_kind(msg: &str) -> &'static str {
  if msg.starts_with("Circular dependency detected") {
    "cycle"
  } else if msg.starts_with("Failed to resolve required") {
    "missing"
  } else {
    "other"
  }
}

/// Runs one resolution through `raw`, logging call and return.  A panic is
/// logged and handed back to the caller (a factory re-raises it, the top level
/// swallows it).
pub fn do_res(key: &KeyD, via: Via, raw: impl FnOnce() -> Option<Obs>) -> Result<Option<Obs>, Box<dyn std::any::Any + Send>> {
  let o = next_o();
  rec_call_res(o, key, via);
  match std::panic::catch_unwind(std::panic::AssertUnwindSafe(raw)) {
    Ok(Some(ob)) => {
      let peq = same_object(ob.id, ob.ptr);
      rec_ret(o, "some", ob.id, ob.g, peq, "", "");
      Ok(Some(ob))
    }
    Ok(None) => {
      rec_ret(o, "none", 0, 0, true, "", "");
      Ok(None)
    }
    Err(p) => {
      let msg = panic_message(&*p);
      let short: String = msg.chars().take(60).collect();
      rec_ret(o, "panic", 0, 0, true, panic_kind(&msg), &short);
      Err(p)
    }
  }
}

/// The body of every factory the driver registers: reports start, resolves the
/// dependencies (`resolve_deps` re-raises their panics), reports the new
/// instance id -- or that it unwound.
pub fn fac_body(g: u32, widen: Widen, resolve_deps: impl FnOnce()) -> u32 {
  struct Unwound {
    t: u32,
    g: u32,
    done: bool,
  }
  impl Drop for Unwound {
    fn drop(&mut self) {
      if !self.done {
        push(json!({"k":"fpanic","t":self.t,"g":self.g}));
      }
    }
  }
  let t = tid();
  push(json!({"k":"fstart","t":t,"g":g}));
  let mut guard = Unwound { t, g, done: false };
  widen.pause();
  resolve_deps();
  widen.pause();
  let i = next_i();
  push(json!({"k":"fend","t":t,"g":g,"i":i}));
  guard.done = true;
  i
}
