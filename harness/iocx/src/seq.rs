//! Sequential programs: a list of registrations and resolutions replayed on
//! one container flavour from one thread.  Programs come from TLC (the
//! generator configurations of MC_IocA print them) or from a seeded random
//! generator over the full alphabet.

use crate::ctr::{AEnv, LEnv};
use crate::model::*;
use serde_json::json;

pub struct Rng(pub u64);
impl Rng {
  pub fn next(&mut self) -> u64 {
    self.0 = self.0.wrapping_add(0x9E37_79B9_7F4A_7C15);
    let mut z = self.0;
    z = (z ^ (z >> 30)).wrapping_mul(0xBF58_476D_1CE4_E5B9);
    z = (z ^ (z >> 27)).wrapping_mul(0x94D0_49BB_1331_11EB);
    z ^ (z >> 31)
  }
  pub fn below(&mut self, n: u64) -> u64 {
    self.next() % n.max(1)
  }
  pub fn chance(&mut self, num: u64, den: u64) -> bool {
    self.below(den) < num
  }
  pub fn pick<'a, T>(&mut self, v: &'a [T]) -> &'a T {
    &v[self.below(v.len() as u64) as usize]
  }
}

pub fn uses_instance(prog: &[OpD]) -> bool {
  prog.iter().any(|o| matches!(o, OpD::Reg { kind: Kind::Instance, .. }))
}

pub fn containers_used(prog: &[OpD]) -> usize {
  let mut m = 0;
  for o in prog {
    match o {
      OpD::Reg { key, deps, .. } => {
        m = m.max(key.c);
        for d in deps {
          m = m.max(d.key.c)
        }
      }
      OpD::Res { key, .. } => m = m.max(key.c),
    }
  }
  m + 1
}

/// TLC enumerates programs with interchangeable types / names in canonical
/// first-use order; `perm` (bit 0: swap S0/S1 and Q0/Q1, bit 1: swap names a/b)
/// picks another member of the symmetry class.  `rot` rotates the API forms
/// of the resolutions, which TLC leaves to the driver.
pub fn concretise(prog: &[OpD], perm: u64, rot: u64, global: bool, local: bool) -> Vec<OpD> {
  let swap_ty = perm & 1 == 1;
  let swap_nm = perm & 2 == 2;
  let fk = |k: &KeyD| -> KeyD {
    let ty = if swap_ty {
      match k.ty {
        Ty::S0 => Ty::S1,
        Ty::S1 => Ty::S0,
        Ty::Q0 => Ty::Q1,
        Ty::Q1 => Ty::Q0,
      }
    } else {
      k.ty
    };
    let name = k.name.as_ref().map(|n| {
      if swap_nm {
        match n.as_str() {
          "a" => "b".to_string(),
          "b" => "a".to_string(),
          o => o.to_string(),
        }
      } else {
        n.clone()
      }
    });
    KeyD { c: k.c, ty, name }
  };
  let forms: &[Via] = if local {
    &[Via::Get, Via::MaybeFrom, Via::From]
  } else if global {
    &[Via::Get, Via::Maybe, Via::Resolve, Via::MaybeFrom, Via::From]
  } else {
    &[Via::Get, Via::MaybeFrom, Via::From]
  };
  let mut n = rot;
  let mut pick = |given: Via| -> Via {
    if given != Via::Get {
      return given;
    }
    n += 1;
    forms[(n % forms.len() as u64) as usize]
  };
  prog
    .iter()
    .map(|o| match o {
      OpD::Reg { key, kind, deps } => OpD::Reg {
        key: fk(key),
        kind: *kind,
        deps: deps.iter().map(|d| Dep { key: fk(&d.key), via: pick(d.via) }).collect(),
      },
      OpD::Res { key, via } => OpD::Res { key: fk(key), via: pick(*via) },
    })
    .collect()
}

/// A random program over 2 containers (mostly the first), 4 types, names
/// {unnamed, "a", "b", ""}, all kinds, factories with up to 2 dependencies.
pub fn random_program(rng: &mut Rng, ops: usize, local: bool) -> Vec<OpD> {
  let names: [Option<&str>; 4] = [None, Some("a"), Some("b"), Some("")];
  let tys = [Ty::S0, Ty::S1, Ty::Q0, Ty::Q1];
  // a small working set of keys so that they collide often
  let nkeys = 2 + rng.below(5) as usize;
  let two = rng.chance(1, 4);
  let keys: Vec<KeyD> = (0..nkeys)
    .map(|_| KeyD::new(if two && rng.chance(1, 3) { 1 } else { 0 }, *rng.pick(&tys), *rng.pick(&names)))
    .collect();
  let dep_pct = *rng.pick(&[0u64, 20, 50]);
  let mut prog = Vec::new();
  for _ in 0..ops {
    let key = rng.pick(&keys).clone();
    if rng.chance(2, 5) {
      let kind = if key.ty.is_trait() {
        Kind::Trait
      } else {
        let ks: &[Kind] = if local { &[Kind::Singleton, Kind::Transient] } else { &[Kind::Instance, Kind::Singleton, Kind::Transient] };
        *rng.pick(ks)
      };
      let mut deps = Vec::new();
      if kind != Kind::Instance {
        while deps.len() < 2 && rng.chance(dep_pct, 100) {
          deps.push(Dep { key: rng.pick(&keys).clone(), via: *rng.pick(&[Via::Get, Via::Get, Via::MaybeFrom, Via::From]) });
        }
      }
      prog.push(OpD::Reg { key, kind, deps });
    } else {
      prog.push(OpD::Res { key, via: *rng.pick(&Via::ALL) });
    }
  }
  prog
}

/// Runs one program; the history is left in the global log.
pub fn run_program(prog: &[OpD], flavour: &str, p: u64) {
  begin();
  set_tid(1);
  let n = containers_used(prog);
  rec_new(flavour, "seq", p, json!({}));
  match flavour {
    "inst" | "global" => {
      let env = AEnv::new(flavour == "global", n, Widen::None);
      for op in prog {
        match op {
          OpD::Reg { key, kind, deps } => AEnv::register(&env, key, *kind, deps),
          OpD::Res { key, via } => {
            let _ = env.resolve(key, *via);
          }
        }
      }
    }
    "local" => {
      let env = LEnv::new(n);
      for op in prog {
        match op {
          OpD::Reg { key, kind, deps } => LEnv::register(&env, key, *kind, deps),
          OpD::Res { key, via } => {
            let _ = env.resolve(key, *via);
          }
        }
      }
    }
    f => panic!("unknown container flavour {f}"),
  }
  push(json!({"k":"end"}));
}
