//! The containers under test behind one small interface: the thread-safe
//! `Container` (own instances and `global()`) and the single-threaded
//! `LocalContainer`.  Every API form of ioc/src/{container,local_container,
//! macros}.rs is reachable from here.

use crate::model::*;
use fibre_ioc::{global, maybe_resolve, maybe_resolve_from, resolve, resolve_from, Container, LocalContainer};
use std::cell::RefCell;
use std::rc::Rc;
use std::sync::Arc;

// ---------------------------------------------------------------- thread-safe
pub enum ACtr {
  Global,
  Inst(Container),
}

/// The containers of one history.  Factories hold a `Weak` to it.
pub struct AEnv {
  pub cs: Vec<ACtr>,
  pub widen: Widen,
}

impl AEnv {
  pub fn new(global_first: bool, n: usize, widen: Widen) -> Arc<AEnv> {
    let cs = (0..n).map(|i| if i == 0 && global_first { ACtr::Global } else { ACtr::Inst(Container::new()) }).collect();
    Arc::new(AEnv { cs, widen })
  }
  pub fn is_global(&self, c: usize) -> bool {
    matches!(self.cs[c], ACtr::Global)
  }
  fn ctr(&self, c: usize) -> &Container {
    match &self.cs[c] {
      ACtr::Global => global(),
      ACtr::Inst(c) => c,
    }
  }

  /// One resolution through the given API form, logged.
  pub fn resolve(&self, key: &KeyD, via: Via) -> Result<Option<Obs>, Box<dyn std::any::Any + Send>> {
    let via = via.normalise(self.is_global(key.c));
    do_res(key, via, || self.raw_resolve(key, via))
  }

  fn raw_resolve(&self, key: &KeyD, via: Via) -> Option<Obs> {
    let c: &Container = self.ctr(key.c);
    let name = key.name.as_deref();
    macro_rules! plain {
      ($T:ty) => {{
        let r: Option<Arc<$T>> = match (via, name) {
          (Via::Get, n) => c.get::<$T>(n),
          (Via::MaybeFrom, None) => maybe_resolve_from!(c, $T),
          (Via::MaybeFrom, Some(n)) => maybe_resolve_from!(c, $T, n),
          (Via::From, None) => Some(resolve_from!(c, $T)),
          (Via::From, Some(n)) => Some(resolve_from!(c, $T, n)),
          (Via::Maybe, None) => maybe_resolve!($T),
          (Via::Maybe, Some(n)) => maybe_resolve!($T, n),
          (Via::Resolve, None) => Some(resolve!($T)),
          (Via::Resolve, Some(n)) => Some(resolve!($T, n)),
        };
        r.map(|a| Obs { id: a.id, g: a.g, ptr: Arc::as_ptr(&a) as usize })
      }};
    }
    macro_rules! traity {
      ($Tr:ident) => {{
        let r: Option<Arc<dyn $Tr>> = match (via, name) {
          (Via::Get, n) => c.get::<dyn $Tr>(n),
          (Via::MaybeFrom, None) => maybe_resolve_from!(c, trait $Tr),
          (Via::MaybeFrom, Some(n)) => maybe_resolve_from!(c, trait $Tr, n),
          (Via::From, None) => Some(resolve_from!(c, trait $Tr)),
          (Via::From, Some(n)) => Some(resolve_from!(c, trait $Tr, n)),
          (Via::Maybe, None) => maybe_resolve!(trait $Tr),
          (Via::Maybe, Some(n)) => maybe_resolve!(trait $Tr, n),
          (Via::Resolve, None) => Some(resolve!(trait $Tr)),
          (Via::Resolve, Some(n)) => Some(resolve!(trait $Tr, n)),
        };
        r.map(|a| {
          let (id, g) = a.ident();
          Obs { id, g, ptr: Arc::as_ptr(&a) as *const () as usize }
        })
      }};
    }
    match key.ty {
      Ty::S0 => plain!(S0),
      Ty::S1 => plain!(S1),
      Ty::Q0 => traity!(Q0),
      Ty::Q1 => traity!(Q1),
    }
  }

  /// One registration, logged.  `me` is the Arc this env lives in.
  pub fn register(me: &Arc<AEnv>, key: &KeyD, kind: Kind, deps: &[Dep]) {
    let o = next_o();
    let g = next_g();
    let inst = if kind == Kind::Instance { next_i() } else { 0 };
    rec_call_reg(o, key, kind, g, inst, deps);
    let r = std::panic::catch_unwind(std::panic::AssertUnwindSafe(|| Self::raw_register(me, key, kind, g, inst, deps.to_vec())));
    match r {
      Ok(()) => rec_ret(o, "ok", 0, 0, true, "", ""),
      Err(p) => {
        let msg = panic_message(&*p);
        rec_ret(o, "panic", 0, 0, true, "other", &msg.chars().take(60).collect::<String>());
      }
    }
  }

  fn raw_register(me: &Arc<AEnv>, key: &KeyD, kind: Kind, g: u32, inst: u32, deps: Vec<Dep>) {
    let w = Arc::downgrade(me);
    let c: &Container = me.ctr(key.c);
    // the factory: resolves its dependencies from this env, then builds the object
    let fac = move || -> u32 {
      let env = w.upgrade().expect("env alive while its containers are used");
      fac_body(g, env.widen, || {
        for d in &deps {
          if let Err(p) = env.resolve(&d.key, d.via) {
            std::panic::resume_unwind(p);
          }
        }
      })
    };
    let name = key.name.as_deref();
    macro_rules! plain {
      ($T:ident) => {
        match (kind, name) {
          (Kind::Instance, None) => c.add_instance($T { id: inst, g }),
          (Kind::Instance, Some(n)) => c.add_instance_with_name(n, $T { id: inst, g }),
          (Kind::Singleton, None) => c.add_singleton(move || $T { id: fac(), g }),
          (Kind::Singleton, Some(n)) => c.add_singleton_with_name(n, move || $T { id: fac(), g }),
          (Kind::Transient, None) => c.add_transient(move || $T { id: fac(), g }),
          (Kind::Transient, Some(n)) => c.add_transient_with_name(n, move || $T { id: fac(), g }),
          (Kind::Trait, _) => panic!("driver: trait kind on a concrete type"),
        }
      };
    }
    macro_rules! traity {
      ($Tr:ident, $Impl:ident) => {
        match (kind, name) {
          (Kind::Trait, None) => c.add_singleton_trait::<dyn $Tr>(move || Arc::new($Impl { id: fac(), g }) as Arc<dyn $Tr>),
          (Kind::Trait, Some(n)) => {
            c.add_singleton_trait_with_name::<dyn $Tr>(n, move || Arc::new($Impl { id: fac(), g }) as Arc<dyn $Tr>)
          }
          _ => panic!("driver: plain kind on a trait-object type"),
        }
      };
    }
    match key.ty {
      Ty::S0 => plain!(S0),
      Ty::S1 => plain!(S1),
      Ty::Q0 => traity!(Q0, Q0Impl),
      Ty::Q1 => traity!(Q1, Q1Impl),
    }
  }
}

// ------------------------------------------------------------ single-threaded
pub struct LEnv {
  pub cs: Vec<RefCell<LocalContainer>>,
}

impl LEnv {
  pub fn new(n: usize) -> Rc<LEnv> {
    Rc::new(LEnv { cs: (0..n).map(|_| RefCell::new(LocalContainer::new())).collect() })
  }

  pub fn resolve(&self, key: &KeyD, via: Via) -> Result<Option<Obs>, Box<dyn std::any::Any + Send>> {
    let via = via.normalise(false);
    do_res(key, via, || self.raw_resolve(key, via))
  }

  fn raw_resolve(&self, key: &KeyD, via: Via) -> Option<Obs> {
    let b = self.cs[key.c].borrow();
    let c: &LocalContainer = &b;
    let name = key.name.as_deref();
    macro_rules! plain {
      ($T:ty) => {{
        let r: Option<Rc<$T>> = match (via, name) {
          (Via::Get, n) => c.get::<$T>(n),
          (Via::MaybeFrom, None) => maybe_resolve_from!(c, $T),
          (Via::MaybeFrom, Some(n)) => maybe_resolve_from!(c, $T, n),
          (Via::From, None) => Some(resolve_from!(c, $T)),
          (Via::From, Some(n)) => Some(resolve_from!(c, $T, n)),
          _ => unreachable!("global macros on a local container"),
        };
        r.map(|a| Obs { id: a.id, g: a.g, ptr: Rc::as_ptr(&a) as usize })
      }};
    }
    macro_rules! traity {
      ($Tr:ident) => {{
        let r: Option<Rc<dyn $Tr>> = match (via, name) {
          (Via::Get, n) => c.get::<dyn $Tr>(n),
          (Via::MaybeFrom, None) => maybe_resolve_from!(c, trait $Tr),
          (Via::MaybeFrom, Some(n)) => maybe_resolve_from!(c, trait $Tr, n),
          (Via::From, None) => Some(resolve_from!(c, trait $Tr)),
          (Via::From, Some(n)) => Some(resolve_from!(c, trait $Tr, n)),
          _ => unreachable!("global macros on a local container"),
        };
        r.map(|a| {
          let (id, g) = a.ident();
          Obs { id, g, ptr: Rc::as_ptr(&a) as *const () as usize }
        })
      }};
    }
    match key.ty {
      Ty::S0 => plain!(S0),
      Ty::S1 => plain!(S1),
      Ty::Q0 => traity!(Q0),
      Ty::Q1 => traity!(Q1),
    }
  }

  /// LocalContainer has no add_instance; the caller filters such programs out.
  pub fn register(me: &Rc<LEnv>, key: &KeyD, kind: Kind, deps: &[Dep]) {
    let o = next_o();
    let g = next_g();
    rec_call_reg(o, key, kind, g, 0, deps);
    let r = std::panic::catch_unwind(std::panic::AssertUnwindSafe(|| Self::raw_register(me, key, kind, g, deps.to_vec())));
    match r {
      Ok(()) => rec_ret(o, "ok", 0, 0, true, "", ""),
      Err(p) => {
        let msg = panic_message(&*p);
        rec_ret(o, "panic", 0, 0, true, "other", &msg.chars().take(60).collect::<String>());
      }
    }
  }

  fn raw_register(me: &Rc<LEnv>, key: &KeyD, kind: Kind, g: u32, deps: Vec<Dep>) {
    let w = Rc::downgrade(me);
    let fac = move || -> u32 {
      let env = w.upgrade().expect("env alive while its containers are used");
      fac_body(g, Widen::None, || {
        for d in &deps {
          if let Err(p) = env.resolve(&d.key, d.via) {
            std::panic::resume_unwind(p);
          }
        }
      })
    };
    let mut c = me.cs[key.c].borrow_mut();
    let name = key.name.as_deref();
    macro_rules! plain {
      ($T:ident) => {
        match (kind, name) {
          (Kind::Singleton, None) => c.add_singleton(move || $T { id: fac(), g }),
          (Kind::Singleton, Some(n)) => c.add_singleton_with_name(n, move || $T { id: fac(), g }),
          (Kind::Transient, None) => c.add_transient(move || $T { id: fac(), g }),
          (Kind::Transient, Some(n)) => c.add_transient_with_name(n, move || $T { id: fac(), g }),
          _ => panic!("driver: kind not available on LocalContainer"),
        }
      };
    }
    macro_rules! traity {
      ($Tr:ident, $Impl:ident) => {
        match (kind, name) {
          (Kind::Trait, None) => c.add_singleton_trait::<dyn $Tr>(move || Rc::new($Impl { id: fac(), g }) as Rc<dyn $Tr>),
          (Kind::Trait, Some(n)) => {
            c.add_singleton_trait_with_name::<dyn $Tr>(n, move || Rc::new($Impl { id: fac(), g }) as Rc<dyn $Tr>)
          }
          _ => panic!("driver: plain kind on a trait-object type"),
        }
      };
    }
    match key.ty {
      Ty::S0 => plain!(S0),
      Ty::S1 => plain!(S1),
      Ty::Q0 => traity!(Q0, Q0Impl),
      Ty::Q1 => traity!(Q1, Q1Impl),
    }
  }
}
