//! chan-sched: multi-thread scenarios on one channel under the cooperative
//! scheduler (`ctl`).  Producers send with a random mix of send forms, consumers
//! receive until Disconnected (or leave early), futures are driven by a
//! park-based block_on whose waker goes through the scheduler.  Every call and
//! return is recorded; the scheduler's verdict "nothing can run" becomes a
//! `quiesce` record with the operations the blocked threads are inside.

use crate::ctl::{Ctl, Outcome, Strategy};
use crate::dynh::*;
use crate::hist::{self, Tok};
use fibre::verif::Controller;
use rand::rngs::StdRng;
use rand::{Rng, SeedableRng};
use std::sync::atomic::{AtomicBool, AtomicU32, Ordering};
use std::sync::Arc;
use std::task::{Context, Wake, Waker};
use std::time::Duration;

pub struct Cfg {
  pub flavour: String,
  pub cap: usize,
  pub producers: usize,
  pub consumers: usize,
  pub items: usize,
  pub seed: u64,
  pub strategy: String,
  /// "drain" (consumers receive until Disconnected) | "leave" (consumers quit early, producers must see Closed)
  /// | "prefill" (sequential prefix fills the buffer first) | "batchrace" (drain with batch-only producers)
  pub shape: String,
  pub kf: Vec<String>,
  pub trace: bool,
  /// systematic exploration: initial priorities and change points (thread, local step) instead of a sampled strategy
  pub explicit: Option<(Vec<i64>, Vec<(usize, u64)>)>,
}

struct ThreadWaker {
  ctl: Arc<Ctl>,
  th: std::thread::Thread,
}
impl Wake for ThreadWaker {
  fn wake(self: Arc<Self>) {
    self.wake_by_ref()
  }
  fn wake_by_ref(self: &Arc<Self>) {
    self.ctl.unpark(self.th.id());
    self.th.unpark();
  }
}

#[track_caller]
fn block_on(ctl: &Arc<Ctl>, mut fut: Box<dyn DynFut>, salt: u32) -> OpOut {
  let w = Arc::new(ThreadWaker { ctl: ctl.clone(), th: std::thread::current() });
  let waker = Waker::from(w);
  let mut cx = Context::from_waker(&waker);
  let mut n = 0u32;
  loop {
    if let Some(out) = fut.poll(&mut cx) {
      return out;
    }
    // some Pendings are followed by a re-poll without waiting for the wake (an executor
    // may poll spuriously: select!/join!/timers), otherwise park; which ones depends on the seed
    n += 1;
    if (n + salt) % 3 == 2 || (salt % 5 == 0 && n == 1) {
      Controller::spin(&**ctl, std::panic::Location::caller());
    } else {
      Controller::park(&**ctl, None, std::panic::Location::caller());
    }
  }
}

enum Role {
  Producer { h: (u32, Box<dyn DynTx>), plan: Vec<(&'static str, Vec<u32>)>, close_at_end: bool },
  Consumer { h: (u32, Box<dyn DynRx>), forms: Vec<(&'static str, usize)>, quit_after: Option<usize>, hold: bool },
}

/// Shape "hold": a consumer that has taken its share keeps its handle and waits (parked, outside
/// any channel operation) until every producer is done - progress must not depend on further receives.
struct Linger {
  producers_left: AtomicU32,
  waiting: std::sync::Mutex<Vec<std::thread::Thread>>,
}

/// Per-thread operation currently in flight (for the quiesce record).
struct Cur(Vec<AtomicU32>);

pub struct RunStat {
  pub outcome: Outcome,
  pub leaked: usize,
  pub records: Vec<String>,
  pub trace: Vec<String>,
}

pub fn run_scenario(cfg: &Cfg) -> RunStat {
  let fl = flavour(&cfg.flavour);
  let cap = if (fl.kind == "q" || fl.kind == "bc") && fl.bounded { cfg.cap } else { 0 };
  let mut rng = StdRng::seed_from_u64(cfg.seed);
  let (t0, r0) = make(&cfg.flavour, cfg.cap.max(1));
  let tinfo = t0.info();
  let rinfo = r0.info();
  let np = if tinfo.clone { cfg.producers } else { 1 };
  let nc = if rinfo.clone { cfg.consumers } else { 1 };

  // handles: ids 1..np are senders, 101.. receivers
  let mut txs: Vec<(u32, Box<dyn DynTx>)> = vec![];
  let mut rxs: Vec<(u32, Box<dyn DynRx>)> = vec![];
  for i in 1..np {
    txs.push((1 + i as u32, t0.dup().unwrap()));
  }
  txs.insert(0, (1, t0));
  for i in 1..nc {
    rxs.push((101 + i as u32, r0.dup().unwrap()));
  }
  rxs.insert(0, (101, r0));
  let txids: Vec<u32> = txs.iter().map(|x| x.0).collect();
  let rxids: Vec<u32> = rxs.iter().map(|x| x.0).collect();

  let gen_ = hist::begin();
  hist::rec_new(fl.kind, cap, &txids, &rxids, &cfg.flavour, &cfg.kf);

  // shape "prefill": a sequential prefix brings the channel into an interesting state
  // (full, then partially drained) before the threads start racing for the last slots
  if cfg.shape == "prefill" && fl.kind == "q" && cap > 0 {
    let mut o = 9000u32;
    let mut v = 90_000u32;
    for _ in 0..cap {
      o += 1;
      v += 1;
      hist::rec_call(o, txids[0], "try_send", &[v], 0, false);
      let out = txs[0].1.sync_op("try_send", vec![Tok::new(v)]);
      hist::rec_ret(o, out.res, out.n, &out.vals, &out.back);
    }
    let drain = rng.random_range(0..=cap.min(2));
    for _ in 0..drain {
      o += 1;
      hist::rec_call(o, rxids[0], "try_recv", &[], 1, false);
      let out = rxs[0].1.sync_op("try_recv", 1, Duration::from_millis(1));
      hist::rec_ret(o, out.res, out.n, &out.vals, &out.back);
    }
  }

  let n = np + nc;
  // PCT: the expected run length k is drawn per run (many races sit in the first few steps,
  // others need a long prefix), d-1 priority change points fall uniformly in 1..k
  let ks = [6u64, 12, 25, 50, 100, 200, 400];
  let k = ks[((cfg.seed / 7) % ks.len() as u64) as usize];
  let strat = match cfg.strategy.as_str() {
    _ if cfg.explicit.is_some() => {
      let (prios, cps) = cfg.explicit.clone().unwrap();
      Strategy::PctExplicit { prios, cps }
    }
    "pct" => Strategy::Pct { d: 2, k },
    "pct5" => Strategy::Pct { d: 3, k },
    _ => Strategy::Random { p: 0.25 },
  };
  let ctl = Ctl::new(n, cfg.seed ^ 0x9e3779b97f4a7c15, strat);
  ctl.set_noise(if cfg.explicit.is_some() { 0.0 } else { 0.05 }, 0.0);
  if cfg.trace {
    ctl.enable_trace();
  }
  let dynctl: Arc<dyn Controller> = ctl.clone();
  fibre::verif::set_global(Some(dynctl));

  let cur = Arc::new(Cur((0..n).map(|_| AtomicU32::new(0)).collect()));
  let abort = Arc::new(AtomicBool::new(false));
  let mut next_val = 0u32;
  let mut roles = vec![];
  for (pi, h) in txs.into_iter().enumerate() {
    // plan: items split into single and batch sends
    let mut plan = vec![];
    let mut left = cfg.items;
    while left > 0 {
      let mut forms: Vec<&'static str> = vec!["send", "try_send"];
      if cfg.shape == "prefill" || cfg.shape == "manyrx" {
        forms = vec!["try_send", "try_send", "send"];
      }
      if tinfo.batch && left >= 2 {
        if cfg.shape == "batchrace" {
          // several producers claim runs of slots at the edge of the window
          forms = vec!["send_batch", "send_batch_mut", "try_send_batch", "send_batch"];
        } else {
          forms.extend(["send_batch", "send_batch_mut", "try_send_batch"]);
        }
      }
      let f = forms[rng.random_range(0..forms.len())];
      let k = if f.contains("batch") { rng.random_range(2..=left.min(3)) } else { 1 };
      let vs: Vec<u32> = (0..k)
        .map(|_| {
          next_val += 1;
          (pi as u32 + 1) * 1000 + next_val
        })
        .collect();
      plan.push((f, vs));
      left -= k;
    }
    roles.push(Role::Producer { h, plan, close_at_end: rng.random_bool(0.3) });
  }
  for h in rxs.into_iter() {
    let mut forms: Vec<(&'static str, usize)> = vec![("recv", 1), ("try_recv", 1)];
    if cfg.shape == "manyrx" {
      forms = vec![("recv", 1), ("recv", 1)];
    }
    if rinfo.timeout && !rinfo.is_async {
      forms.push(("recv_timeout", 1));
    }
    if rinfo.batch {
      forms.push(("recv_batch", 2));
      forms.push(("recv_batch_mut", 3));
      forms.push(("try_recv_batch", 2));
    }
    // shape "hold": every consumer takes a quota; some then leave (drop the handle while senders may be
    // parked), the others keep the handle and wait for the producers
    let hold = cfg.shape == "hold" && rng.random_bool(0.6);
    let quit_after = if cfg.shape == "leave" {
      Some(rng.random_range(0..=cfg.items))
    } else if hold {
      Some(rng.random_range(1..=(cfg.items * np).max(1)))
    } else if cfg.shape == "hold" {
      Some(rng.random_range(0..=1))
    } else {
      None
    };
    roles.push(Role::Consumer { h, forms, quit_after, hold });
  }

  let linger = Arc::new(Linger { producers_left: AtomicU32::new(np as u32), waiting: std::sync::Mutex::new(vec![]) });
  let mut joins = vec![];
  for (tid, role) in roles.into_iter().enumerate() {
    let ctl2 = ctl.clone();
    let linger2 = linger.clone();
    let cur2 = cur.clone();
    let abort2 = abort.clone();
    let seed = cfg.seed.wrapping_add(tid as u64 * 7919);
    joins.push(ctl.spawn(tid, gen_, move || { hist::join(gen_); run_role(tid, role, ctl2, cur2, abort2, seed, linger2) }));
  }

  let outcome = ctl.run(Duration::from_secs(30));
  for (t, msg) in &outcome.panics {
    hist::rec_panic(cur.0[*t].load(Ordering::SeqCst), msg);
  }
  let mut leaked = 0;
  if outcome.all_done && !outcome.step_limit && !outcome.stuck {
    hist::rec_end();
  } else {
    if !outcome.stuck && !outcome.step_limit {
      let blocked: Vec<u32> = outcome.blocked.iter().map(|&t| cur.0[t].load(Ordering::SeqCst)).filter(|&o| o != 0).collect();
      hist::rec_quiesce(&blocked);
    }
    hist::push(serde_json::json!({"k":"hung","o":0,"stuck":outcome.stuck,"step_limit":outcome.step_limit}));
  }
  // wind down: no more records from here on
  let records = hist::take();
  abort.store(true, Ordering::SeqCst);
  hist::begin(); // later records of this scenario's threads are ignored
  ctl.release_all();
  let deadline = std::time::Instant::now() + Duration::from_millis(1500);
  for (tid, j) in joins.into_iter().enumerate() {
    loop {
      if j.is_finished() {
        let _ = j.join();
        break;
      }
      if std::time::Instant::now() > deadline {
        leaked += 1;
        break;
      }
      ctl.kick(tid);
      std::thread::sleep(Duration::from_millis(5));
    }
  }
  fibre::verif::set_global(None);
  let trace = ctl.take_trace();
  RunStat { outcome, leaked, records, trace }
}

fn producer_done(ctl: &Arc<Ctl>, linger: &Linger) {
  if linger.producers_left.fetch_sub(1, Ordering::SeqCst) == 1 {
    for th in linger.waiting.lock().unwrap().iter() {
      ctl.unpark(th.id());
      th.unpark();
    }
  }
}

fn run_role(tid: usize, role: Role, ctl: Arc<Ctl>, cur: Arc<Cur>, abort: Arc<AtomicBool>, seed: u64, linger: Arc<Linger>) {
  let mut rng = StdRng::seed_from_u64(seed);
  // a yield point before the first call: the schedule may delay a thread before it has started anything
  Controller::point(&*ctl, "start", std::panic::Location::caller(), 0);
  let mut seq = 0u32;
  let mut next_o = |cur: &Cur| {
    seq += 1;
    let o = (tid as u32 + 1) * 1000 + seq;
    cur.0[tid].store(o, Ordering::SeqCst);
    o
  };
  match role {
    Role::Producer { h: (hid, mut tx), plan, close_at_end } => {
      struct DoneGuard(Arc<Ctl>, Arc<Linger>);
      impl Drop for DoneGuard {
        fn drop(&mut self) {
          producer_done(&self.0, &self.1);
        }
      }
      let _done = DoneGuard(ctl.clone(), linger.clone());
      let info = tx.info();
      'plan: for (form, ids) in plan {
        if abort.load(Ordering::SeqCst) {
          break;
        }
        let mut pending: Vec<u32> = ids;
        let mut form = form;
        // a non-blocking form that reports Full is retried a few times, then the blocking form is used
        let mut tries = 0;
        while !pending.is_empty() {
          if abort.load(Ordering::SeqCst) {
            break 'plan;
          }
          if info.consuming {
            form = "try_send";
          }
          if tries > 0 {
            // values that were handed back are sent again as fresh values
            for i in pending.iter_mut() {
              *i += 1_000_000;
            }
          }
          let vs: Vec<Tok> = pending.iter().map(|&i| Tok::new(i)).collect();
          let o = next_o(&cur);
          let is_fut = info.is_async && !form.starts_with("try");
          hist::rec_call(o, hid, form, &pending, 0, false);
          let out = if is_fut { block_on(&ctl, tx.start(form, vs), rng.random_range(0..30)) } else { tx.sync_op(form, vs) };
          hist::rec_ret(o, out.res, out.n, &out.vals, &out.back);
          cur.0[tid].store(0, Ordering::SeqCst);
          match out.res {
            "ok" => pending.clear(),
            "full" => {
              pending.drain(..out.n);
              tries += 1;
              if tries >= 2 && !info.consuming {
                form = if form.contains("batch") { "send_batch" } else { "send" };
              } else {
                Controller::spin(&*ctl, std::panic::Location::caller());
              }
              if info.consuming {
                break 'plan;
              }
            }
            _ => {
              if info.consuming {
                hist::rec_hdrop(hid);
                return;
              }
              break 'plan; // closed / sent: the other side is gone
            }
          }
        }
        if info.consuming {
          // send(self) consumed the handle inside the call
          hist::rec_hdrop(hid);
          return;
        }
      }
      if close_at_end && !abort.load(Ordering::SeqCst) {
        let o = next_o(&cur);
        hist::rec_call(o, hid, "close", &[], 0, false);
        let ok = tx.close();
        hist::rec_ret(o, if ok { "ok" } else { "err" }, 0, &[], &[]);
      }
      let o = next_o(&cur);
      hist::rec_call(o, hid, "drop", &[], 0, false);
      drop(tx);
      hist::rec_ret(o, "ok", 0, &[], &[]);
      cur.0[tid].store(0, Ordering::SeqCst);
    }
    Role::Consumer { h: (hid, mut rx), forms, quit_after, hold } => {
      let info = rx.info();
      let mut got = 0usize;
      let mut empties = 0usize;
      loop {
        if abort.load(Ordering::SeqCst) {
          break;
        }
        if let Some(q) = quit_after {
          if got >= q {
            break;
          }
        }
        let (mut form, max) = forms[rng.random_range(0..forms.len())];
        if empties >= 3 && form.starts_with("try") {
          form = if form.contains("batch") { "recv_batch" } else { "recv" };
        }
        let o = next_o(&cur);
        let is_fut = info.is_async && !form.starts_with("try");
        hist::rec_call(o, hid, form, &[], max, false);
        let out = if is_fut { block_on(&ctl, rx.start(form, max), rng.random_range(0..30)) } else { rx.sync_op(form, max, Duration::from_millis(2)) };
        hist::rec_ret(o, out.res, out.n, &out.vals, &out.back);
        cur.0[tid].store(0, Ordering::SeqCst);
        match out.res {
          "val" => {
            got += out.vals.len();
            empties = 0;
          }
          "empty" | "timeout" => {
            empties += 1;
            Controller::spin(&*ctl, std::panic::Location::caller());
          }
          _ => break, // disc
        }
      }
      if hold {
        // keep the handle, outside any operation, until the producers are done
        linger.waiting.lock().unwrap().push(std::thread::current());
        while linger.producers_left.load(Ordering::SeqCst) > 0 && !abort.load(Ordering::SeqCst) {
          Controller::park(&*ctl, None, std::panic::Location::caller());
        }
      }
      let o = next_o(&cur);
      hist::rec_call(o, hid, "drop", &[], 0, false);
      drop(rx);
      hist::rec_ret(o, "ok", 0, &[], &[]);
      cur.0[tid].store(0, Ordering::SeqCst);
    }
  }
}
