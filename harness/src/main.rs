//! fv: drivers that run the real fibre code and record histories for TLC.

mod ctl;
mod dynh;
mod hist;
mod loader;
mod lock;
mod raw;
mod sched;
mod seq;
mod topic;

use std::collections::HashMap;
use std::io::Write;
use std::sync::mpsc;
use std::time::Duration;

pub struct Args(HashMap<String, String>);
impl Args {
  fn parse(it: impl Iterator<Item = String>) -> Args {
    let mut m = HashMap::new();
    let v: Vec<String> = it.collect();
    let mut i = 0;
    while i < v.len() {
      if let Some(k) = v[i].strip_prefix("--") {
        let val = if i + 1 < v.len() && !v[i + 1].starts_with("--") { i += 1; v[i].clone() } else { "1".into() };
        m.insert(k.to_string(), val);
      }
      i += 1;
    }
    Args(m)
  }
  pub fn get(&self, k: &str, d: &str) -> String {
    self.0.get(k).cloned().unwrap_or_else(|| d.to_string())
  }
  pub fn num(&self, k: &str, d: u64) -> u64 {
    self.0.get(k).map(|s| s.parse().expect("number")).unwrap_or(d)
  }
  pub fn list(&self, k: &str, d: &str) -> Vec<String> {
    self.get(k, d).split(',').filter(|s| !s.is_empty()).map(|s| s.to_string()).collect()
  }
}

fn main() {
  let mut it = std::env::args().skip(1);
  let cmd = it.next().unwrap_or_default();
  let args = Args::parse(it);
  // a panic inside library code is data: keep the default hook quiet
  std::panic::set_hook(Box::new(|_| {}));
  match cmd.as_str() {
    "chan-seq" => chan_seq(&args),
    "chan-sched" => chan_sched(&args),
    "chan-sys" => chan_sys(&args),
    "topic-seq" => topic_seq(&args),
    "topic-thr" => topic_thr(&args),
    "lock-seq" => lock_seq(&args),
    "loader-sched" => loader_sched(&args),
    "lock-sched" => lock_sched(&args),
    _ => {
      eprintln!("usage: fv <chan-seq> [--key value]...");
      std::process::exit(2);
    }
  }
}

/// Runs `f` on a worker thread; Err(()) if it does not finish in time (the
/// worker is abandoned: it is parked inside the library forever).
fn with_watchdog<F: FnOnce() + Send + 'static>(f: F, limit: Duration, gen_: u64) -> Result<Result<(), String>, ()> {
  let (txc, rxc) = mpsc::channel();
  std::thread::Builder::new()
    .stack_size(8 << 20)
    .spawn(move || {
      hist::join(gen_);
      let r = std::panic::catch_unwind(std::panic::AssertUnwindSafe(f));
      let _ = txc.send(r.map_err(|e| {
        if let Some(s) = e.downcast_ref::<String>() { s.clone() } else if let Some(s) = e.downcast_ref::<&str>() { s.to_string() } else { "panic".into() }
      }));
    })
    .unwrap();
  match rxc.recv_timeout(limit) {
    Ok(r) => Ok(r),
    Err(_) => Err(()),
  }
}

fn chan_seq(a: &Args) {
  let flavours = {
    let l = a.list("flavours", "all");
    if l == ["all"] { dynh::FLAVOURS.iter().map(|f| f.name.to_string()).collect() } else { l }
  };
  let caps: Vec<usize> = a.list("caps", "1,2,3,5").iter().map(|s| s.parse().unwrap()).collect();
  let programs = a.num("programs", 20);
  let ops = a.num("ops", 60) as usize;
  let seed = a.num("seed", 1);
  let profiles = a.list("profiles", "mix");
  let kf = a.list("kf", "");
  let out = a.get("out", "/dev/stdout");
  let mut w = std::io::BufWriter::new(std::fs::File::create(&out).expect("create out"));
  let mut n_hist = 0u64;
  let mut n_hung = 0u64;
  let mut n_panic = 0u64;
  for (fi, fl) in flavours.iter().enumerate() {
    for p in 0..programs {
      let cap = caps[(p as usize) % caps.len()];
      let profile = profiles[(p as usize / caps.len()) % profiles.len()].clone();
      let cfg = seq::Cfg {
        flavour: fl.clone(),
        cap,
        ops,
        seed: seed.wrapping_mul(1_000_003).wrapping_add((fi as u64) << 32).wrapping_add(p),
        kf: kf.clone(),
        profile,
      };
      let gen_ = hist::begin();
      let r = with_watchdog(move || seq::run_program(&cfg), Duration::from_secs(10), gen_);
      let mut recs = hist::take();
      match r {
        Ok(Ok(())) => {}
        Ok(Err(msg)) => {
          n_panic += 1;
          let o = seq::CUR_OP.load(std::sync::atomic::Ordering::SeqCst);
          recs.push(serde_json::json!({"k":"panic","o":o,"msg":msg}).to_string());
        }
        Err(()) => {
          n_hung += 1;
          let o = seq::CUR_OP.load(std::sync::atomic::Ordering::SeqCst);
          recs.push(serde_json::json!({"k":"quiesce","blocked":[o]}).to_string());
          recs.push(serde_json::json!({"k":"hung","o":o}).to_string());
        }
      }
      // make later generations ignore the abandoned worker
      hist::begin();
      for r in recs {
        writeln!(w, "{r}").unwrap();
      }
      n_hist += 1;
    }
  }
  w.flush().unwrap();
  println!("{}", serde_json::json!({"histories": n_hist, "hung": n_hung, "panics": n_panic}));
}

fn chan_sched(a: &Args) {
  let flavours = {
    let l = a.list("flavours", "all");
    if l == ["all"] { dynh::FLAVOURS.iter().map(|f| f.name.to_string()).collect() } else { l }
  };
  let caps: Vec<usize> = a.list("caps", "1,2").iter().map(|s| s.parse().unwrap()).collect();
  let runs = a.num("runs", 20);
  let seed = a.num("seed", 1);
  let shapes = a.list("shapes", "drain,leave,prefill");
  let strategies = a.list("strategies", "random,pct");
  let kf = a.list("kf", "");
  let out = a.get("out", "/dev/stdout");
  let trace = a.num("trace", 0) == 1;
  let mut w = std::io::BufWriter::new(std::fs::File::create(&out).expect("create out"));
  let (mut n, mut blocked, mut stuck, mut leaked, mut steps, mut step_limit) = (0u64, 0u64, 0u64, 0u64, 0u64, 0u64);
  for (fi, fl) in flavours.iter().enumerate() {
    for r in 0..runs {
      let ru = r as usize;
      let shape = shapes[(ru / strategies.len()) % shapes.len()].clone();
      let br = shape == "batchrace";
      let cap = caps[ru % caps.len()];
      let many = shape == "manyrx";
      let cfg = sched::Cfg {
        flavour: fl.clone(),
        cap,
        // contention is where the protocols are subtle: mostly two producers, often two consumers
        producers: if br { 2 } else if ru % 3 == 0 { 1 } else { 2 },
        // "manyrx": more parked receivers than capacity (multi-consumer flavours)
        consumers: if many { cap + 1 } else if shape == "hold" { 2 } else { 1 + (ru / 3) % 2 },
        items: if br { 3 + (ru / 5) % 2 } else if many { cap.max(2) } else if shape == "hold" { 2 + (ru / 5) % 2 } else { 1 + (ru / 5) % 3 },
        seed: seed.wrapping_mul(1_000_003).wrapping_add((fi as u64) << 32).wrapping_add(r),
        strategy: strategies[ru % strategies.len()].clone(),
        shape,
        kf: kf.clone(),
        trace,
        explicit: None,
      };
      let st = sched::run_scenario(&cfg);
      n += 1;
      steps += st.outcome.steps;
      if !st.outcome.blocked.is_empty() && !st.outcome.all_done { blocked += 1; }
      if st.outcome.stuck { stuck += 1; }
      if st.outcome.step_limit { step_limit += 1; }
      leaked += st.leaked as u64;
      for r in &st.records {
        writeln!(w, "{r}").unwrap();
      }
      if trace {
        for t in &st.trace { writeln!(w, "#{t}").unwrap(); }
      }
    }
  }
  w.flush().unwrap();
  println!("{}", serde_json::json!({"histories": n, "blocked": blocked, "stuck": stuck, "step_limit": step_limit, "leaked_threads": leaked, "steps": steps}));
}

/// Systematic exploration of the PCT schedule space of small fixed scenarios: every order of initial
/// priorities x every set of `d-1` change points `(thread, local step <= smax)`.  The program of a scenario
/// is fixed by its seed; only the schedule varies, so equal histories are written once.
fn chan_sys(a: &Args) {
  let flavours = a.list("flavours", "mpsc_b");
  let caps: Vec<usize> = a.list("caps", "1").iter().map(|s| s.parse().unwrap()).collect();
  let shapes = a.list("shapes", "drain");
  let seeds: Vec<u64> = a.list("scenario-seeds", "1").iter().map(|s| s.parse().unwrap()).collect();
  let d = a.num("d", 3) as usize;
  let smax = a.num("smax", 10);
  let producers = a.num("producers", 2) as usize;
  let consumers = a.num("consumers", 1) as usize;
  let items = a.num("items", 1) as usize;
  let part = a.num("part", 0);
  let parts = a.num("parts", 1).max(1);
  let kf = a.list("kf", "");
  let out = a.get("out", "/dev/stdout");
  let mut w = std::io::BufWriter::new(std::fs::File::create(&out).expect("create out"));
  let (mut runs, mut distinct, mut blocked, mut stuck, mut step_limit, mut steps) = (0u64, 0u64, 0u64, 0u64, 0u64, 0u64);
  let mut idx = 0u64;
  for fl in &flavours {
    for &cap in &caps {
      for shape in &shapes {
        for &sseed in &seeds {
          let mut seen: std::collections::HashSet<String> = Default::default();
          // thread count of this scenario (clone-less handles collapse to one thread per side)
          let (np, nc) = {
            let (t0, r0) = dynh::make(fl, cap.max(1));
            (if t0.info().clone { producers } else { 1 }, if r0.info().clone { consumers } else { 1 })
          };
          let n = np + nc;
          let points: Vec<(usize, u64)> = (0..n).flat_map(|t| (1..=smax).map(move |s| (t, s))).collect();
          for perm in permutations(n) {
            let prios: Vec<i64> = perm.iter().map(|&r| 2000 - r as i64).collect();
            for cps in combinations(&points, d.saturating_sub(1)) {
              idx += 1;
              if idx % parts != part {
                continue;
              }
              let cfg = sched::Cfg {
                flavour: fl.clone(), cap, producers, consumers, items, seed: sseed, strategy: "explicit".into(),
                shape: shape.clone(), kf: kf.clone(), trace: false, explicit: Some((prios.clone(), cps)),
              };
              let st = sched::run_scenario(&cfg);
              runs += 1;
              steps += st.outcome.steps;
              if !st.outcome.blocked.is_empty() && !st.outcome.all_done { blocked += 1; }
              if st.outcome.stuck { stuck += 1; }
              if st.outcome.step_limit { step_limit += 1; }
              let text = st.records.join("\n");
              if seen.insert(text) {
                distinct += 1;
                for r in &st.records {
                  writeln!(w, "{r}").unwrap();
                }
              }
            }
          }
        }
      }
    }
  }
  w.flush().unwrap();
  println!("{}", serde_json::json!({"runs": runs, "histories": distinct, "blocked": blocked, "stuck": stuck, "step_limit": step_limit, "steps": steps, "d": d, "smax": smax}));
}

fn permutations(n: usize) -> Vec<Vec<usize>> {
  fn rec(cur: &mut Vec<usize>, used: &mut Vec<bool>, n: usize, out: &mut Vec<Vec<usize>>) {
    if cur.len() == n {
      out.push(cur.clone());
      return;
    }
    for i in 0..n {
      if !used[i] {
        used[i] = true;
        cur.push(i);
        rec(cur, used, n, out);
        cur.pop();
        used[i] = false;
      }
    }
  }
  let mut out = vec![];
  rec(&mut vec![], &mut vec![false; n], n, &mut out);
  out
}

fn combinations<T: Clone>(items: &[T], k: usize) -> Vec<Vec<T>> {
  fn rec<T: Clone>(items: &[T], k: usize, start: usize, cur: &mut Vec<T>, out: &mut Vec<Vec<T>>) {
    if cur.len() == k {
      out.push(cur.clone());
      return;
    }
    for i in start..items.len() {
      cur.push(items[i].clone());
      rec(items, k, i + 1, cur, out);
      cur.pop();
    }
  }
  let mut out = vec![];
  rec(items, k, 0, &mut vec![], &mut out);
  out
}

fn topic_thr(a: &Args) {
  let programs = a.num("programs", 20);
  let seed = a.num("seed", 1);
  let kf = a.list("kf", "");
  let out = a.get("out", "/dev/stdout");
  let mut w = std::io::BufWriter::new(std::fs::File::create(&out).expect("create out"));
  let (mut n_hist, mut n_hung, mut n_panic, mut n_blocked) = (0u64, 0u64, 0u64, 0u64);
  for p in 0..programs {
    let cfg = topic::ThrCfg { seed: seed.wrapping_mul(9_000_011).wrapping_add(p), is_async: p % 2 == 1, kf: kf.clone() };
    let gen_ = hist::begin();
    let r = with_watchdog(move || topic::run_threads(&cfg), Duration::from_secs(40), gen_);
    let mut recs = hist::take();
    match r {
      Ok(Ok(())) => {}
      Ok(Err(msg)) => {
        n_panic += 1;
        recs.push(serde_json::json!({"k":"panic","msg":msg}).to_string());
      }
      Err(()) => {
        n_hung += 1;
        recs.push(serde_json::json!({"k":"hung"}).to_string());
      }
    }
    if recs.iter().any(|r| r.contains("\"tblocked\"")) {
      n_blocked += 1;
    }
    hist::begin();
    for r in recs {
      writeln!(w, "{r}").unwrap();
    }
    n_hist += 1;
  }
  w.flush().unwrap();
  println!("{}", serde_json::json!({"histories": n_hist, "hung": n_hung, "panics": n_panic, "blocked_receivers": n_blocked}));
}

fn topic_seq(a: &Args) {
  let caps: Vec<usize> = a.list("caps", "1,2,3").iter().map(|s| s.parse().unwrap()).collect();
  let programs = a.num("programs", 20);
  let ops = a.num("ops", 60) as usize;
  let seed = a.num("seed", 1);
  let kf = a.list("kf", "");
  let out = a.get("out", "/dev/stdout");
  let mut w = std::io::BufWriter::new(std::fs::File::create(&out).expect("create out"));
  let (mut n_hist, mut n_hung, mut n_panic) = (0u64, 0u64, 0u64);
  for p in 0..programs {
    let cfg = topic::Cfg { cap: caps[(p as usize) % caps.len()], ops, seed: seed.wrapping_mul(7_000_003).wrapping_add(p), is_async: p % 2 == 1, kf: kf.clone() };
    let gen_ = hist::begin();
    let r = with_watchdog(move || topic::run_program(&cfg), Duration::from_secs(10), gen_);
    let mut recs = hist::take();
    match r {
      Ok(Ok(())) => {}
      Ok(Err(msg)) => {
        n_panic += 1;
        recs.push(serde_json::json!({"k":"panic","msg":msg}).to_string());
      }
      Err(()) => {
        n_hung += 1;
        recs.push(serde_json::json!({"k":"hung"}).to_string());
      }
    }
    hist::begin();
    for r in recs {
      writeln!(w, "{r}").unwrap();
    }
    n_hist += 1;
  }
  w.flush().unwrap();
  println!("{}", serde_json::json!({"histories": n_hist, "hung": n_hung, "panics": n_panic}));
}

fn lock_seq(a: &Args) {
  let programs = a.num("programs", 20);
  let ops = a.num("ops", 60) as usize;
  let seed = a.num("seed", 1);
  let out = a.get("out", "/dev/stdout");
  let mut w = std::io::BufWriter::new(std::fs::File::create(&out).expect("create out"));
  let (mut n_hist, mut n_hung, mut n_panic) = (0u64, 0u64, 0u64);
  for p in 0..programs {
    let cfg = lock::SeqCfg { rw: p % 2 == 1, ops, seed: seed.wrapping_mul(9_000_011).wrapping_add(p) };
    let gen_ = hist::begin();
    let r = with_watchdog(move || lock::run_seq(&cfg), Duration::from_secs(10), gen_);
    let mut recs = hist::take();
    match r {
      Ok(Ok(())) => {}
      Ok(Err(msg)) => { n_panic += 1; recs.push(serde_json::json!({"k":"panic","msg":msg}).to_string()); }
      Err(()) => { n_hung += 1; recs.push(serde_json::json!({"k":"stuck_driver"}).to_string()); }
    }
    hist::begin();
    for r in recs { writeln!(w, "{r}").unwrap(); }
    n_hist += 1;
  }
  w.flush().unwrap();
  println!("{}", serde_json::json!({"histories": n_hist, "hung": n_hung, "panics": n_panic}));
}

fn lock_sched(a: &Args) {
  let runs = a.num("runs", 20);
  let seed = a.num("seed", 1);
  let strategies = a.list("strategies", "random,pct,pct5");
  let out = a.get("out", "/dev/stdout");
  let mut w = std::io::BufWriter::new(std::fs::File::create(&out).expect("create out"));
  let (mut n, mut blocked, mut stuck, mut leaked, mut steps, mut step_limit) = (0u64, 0u64, 0u64, 0u64, 0u64, 0u64);
  for r in 0..runs {
    let ru = r as usize;
    let cfg = lock::SchedCfg {
      rw: ru % 2 == 1,
      threads: 2 + (ru / 2) % 2,
      rounds: 1 + (ru / 4) % 3,
      seed: seed.wrapping_mul(1_000_003).wrapping_add(r),
      strategy: strategies[ru % strategies.len()].clone(),
    };
    let st = lock::run_sched(&cfg);
    n += 1;
    steps += st.outcome.steps;
    if !st.outcome.blocked.is_empty() && !st.outcome.all_done { blocked += 1; }
    if st.outcome.stuck { stuck += 1; }
    if st.outcome.step_limit { step_limit += 1; }
    leaked += st.leaked as u64;
    for r in &st.records { writeln!(w, "{r}").unwrap(); }
  }
  w.flush().unwrap();
  println!("{}", serde_json::json!({"histories": n, "blocked": blocked, "stuck": stuck, "step_limit": step_limit, "leaked_threads": leaked, "steps": steps}));
}

fn loader_sched(a: &Args) {
  let runs = a.num("runs", 20);
  let seed = a.num("seed", 1);
  let strategies = a.list("strategies", "random,pct,pct5");
  let kf = a.list("kf", "");
  let out = a.get("out", "/dev/stdout");
  let mut w = std::io::BufWriter::new(std::fs::File::create(&out).expect("create out"));
  let (mut n, mut blocked, mut stuck, mut leaked, mut steps, mut step_limit) = (0u64, 0u64, 0u64, 0u64, 0u64, 0u64);
  for r in 0..runs {
    let ru = r as usize;
    let cfg = loader::Cfg {
      threads: if ru % 5 == 4 { 1 } else { 2 + (ru / 2) % 2 },
      keys: 1 + (ru as u32 / 3) % 2,
      fetches: if ru % 5 == 4 { 6 + 3 * ((ru / 3) % 2 == 0) as usize } else { 1 + (ru / 4) % 2 + 2 * ((ru / 3) % 2 == 0 && ru % 3 != 1) as usize },
      shards: 1 + (ru / 7) % 2,
      seed: seed.wrapping_mul(1_000_003).wrapping_add(r),
      strategy: strategies[ru % strategies.len()].clone(),
      invalidate: true,
      kf: kf.clone(),
      // every third scenario runs on the AsyncCache with the async loader
      is_async: ru % 3 == 1,
      // half of the thread-based scenarios: TTL + stale-while-revalidate with clock advances
      swr: ru % 3 != 1 && (ru / 3) % 2 == 0,
    };
    let st = loader::run(&cfg);
    n += 1;
    steps += st.outcome.steps;
    if !st.outcome.blocked.is_empty() && !st.outcome.all_done { blocked += 1; }
    if st.outcome.stuck { stuck += 1; }
    if st.outcome.step_limit { step_limit += 1; }
    leaked += st.leaked as u64;
    for r in &st.records { writeln!(w, "{r}").unwrap(); }
  }
  w.flush().unwrap();
  println!("{}", serde_json::json!({"histories": n, "blocked": blocked, "stuck": stuck, "step_limit": step_limit, "leaked_threads": leaked, "steps": steps}));
}
