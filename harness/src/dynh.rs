//! Type-erased channel handles and futures built on `raw`.

use crate::hist::{consume_all, Tok};
use crate::raw::*;
use fibre::error::*;
use std::task::{Context, Poll};
use std::time::Duration;

#[derive(Debug, Clone, Default)]
pub struct OpOut {
  pub res: &'static str,
  pub n: usize,
  pub vals: Vec<u32>,
  pub back: Vec<u32>,
}

fn out(res: &'static str, n: usize, vals: Vec<u32>, back: Vec<u32>) -> OpOut {
  OpOut { res, n, vals, back }
}

#[derive(Debug, Clone, Copy)]
pub struct Info {
  pub is_async: bool,
  pub batch: bool,
  pub clone: bool,
  pub fut_excl: bool,
  pub consuming: bool,
  pub stream: bool,
  pub timeout: bool,
}

pub trait DynFut {
  /// None = Pending
  fn poll(&mut self, cx: &mut Context<'_>) -> Option<OpOut>;
  /// Drops the future; returns (vals received into the caller's Vec, unsent tail kept by the caller).
  fn cancel(self: Box<Self>) -> (Vec<u32>, Vec<u32>);
}

pub trait DynTx: Send {
  fn info(&self) -> Info;
  fn sync_op(&mut self, op: &str, vs: Vec<Tok>) -> OpOut;
  fn start(&mut self, op: &str, vs: Vec<Tok>) -> Box<dyn DynFut>;
  fn close(&mut self) -> bool;
  fn obs(&self, what: &str) -> Option<i64>;
  fn dup(&self) -> Option<Box<dyn DynTx>>;
  fn conv(self: Box<Self>) -> Box<dyn DynTx>;
  fn can_conv(&self) -> bool;
}

pub trait DynRx: Send {
  fn info(&self) -> Info;
  fn sync_op(&mut self, op: &str, max: usize, timeout: Duration) -> OpOut;
  fn start(&mut self, op: &str, max: usize) -> Box<dyn DynFut>;
  fn poll_next(&mut self, cx: &mut Context<'_>) -> Option<OpOut>;
  fn close(&mut self) -> bool;
  fn obs(&self, what: &str) -> Option<i64>;
  fn dup(&self) -> Option<Box<dyn DynRx>>;
  fn conv(self: Box<Self>) -> Box<dyn DynRx>;
  fn can_conv(&self) -> bool;
}

pub struct TxBox<H: RawTx>(pub Box<H>);
pub struct RxBox<H: RawRx>(pub Box<H>);

pub fn tx<H: RawTx>(h: H) -> Box<dyn DynTx> {
  Box::new(TxBox(Box::new(h)))
}
pub fn rx<H: RawRx>(h: H) -> Box<dyn DynRx> {
  Box::new(RxBox(Box::new(h)))
}

fn obs_of(what: &str, len: Option<usize>, cap: Option<usize>, full: Option<bool>, empty: Option<bool>, closed: bool) -> Option<i64> {
  match what {
    "len" => len.map(|x| x as i64),
    "capacity" => cap.map(|x| x as i64),
    "is_full" => full.map(|x| x as i64),
    "is_empty" => empty.map(|x| x as i64),
    "is_closed" => Some(closed as i64),
    _ => None,
  }
}

fn send_err(e: SendError) -> &'static str {
  match e {
    SendError::Closed => "closed",
    SendError::Sent => "sent",
  }
}

fn try_send_out(r: Result<(), TrySendError<Tok>>) -> OpOut {
  match r {
    Ok(()) => out("ok", 1, vec![], vec![]),
    Err(TrySendError::Full(v)) => out("full", 0, vec![], vec![v.consume()]),
    Err(TrySendError::Closed(v)) => out("closed", 0, vec![], vec![v.consume()]),
    Err(TrySendError::Sent(v)) => out("sent", 0, vec![], vec![v.consume()]),
  }
}

fn send_out(r: Result<(), SendError>) -> OpOut {
  match r {
    Ok(()) => out("ok", 1, vec![], vec![]),
    Err(e) => out(send_err(e), 0, vec![], vec![]),
  }
}

fn send_batch_out(r: Result<usize, SendBatchError<Tok>>) -> OpOut {
  match r {
    Ok(n) => out("ok", n, vec![], vec![]),
    Err(e) => out("closed", e.sent, vec![], consume_all(e.unsent)),
  }
}

fn try_send_batch_out(r: Result<usize, TrySendBatchError<Tok>>) -> OpOut {
  match r {
    Ok(n) => out("ok", n, vec![], vec![]),
    Err(e) => {
      let res = match e.reason {
        BatchSendErrorReason::Full => "full",
        BatchSendErrorReason::Closed => "closed",
      };
      out(res, e.sent, vec![], consume_all(e.unsent))
    }
  }
}

fn batch_mut_out(r: Result<usize, SendError>, total: usize, rest: Vec<Tok>, blocking: bool) -> OpOut {
  let back = consume_all(rest);
  match r {
    Ok(n) => {
      let res = if back.is_empty() || blocking { "ok" } else { "full" };
      out(res, n, vec![], back)
    }
    Err(e) => out(send_err(e), total - back.len(), vec![], back),
  }
}

fn recv_out(r: Result<Tok, RecvError>) -> OpOut {
  match r {
    Ok(v) => out("val", 0, vec![v.consume()], vec![]),
    Err(RecvError::Disconnected) => out("disc", 0, vec![], vec![]),
  }
}

fn try_recv_out(r: Result<Tok, TryRecvError>) -> OpOut {
  match r {
    Ok(v) => out("val", 0, vec![v.consume()], vec![]),
    Err(TryRecvError::Empty) => out("empty", 0, vec![], vec![]),
    Err(TryRecvError::Disconnected) => out("disc", 0, vec![], vec![]),
  }
}

fn recv_batch_out(r: Result<Vec<Tok>, RecvError>) -> OpOut {
  match r {
    Ok(v) => out("val", 0, consume_all(v), vec![]),
    Err(RecvError::Disconnected) => out("disc", 0, vec![], vec![]),
  }
}

impl<H: RawTx> DynTx for TxBox<H>
where
  H::Conv: RawTx,
{
  fn info(&self) -> Info {
    Info { is_async: H::ASYNC, batch: H::BATCH, clone: H::CLONE, fut_excl: H::FUT_EXCL, consuming: H::CONSUMING, stream: false, timeout: false }
  }

  fn sync_op(&mut self, op: &str, mut vs: Vec<Tok>) -> OpOut {
    let h = &mut *self.0;
    match op {
      "send" => send_out(h.send(vs.pop().unwrap())),
      "try_send" => try_send_out(h.try_send(vs.pop().unwrap())),
      "send_batch" => send_batch_out(h.send_batch(vs)),
      "try_send_batch" => try_send_batch_out(h.try_send_batch(vs)),
      "send_batch_mut" => {
        let total = vs.len();
        let r = h.send_batch_mut(&mut vs);
        batch_mut_out(r, total, vs, true)
      }
      "try_send_batch_mut" => {
        let total = vs.len();
        let r = h.try_send_batch_mut(&mut vs);
        batch_mut_out(r, total, vs, false)
      }
      _ => panic!("bad tx op {op}"),
    }
  }

  fn start(&mut self, op: &str, mut vs: Vec<Tok>) -> Box<dyn DynFut> {
    // SAFETY: the handle is boxed (stable address) and the driver cancels
    // every future of a handle before the handle is dropped or converted.
    let h: &'static mut H = unsafe { &mut *(&mut *self.0 as *mut H) };
    match op {
      "send" => Box::new(SendFut(Some(h.fut_send(vs.pop().unwrap())))),
      "send_batch" => Box::new(SendBatchFut(Some(h.fut_send_batch(vs)))),
      "send_batch_mut" => {
        let total = vs.len();
        let mut vec = Box::new(vs);
        let vr: &'static mut Vec<Tok> = unsafe { &mut *(&mut *vec as *mut Vec<Tok>) };
        Box::new(SendBatchMutFut { fut: Some(h.fut_send_batch_mut(vr)), vec: Some(vec), total })
      }
      _ => panic!("bad tx future op {op}"),
    }
  }

  fn close(&mut self) -> bool {
    self.0.close().is_ok()
  }

  fn obs(&self, what: &str) -> Option<i64> {
    let h = &*self.0;
    obs_of(what, h.len(), h.capacity(), h.is_full(), h.is_empty(), h.is_closed())
  }

  fn dup(&self) -> Option<Box<dyn DynTx>> {
    self.0.dup().map(|h| tx(h))
  }

  fn can_conv(&self) -> bool {
    H::CONV
  }

  fn conv(self: Box<Self>) -> Box<dyn DynTx> {
    let h = *self.0;
    match h.conv() {
      Some(c) => tx(c),
      None => panic!("no conversion"),
    }
  }
}

impl<H: RawRx> DynRx for RxBox<H>
where
  H::Conv: RawRx,
{
  fn info(&self) -> Info {
    Info { is_async: H::ASYNC, batch: H::BATCH, clone: H::CLONE, fut_excl: H::FUT_EXCL, consuming: false, stream: H::STREAM, timeout: H::TIMEOUT }
  }

  fn sync_op(&mut self, op: &str, max: usize, timeout: Duration) -> OpOut {
    let h = &mut *self.0;
    match op {
      "recv" => recv_out(h.recv()),
      "try_recv" => try_recv_out(h.try_recv()),
      "recv_timeout" => match h.recv_timeout(timeout) {
        Ok(v) => out("val", 0, vec![v.consume()], vec![]),
        Err(RecvErrorTimeout::Timeout) => out("timeout", 0, vec![], vec![]),
        Err(RecvErrorTimeout::Disconnected) => out("disc", 0, vec![], vec![]),
      },
      "recv_batch" => recv_batch_out(h.recv_batch(max)),
      "try_recv_batch" => match h.try_recv_batch(max) {
        Ok(v) => out("val", 0, consume_all(v), vec![]),
        Err(TryRecvError::Empty) => out("empty", 0, vec![], vec![]),
        Err(TryRecvError::Disconnected) => out("disc", 0, vec![], vec![]),
      },
      "recv_batch_mut" => {
        let mut o = Vec::new();
        let r = h.recv_batch_mut(&mut o, max);
        let vals = consume_all(o);
        match r {
          Ok(n) => out("val", n, vals, vec![]),
          Err(RecvError::Disconnected) => out("disc", 0, vals, vec![]),
        }
      }
      "try_recv_batch_mut" => {
        let mut o = Vec::new();
        let r = h.try_recv_batch_mut(&mut o, max);
        let vals = consume_all(o);
        match r {
          Ok(n) => out("val", n, vals, vec![]),
          Err(TryRecvError::Empty) => out("empty", 0, vals, vec![]),
          Err(TryRecvError::Disconnected) => out("disc", 0, vals, vec![]),
        }
      }
      _ => panic!("bad rx op {op}"),
    }
  }

  fn start(&mut self, op: &str, max: usize) -> Box<dyn DynFut> {
    // SAFETY: as in TxBox::start
    let h: &'static mut H = unsafe { &mut *(&mut *self.0 as *mut H) };
    match op {
      "recv" => Box::new(RecvFut(Some(h.fut_recv()))),
      "recv_batch" => Box::new(RecvBatchFut(Some(h.fut_recv_batch(max)))),
      "recv_batch_mut" => {
        let mut vec: Box<Vec<Tok>> = Box::new(Vec::new());
        let vr: &'static mut Vec<Tok> = unsafe { &mut *(&mut *vec as *mut Vec<Tok>) };
        Box::new(RecvBatchMutFut { fut: Some(h.fut_recv_batch_mut(vr, max)), vec: Some(vec) })
      }
      _ => panic!("bad rx future op {op}"),
    }
  }

  fn poll_next(&mut self, cx: &mut Context<'_>) -> Option<OpOut> {
    match self.0.poll_next(cx) {
      Poll::Pending => None,
      Poll::Ready(Some(v)) => Some(out("val", 0, vec![v.consume()], vec![])),
      Poll::Ready(None) => Some(out("disc", 0, vec![], vec![])),
    }
  }

  fn close(&mut self) -> bool {
    self.0.close().is_ok()
  }

  fn obs(&self, what: &str) -> Option<i64> {
    let h = &*self.0;
    obs_of(what, h.len(), h.capacity(), h.is_full(), h.is_empty(), h.is_closed())
  }

  fn dup(&self) -> Option<Box<dyn DynRx>> {
    self.0.dup().map(|h| rx(h))
  }

  fn can_conv(&self) -> bool {
    H::CONV
  }

  fn conv(self: Box<Self>) -> Box<dyn DynRx> {
    let h = *self.0;
    match h.conv() {
      Some(c) => rx(c),
      None => panic!("no conversion"),
    }
  }
}

// ---- futures --------------------------------------------------------------
struct SendFut(Option<BF<'static, Result<(), SendError>>>);
impl DynFut for SendFut {
  fn poll(&mut self, cx: &mut Context<'_>) -> Option<OpOut> {
    match self.0.as_mut().unwrap().as_mut().poll(cx) {
      Poll::Pending => None,
      Poll::Ready(r) => {
        self.0 = None;
        Some(send_out(r))
      }
    }
  }
  fn cancel(self: Box<Self>) -> (Vec<u32>, Vec<u32>) {
    (vec![], vec![])
  }
}

struct SendBatchFut(Option<BF<'static, Result<usize, SendBatchError<Tok>>>>);
impl DynFut for SendBatchFut {
  fn poll(&mut self, cx: &mut Context<'_>) -> Option<OpOut> {
    match self.0.as_mut().unwrap().as_mut().poll(cx) {
      Poll::Pending => None,
      Poll::Ready(r) => {
        self.0 = None;
        Some(send_batch_out(r))
      }
    }
  }
  fn cancel(self: Box<Self>) -> (Vec<u32>, Vec<u32>) {
    (vec![], vec![])
  }
}

struct SendBatchMutFut {
  fut: Option<BF<'static, Result<usize, SendError>>>,
  vec: Option<Box<Vec<Tok>>>,
  total: usize,
}
impl DynFut for SendBatchMutFut {
  fn poll(&mut self, cx: &mut Context<'_>) -> Option<OpOut> {
    match self.fut.as_mut().unwrap().as_mut().poll(cx) {
      Poll::Pending => None,
      Poll::Ready(r) => {
        self.fut = None;
        let rest = *self.vec.take().unwrap();
        Some(batch_mut_out(r, self.total, rest, true))
      }
    }
  }
  fn cancel(mut self: Box<Self>) -> (Vec<u32>, Vec<u32>) {
    self.fut = None; // the future goes first, then the caller looks at its Vec
    let rest = self.vec.take().map(|v| consume_all(*v)).unwrap_or_default();
    (vec![], rest)
  }
}

struct RecvFut(Option<BF<'static, Result<Tok, RecvError>>>);
impl DynFut for RecvFut {
  fn poll(&mut self, cx: &mut Context<'_>) -> Option<OpOut> {
    match self.0.as_mut().unwrap().as_mut().poll(cx) {
      Poll::Pending => None,
      Poll::Ready(r) => {
        self.0 = None;
        Some(recv_out(r))
      }
    }
  }
  fn cancel(self: Box<Self>) -> (Vec<u32>, Vec<u32>) {
    (vec![], vec![])
  }
}

struct RecvBatchFut(Option<BF<'static, Result<Vec<Tok>, RecvError>>>);
impl DynFut for RecvBatchFut {
  fn poll(&mut self, cx: &mut Context<'_>) -> Option<OpOut> {
    match self.0.as_mut().unwrap().as_mut().poll(cx) {
      Poll::Pending => None,
      Poll::Ready(r) => {
        self.0 = None;
        Some(recv_batch_out(r))
      }
    }
  }
  fn cancel(self: Box<Self>) -> (Vec<u32>, Vec<u32>) {
    (vec![], vec![])
  }
}

struct RecvBatchMutFut {
  fut: Option<BF<'static, Result<usize, RecvError>>>,
  vec: Option<Box<Vec<Tok>>>,
}
impl DynFut for RecvBatchMutFut {
  fn poll(&mut self, cx: &mut Context<'_>) -> Option<OpOut> {
    match self.fut.as_mut().unwrap().as_mut().poll(cx) {
      Poll::Pending => None,
      Poll::Ready(r) => {
        self.fut = None;
        let vals = consume_all(*self.vec.take().unwrap());
        Some(match r {
          Ok(n) => out("val", n, vals, vec![]),
          Err(RecvError::Disconnected) => out("disc", 0, vals, vec![]),
        })
      }
    }
  }
  fn cancel(mut self: Box<Self>) -> (Vec<u32>, Vec<u32>) {
    self.fut = None;
    let vals = self.vec.take().map(|v| consume_all(*v)).unwrap_or_default();
    (vals, vec![])
  }
}

// ---- constructors by flavour name ------------------------------------------
pub struct Flavour {
  pub name: &'static str,
  /// Layer A kind: q (buffered), rv (rendezvous), os (oneshot)
  pub kind: &'static str,
  pub bounded: bool,
}

pub const FLAVOURS: &[Flavour] = &[
  Flavour { name: "spsc_b", kind: "q", bounded: true },
  Flavour { name: "spsc_b_async", kind: "q", bounded: true },
  Flavour { name: "mpsc_b", kind: "q", bounded: true },
  Flavour { name: "mpsc_b_async", kind: "q", bounded: true },
  Flavour { name: "mpsc_u", kind: "q", bounded: false },
  Flavour { name: "mpsc_u_async", kind: "q", bounded: false },
  Flavour { name: "mpmc_b", kind: "q", bounded: true },
  Flavour { name: "mpmc_b_async", kind: "q", bounded: true },
  Flavour { name: "mpmc_u", kind: "q", bounded: false },
  Flavour { name: "mpmc_u_async", kind: "q", bounded: false },
  Flavour { name: "spsc_rv", kind: "rv", bounded: true },
  Flavour { name: "spsc_rv_async", kind: "rv", bounded: true },
  Flavour { name: "mpsc_rv", kind: "rv", bounded: true },
  Flavour { name: "mpsc_rv_async", kind: "rv", bounded: true },
  Flavour { name: "mpmc_rv", kind: "rv", bounded: true },
  Flavour { name: "mpmc_rv_async", kind: "rv", bounded: true },
  Flavour { name: "oneshot", kind: "os", bounded: true },
  Flavour { name: "mpmcx_b", kind: "q", bounded: true },
  Flavour { name: "mpmcx_b_async", kind: "q", bounded: true },
  Flavour { name: "spmc_b", kind: "bc", bounded: true },
  Flavour { name: "spmc_b_async", kind: "bc", bounded: true },
];

pub fn flavour(name: &str) -> &'static Flavour {
  FLAVOURS.iter().find(|f| f.name == name).unwrap_or_else(|| panic!("unknown flavour {name}"))
}

pub fn make(name: &str, cap: usize) -> (Box<dyn DynTx>, Box<dyn DynRx>) {
  match name {
    "spsc_b" => { let (s, r) = fibre::spsc::bounded_sync::<Tok>(cap); (tx(s), rx(r)) }
    "spsc_b_async" => { let (s, r) = fibre::spsc::bounded_async::<Tok>(cap); (tx(s), rx(r)) }
    "mpsc_b" => { let (s, r) = fibre::mpsc::bounded::<Tok>(cap); (tx(s), rx(r)) }
    "mpsc_b_async" => { let (s, r) = fibre::mpsc::bounded_async::<Tok>(cap); (tx(s), rx(r)) }
    "mpsc_u" => { let (s, r) = fibre::mpsc::unbounded::<Tok>(); (tx(s), rx(r)) }
    "mpsc_u_async" => { let (s, r) = fibre::mpsc::unbounded_async::<Tok>(); (tx(s), rx(r)) }
    "mpmc_b" => { let (s, r) = fibre::mpmc::bounded::<Tok>(cap); (tx(s), rx(r)) }
    "mpmc_b_async" => { let (s, r) = fibre::mpmc::bounded_async::<Tok>(cap); (tx(s), rx(r)) }
    "mpmc_u" => { let (s, r) = fibre::mpmc::unbounded::<Tok>(); (tx(s), rx(r)) }
    "mpmc_u_async" => { let (s, r) = fibre::mpmc::unbounded_async::<Tok>(); (tx(s), rx(r)) }
    "spsc_rv" => { let (s, r) = fibre::spsc::rendezvous::rendezvous::<Tok>(); (tx(s), rx(r)) }
    "spsc_rv_async" => { let (s, r) = fibre::spsc::rendezvous::rendezvous_async::<Tok>(); (tx(s), rx(r)) }
    "mpsc_rv" => { let (s, r) = fibre::mpsc::rendezvous::rendezvous::<Tok>(); (tx(s), rx(r)) }
    "mpsc_rv_async" => { let (s, r) = fibre::mpsc::rendezvous::rendezvous_async::<Tok>(); (tx(s), rx(r)) }
    "mpmc_rv" => { let (s, r) = fibre::mpmc::rendezvous::rendezvous::<Tok>(); (tx(s), rx(r)) }
    "mpmc_rv_async" => { let (s, r) = fibre::mpmc::rendezvous::rendezvous_async::<Tok>(); (tx(s), rx(r)) }
    "mpmcx_b" => { let (s, r) = fibre::mpmc_exp::bounded::<Tok>(cap); (tx(s), rx(r)) }
    "mpmcx_b_async" => { let (s, r) = fibre::mpmc_exp::bounded_async::<Tok>(cap); (tx(s), rx(r)) }
    "spmc_b" => { let (s, r) = fibre::spmc::bounded::<Tok>(cap); (tx(s), rx(r)) }
    "spmc_b_async" => { let (s, r) = fibre::spmc::bounded_async::<Tok>(cap); (tx(s), rx(r)) }
    "oneshot" => { let (s, r) = fibre::oneshot::oneshot::<Tok>(); (tx(OneshotTx(Some(s))), rx(OneshotRx(r))) }
    _ => panic!("unknown flavour {name}"),
  }
}
