//! lock-seq / lock-sched: HybridMutex and HybridRwLock histories (C10).
//! An operation's id is also the id of the guard it obtains.

use crate::ctl::{Ctl, Outcome, Strategy};
use crate::hist;
use crate::seq::WakeFlag;
use fibre::sync::{HybridMutex, HybridRwLock, MutexGuard, ReadGuard, WriteGuard};
use fibre::verif::Controller;
use rand::rngs::StdRng;
use rand::{Rng, SeedableRng};
use serde_json::json;
use std::future::Future;
use std::pin::Pin;
use std::sync::atomic::{AtomicBool, AtomicU32, Ordering};
use std::sync::Arc;
use std::task::{Context, Poll, Wake, Waker};
use std::time::Duration;

#[allow(dead_code)]
pub enum G {
  M(MutexGuard<'static, u64>),
  R(ReadGuard<'static, u64>),
  W(WriteGuard<'static, u64>),
}

#[derive(Clone, Copy)]
pub enum Lk {
  M(&'static HybridMutex<u64>),
  Rw(&'static HybridRwLock<u64>),
}

type GF = Pin<Box<dyn Future<Output = G>>>;

impl Lk {
  fn new(rw: bool) -> Lk {
    if rw { Lk::Rw(Box::leak(Box::new(HybridRwLock::new(0)))) } else { Lk::M(Box::leak(Box::new(HybridMutex::new(0)))) }
  }
  fn ops(&self) -> &'static [&'static str] {
    match self {
      Lk::M(_) => &["lock"],
      Lk::Rw(_) => &["read", "write"],
    }
  }
  fn sync(&self, op: &str) -> G {
    match (self, op) {
      (Lk::M(m), _) => G::M(m.lock()),
      (Lk::Rw(l), "read") => G::R(l.read()),
      (Lk::Rw(l), _) => G::W(l.write()),
    }
  }
  fn try_(&self, op: &str) -> Option<G> {
    match (self, op) {
      (Lk::M(m), _) => m.try_lock().map(G::M),
      (Lk::Rw(l), "read") => l.try_read().map(G::R),
      (Lk::Rw(l), _) => l.try_write().map(G::W),
    }
  }
  fn fut(&self, op: &str) -> GF {
    match (*self, op) {
      (Lk::M(m), _) => Box::pin(async move { G::M(m.lock_async().await) }),
      (Lk::Rw(l), "read") => Box::pin(async move { G::R(l.read_async().await) }),
      (Lk::Rw(l), _) => Box::pin(async move { G::W(l.write_async().await) }),
    }
  }
}

fn try_name(op: &str) -> &'static str {
  match op {
    "lock" => "try_lock",
    "read" => "try_read",
    _ => "try_write",
  }
}

// ------------------------------------------------------------------ sequential
pub struct SeqCfg {
  pub rw: bool,
  pub ops: usize,
  pub seed: u64,
}

struct PF {
  o: u32,
  fut: GF,
  wf: Arc<WakeFlag>,
}

pub fn run_seq(cfg: &SeqCfg) {
  let mut rng = StdRng::seed_from_u64(cfg.seed);
  let lk = Lk::new(cfg.rw);
  hist::push(json!({"k":"new","kind": if cfg.rw {"rwlock"} else {"mutex"}}));
  // futures before guards: a pending future never holds a guard
  let mut futs: Vec<PF> = vec![];
  let mut held: Vec<(u32, G, bool)> = vec![]; // (guard id, guard, exclusive)
  let mut next_o = 0u32;
  for _ in 0..cfg.ops {
    let roll = rng.random_range(0..100);
    if roll < 25 && !held.is_empty() {
      let i = rng.random_range(0..held.len());
      let (g, guard, _) = held.swap_remove(i);
      hist::push(json!({"k":"rel","g":g}));
      drop(guard);
    } else if roll < 50 && !futs.is_empty() {
      let i = rng.random_range(0..futs.len());
      if rng.random_range(0..100) < 25 {
        let f = futs.swap_remove(i);
        drop(f.fut);
        hist::push(json!({"k":"cancel","o":f.o}));
      } else {
        let o = futs[i].o;
        futs[i].wf.flag.store(false, Ordering::SeqCst);
        if rng.random_range(0..100) < 15 {
          futs[i].wf.stale.store(true, Ordering::SeqCst);
          futs[i].wf = WakeFlag::new(o);
        }
        let waker = Waker::from(futs[i].wf.clone());
        let mut cx = Context::from_waker(&waker);
        match futs[i].fut.as_mut().poll(&mut cx) {
          Poll::Pending => hist::push(json!({"k":"pend","o":o})),
          Poll::Ready(g) => {
            let excl = !matches!(g, G::R(_));
            hist::push(json!({"k":"ret","o":o,"res":"ok","g":o}));
            futs.swap_remove(i);
            held.push((o, g, excl));
          }
        }
      }
    } else {
      let ops = lk.ops();
      let op = ops[rng.random_range(0..ops.len())];
      next_o += 1;
      let o = next_o;
      let kind = rng.random_range(0..100);
      let free = if op == "read" { !held.iter().any(|h| h.2) } else { held.is_empty() };
      // a queued writer future holds readers back: a blocking read could wait for ever in one thread
      let writer_waiting = !futs.is_empty();
      if kind < 35 {
        hist::push(json!({"k":"call","o":o,"op":try_name(op),"fut":false}));
        match lk.try_(op) {
          Some(g) => {
            hist::push(json!({"k":"ret","o":o,"res":"ok","g":o}));
            held.push((o, g, op != "read"));
          }
          None => hist::push(json!({"k":"ret","o":o,"res":"none","g":0})),
        }
      } else if kind < 55 && free && !writer_waiting {
        hist::push(json!({"k":"call","o":o,"op":op,"fut":false}));
        let g = lk.sync(op);
        hist::push(json!({"k":"ret","o":o,"res":"ok","g":o}));
        held.push((o, g, op != "read"));
      } else if futs.len() < 3 {
        hist::push(json!({"k":"call","o":o,"op":op,"fut":true}));
        futs.push(PF { o, fut: lk.fut(op), wf: WakeFlag::new(o) });
      }
    }
    if !futs.is_empty() {
      hist::push(json!({"k":"quiesce","blocked":[]}));
    }
  }
  // wind down: cancel futures, release guards
  while let Some(f) = futs.pop() {
    drop(f.fut);
    hist::push(json!({"k":"cancel","o":f.o}));
  }
  while let Some((g, guard, _)) = held.pop() {
    hist::push(json!({"k":"rel","g":g}));
    drop(guard);
  }
  hist::push(json!({"k":"end"}));
}

// ------------------------------------------------------------------- scheduled
pub struct SchedCfg {
  pub rw: bool,
  pub threads: usize,
  pub rounds: usize,
  pub seed: u64,
  pub strategy: String,
}

struct ThreadWaker {
  ctl: Arc<Ctl>,
  th: std::thread::Thread,
}
impl Wake for ThreadWaker {
  fn wake(self: Arc<Self>) {
    self.wake_by_ref()
  }
  fn wake_by_ref(self: &Arc<Self>) {
    self.ctl.unpark(self.th.id());
    self.th.unpark();
  }
}

pub struct RunStat {
  pub outcome: Outcome,
  pub leaked: usize,
  pub records: Vec<String>,
}

pub fn run_sched(cfg: &SchedCfg) -> RunStat {
  let lk = Lk::new(cfg.rw);
  let gen_ = hist::begin();
  hist::push(json!({"k":"new","kind": if cfg.rw {"rwlock"} else {"mutex"}}));
  // PCT: the expected run length k is drawn per run (many races sit in the first few steps,
  // others need a long prefix), d-1 priority change points fall uniformly in 1..k
  let ks = [6u64, 12, 25, 50, 100, 200, 400];
  let k = ks[((cfg.seed / 7) % ks.len() as u64) as usize];
  let strat = match cfg.strategy.as_str() {
    "pct" => Strategy::Pct { d: 2, k },
    "pct5" => Strategy::Pct { d: 3, k },
    _ => Strategy::Random { p: 0.25 },
  };
  let ctl = Ctl::new(cfg.threads, cfg.seed ^ 0x51ed270b, strat);
  ctl.set_noise(0.05, 0.0);
  let dynctl: Arc<dyn Controller> = ctl.clone();
  fibre::verif::set_global(Some(dynctl));
  let cur: Arc<Vec<AtomicU32>> = Arc::new((0..cfg.threads).map(|_| AtomicU32::new(0)).collect());
  let abort = Arc::new(AtomicBool::new(false));
  let mut joins = vec![];
  for tid in 0..cfg.threads {
    let (ctl2, cur2, abort2) = (ctl.clone(), cur.clone(), abort.clone());
    let seed = cfg.seed.wrapping_add(tid as u64 * 104729);
    let rounds = cfg.rounds;
    joins.push(ctl.spawn(tid, gen_, move || { hist::join(gen_); worker(tid, lk, rounds, seed, ctl2, cur2, abort2) }));
  }
  let outcome = ctl.run(Duration::from_secs(30));
  for (t, msg) in &outcome.panics {
    hist::push(json!({"k":"panic","o":cur[*t].load(Ordering::SeqCst),"msg":msg}));
  }
  if outcome.all_done && !outcome.step_limit && !outcome.stuck {
    hist::push(json!({"k":"end"}));
  } else if !outcome.stuck && !outcome.step_limit {
    let blocked: Vec<u32> = outcome.blocked.iter().map(|&t| cur[t].load(Ordering::SeqCst)).filter(|&o| o != 0).collect();
    hist::push(json!({"k":"quiesce","blocked":blocked}));
    hist::push(json!({"k":"hung"}));
  } else {
    hist::push(json!({"k":"inconclusive"}));
  }
  let records = hist::take();
  abort.store(true, Ordering::SeqCst);
  hist::begin();
  ctl.release_all();
  let deadline = std::time::Instant::now() + Duration::from_millis(1500);
  let mut leaked = 0;
  for (tid, j) in joins.into_iter().enumerate() {
    loop {
      if j.is_finished() {
        let _ = j.join();
        break;
      }
      if std::time::Instant::now() > deadline {
        leaked += 1;
        break;
      }
      ctl.kick(tid);
      std::thread::sleep(Duration::from_millis(5));
    }
  }
  fibre::verif::set_global(None);
  RunStat { outcome, leaked, records }
}

fn worker(tid: usize, lk: Lk, rounds: usize, seed: u64, ctl: Arc<Ctl>, cur: Arc<Vec<AtomicU32>>, abort: Arc<AtomicBool>) {
  let mut rng = StdRng::seed_from_u64(seed);
  let mut seq = 0u32;
  for _ in 0..rounds {
    if abort.load(Ordering::SeqCst) {
      return;
    }
    let ops = lk.ops();
    let op = ops[rng.random_range(0..ops.len())];
    seq += 1;
    let o = (tid as u32 + 1) * 1000 + seq;
    cur[tid].store(o, Ordering::SeqCst);
    let mode = rng.random_range(0..100);
    let got: Option<G> = if mode < 20 {
      hist::push(json!({"k":"call","o":o,"op":try_name(op),"fut":false}));
      let g = lk.try_(op);
      hist::push(json!({"k":"ret","o":o,"res": if g.is_some() {"ok"} else {"none"},"g": if g.is_some() { o } else { 0 }}));
      g
    } else if mode < 55 {
      hist::push(json!({"k":"call","o":o,"op":op,"fut":false}));
      let g = lk.sync(op);
      hist::push(json!({"k":"ret","o":o,"res":"ok","g":o}));
      Some(g)
    } else {
      // async acquisition driven by a park-based block_on; sometimes the future is
      // dropped after its first Pending poll (cancellation, possibly after a wake)
      let cancel_after = if mode >= 85 { rng.random_range(1..3) } else { 0 };
      hist::push(json!({"k":"call","o":o,"op":op,"fut":true}));
      let mut fut = lk.fut(op);
      let w = Arc::new(ThreadWaker { ctl: ctl.clone(), th: std::thread::current() });
      let waker = Waker::from(w);
      let mut cx = Context::from_waker(&waker);
      let mut polls = 0;
      loop {
        match fut.as_mut().poll(&mut cx) {
          Poll::Ready(g) => {
            hist::push(json!({"k":"ret","o":o,"res":"ok","g":o}));
            break Some(g);
          }
          Poll::Pending => {
            polls += 1;
            hist::push(json!({"k":"pend","o":o}));
            if cancel_after > 0 && polls >= cancel_after {
              // let the others run a little so the cancel can land after a wake
              Controller::spin(&*ctl, std::panic::Location::caller());
              drop(fut);
              hist::push(json!({"k":"cancel","o":o}));
              break None;
            }
            Controller::park(&*ctl, None, std::panic::Location::caller());
            if abort.load(Ordering::SeqCst) {
              return;
            }
          }
        }
      }
    };
    cur[tid].store(0, Ordering::SeqCst);
    if let Some(g) = got {
      for _ in 0..rng.random_range(0..3) {
        Controller::spin(&*ctl, std::panic::Location::caller());
      }
      hist::push(json!({"k":"relcall","g":o}));
      drop(g);
      hist::push(json!({"k":"rel","g":o}));
    }
  }
}
