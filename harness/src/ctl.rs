//! The cooperative scheduler lives in the shared `fvctl` crate (also usable by the
//! other driver crates); this module re-exports it.
pub use fvctl::*;
