//! topic-seq: random sequential programs on the topic pub/sub channel
//! (sync and async handles, recv futures polled / dropped explicitly).

use crate::hist;
use crate::seq::WakeFlag;
use fibre::error::*;
use fibre::spmc::topic::{self, AsyncTopicReceiver, AsyncTopicSender, TopicReceiver, TopicSender};
use futures_core::Stream;
use rand::rngs::StdRng;
use rand::{Rng, SeedableRng};
use serde_json::json;
use std::collections::HashSet;
use std::future::Future;
use std::pin::Pin;
use std::sync::atomic::{AtomicBool, Ordering};
use std::sync::Arc;
use std::task::{Context, Poll, Waker};
use std::time::Duration;

enum Tx {
  S(TopicSender<u8, u32>),
  A(AsyncTopicSender<u8, u32>),
}
enum Rx {
  S(TopicReceiver<u8, u32>),
  A(Box<AsyncTopicReceiver<u8, u32>>),
}

struct TxH {
  id: u32,
  h: Option<Tx>,
  closed: bool,
}
struct RxH {
  id: u32,
  h: Option<Rx>,
  closed: bool,
  subs: HashSet<u8>,
  est: usize,
  fut: Option<PF>,
}
struct PF {
  o: u32,
  fut: Option<Pin<Box<dyn Future<Output = Result<(u8, u32), RecvError>>>>>,
  stream: bool,
  wf: Arc<WakeFlag>,
}

pub struct Cfg {
  pub cap: usize,
  pub ops: usize,
  pub seed: u64,
  pub is_async: bool,
  pub kf: Vec<String>,
}

struct St {
  rng: StdRng,
  // receivers (with their futures) are declared before senders only for drop order of futures
  rxs: Vec<RxH>,
  txs: Vec<TxH>,
  next_h: u32,
  next_v: u32,
  next_o: u32,
  cap: usize,
}

impl St {
  fn live_tx(&self) -> usize {
    self.txs.iter().filter(|t| t.h.is_some() && !t.closed).count()
  }
  fn live_rx(&self) -> usize {
    self.rxs.iter().filter(|t| t.h.is_some() && !t.closed).count()
  }
  fn quiesce(&self) {
    if self.rxs.iter().any(|r| r.fut.is_some()) {
      hist::push(json!({"k":"quiesce"}));
    }
  }
}

pub fn run_program(cfg: &Cfg) {
  let mut st = St { rng: StdRng::seed_from_u64(cfg.seed), rxs: vec![], txs: vec![], next_h: 2, next_v: 0, next_o: 0, cap: cfg.cap };
  if cfg.is_async {
    let (t, r) = topic::channel_async::<u8, u32>(cfg.cap);
    st.txs.push(TxH { id: 1, h: Some(Tx::A(t)), closed: false });
    st.rxs.push(RxH { id: 2, h: Some(Rx::A(Box::new(r))), closed: false, subs: HashSet::new(), est: 0, fut: None });
  } else {
    let (t, r) = topic::channel::<u8, u32>(cfg.cap);
    st.txs.push(TxH { id: 1, h: Some(Tx::S(t)), closed: false });
    st.rxs.push(RxH { id: 2, h: Some(Rx::S(r)), closed: false, subs: HashSet::new(), est: 0, fut: None });
  }
  hist::push(json!({"k":"new","cap":cfg.cap,"tx":[1],"rx":[2],"fl": if cfg.is_async {"topic_async"} else {"topic"},"kf":cfg.kf}));
  for _ in 0..cfg.ops {
    step(&mut st);
    st.quiesce();
    if st.txs.iter().all(|t| t.h.is_none()) && st.rxs.iter().all(|r| r.h.is_none()) {
      break;
    }
  }
  // teardown in random order
  loop {
    let t: Vec<usize> = (0..st.txs.len()).filter(|&i| st.txs[i].h.is_some()).collect();
    let r: Vec<usize> = (0..st.rxs.len()).filter(|&i| st.rxs[i].h.is_some()).collect();
    if t.is_empty() && r.is_empty() {
      break;
    }
    if !t.is_empty() && (r.is_empty() || st.rng.random_bool(0.5)) {
      let i = t[st.rng.random_range(0..t.len())];
      drop_tx(&mut st, i);
    } else {
      let i = r[st.rng.random_range(0..r.len())];
      drop_rx(&mut st, i);
    }
    st.quiesce();
  }
  hist::push(json!({"k":"end"}));
}

fn drop_tx(st: &mut St, i: usize) {
  let id = st.txs[i].id;
  st.txs[i].h = None;
  hist::push(json!({"k":"hdrop","h":id}));
}

fn cancel(st: &mut St, i: usize) {
  if let Some(f) = st.rxs[i].fut.take() {
    let o = f.o;
    drop(f);
    hist::push(json!({"k":"fcancel","o":o}));
  }
}

fn drop_rx(st: &mut St, i: usize) {
  cancel(st, i);
  let id = st.rxs[i].id;
  st.rxs[i].h = None;
  hist::push(json!({"k":"hdrop","h":id}));
}

fn rec_recv_res(kind: &str, key: &str, idv: u32, res: &str, tv: Option<(u8, u32)>) {
  let (t, v) = tv.map(|(t, v)| (t as i64, v as i64)).unwrap_or((-1, -1));
  hist::push(json!({"k":kind, key:idv, "res":res, "topic":t, "v":v}));
}

fn step(st: &mut St) {
  let roll = st.rng.random_range(0..100);
  let t: Vec<usize> = (0..st.txs.len()).filter(|&i| st.txs[i].h.is_some()).collect();
  let r: Vec<usize> = (0..st.rxs.len()).filter(|&i| st.rxs[i].h.is_some()).collect();
  if roll < 35 && !t.is_empty() {
    // publish
    let i = t[st.rng.random_range(0..t.len())];
    let topic = st.rng.random_range(0..3u8);
    st.next_v += 1;
    let v = st.next_v;
    let res = match st.txs[i].h.as_ref().unwrap() {
      Tx::S(s) => s.send(topic, v),
      Tx::A(s) => s.send(topic, v),
    };
    let ok = res.is_ok();
    hist::push(json!({"k":"pub","h":st.txs[i].id,"topic":topic,"v":v,"res": if ok {"ok"} else {"closed"}}));
    if ok {
      let cap = st.cap;
      for rx in st.rxs.iter_mut() {
        if rx.h.is_some() && !rx.closed && rx.subs.contains(&topic) && rx.est < cap {
          rx.est += 1;
        }
      }
    }
  } else if roll < 70 && !r.is_empty() {
    let i = r[st.rng.random_range(0..r.len())];
    recv_step(st, i);
  } else if roll < 85 && !r.is_empty() {
    let i = r[st.rng.random_range(0..r.len())];
    let topic = st.rng.random_range(0..3u8);
    let subscribe = st.rng.random_bool(0.65);
    if st.rxs[i].fut.is_some() {
      return; // the future borrows the handle (single owner)
    }
    match st.rxs[i].h.as_ref().unwrap() {
      Rx::S(x) => {
        if subscribe {
          x.subscribe(topic)
        } else {
          x.unsubscribe(&topic)
        }
      }
      Rx::A(x) => {
        if subscribe {
          x.subscribe(topic)
        } else {
          x.unsubscribe(&topic)
        }
      }
    }
    if subscribe {
      st.rxs[i].subs.insert(topic);
    } else {
      st.rxs[i].subs.remove(&topic);
    }
    hist::push(json!({"k": if subscribe {"sub"} else {"unsub"}, "h": st.rxs[i].id, "topic": topic}));
  } else {
    lifecycle(st, &t, &r);
  }
}

fn lifecycle(st: &mut St, t: &[usize], r: &[usize]) {
  let on_tx = !t.is_empty() && (r.is_empty() || st.rng.random_bool(0.5));
  let roll = st.rng.random_range(0..100);
  if on_tx {
    let i = t[st.rng.random_range(0..t.len())];
    let clone_ok = !st.txs[i].closed || st.rng.random_range(0..100) < 6; // (known finding F24t)
    if roll < 35 && clone_ok && st.txs.iter().filter(|x| x.h.is_some()).count() < 3 {
      let nh = {
        st.next_h += 1;
        st.next_h
      };
      let c = match st.txs[i].h.as_ref().unwrap() {
        Tx::S(s) => Tx::S(s.clone()),
        Tx::A(_) => return, // the async sender is not Clone
      };
      hist::push(json!({"k":"clone","h":st.txs[i].id,"nh":nh}));
      st.txs.push(TxH { id: nh, h: Some(c), closed: false });
    } else if roll < 60 {
      let ok = match st.txs[i].h.as_ref().unwrap() {
        Tx::S(s) => s.close().is_ok(),
        Tx::A(s) => s.close().is_ok(),
      };
      st.txs[i].closed = true;
      hist::push(json!({"k":"close","h":st.txs[i].id,"res": if ok {"ok"} else {"err"}}));
    } else if roll < 80 {
      let nh = {
        st.next_h += 1;
        st.next_h
      };
      let h = st.txs[i].h.take().unwrap();
      let nhd = match h {
        Tx::S(s) => Tx::A(s.to_async()),
        Tx::A(s) => Tx::S(s.to_sync()),
      };
      hist::push(json!({"k":"conv","h":st.txs[i].id,"nh":nh}));
      st.txs[i].id = nh;
      st.txs[i].h = Some(nhd);
    } else {
      drop_tx(st, i);
    }
  } else if !r.is_empty() {
    let i = r[st.rng.random_range(0..r.len())];
    if st.rxs[i].fut.is_some() && roll < 80 {
      return;
    }
    let clone_ok = !st.rxs[i].closed || st.rng.random_range(0..100) < 6;
    if roll < 35 && clone_ok && st.rxs.iter().filter(|x| x.h.is_some()).count() < 3 {
      let nh = {
        st.next_h += 1;
        st.next_h
      };
      let c = match st.rxs[i].h.as_ref().unwrap() {
        Rx::S(s) => Rx::S(s.clone()),
        Rx::A(s) => Rx::A(Box::new((**s).clone())),
      };
      hist::push(json!({"k":"clone","h":st.rxs[i].id,"nh":nh}));
      let subs = st.rxs[i].subs.clone();
      let closed = st.rxs[i].closed;
      st.rxs.push(RxH { id: nh, h: Some(c), closed, subs, est: 0, fut: None });
    } else if roll < 60 {
      let ok = match st.rxs[i].h.as_ref().unwrap() {
        Rx::S(s) => s.close().is_ok(),
        Rx::A(s) => s.close().is_ok(),
      };
      st.rxs[i].closed = true;
      hist::push(json!({"k":"close","h":st.rxs[i].id,"res": if ok {"ok"} else {"err"}}));
    } else if roll < 80 {
      let nh = {
        st.next_h += 1;
        st.next_h
      };
      let h = st.rxs[i].h.take().unwrap();
      let nhd = match h {
        Rx::S(s) => Rx::A(Box::new(s.to_async())),
        Rx::A(s) => Rx::S((*s).to_sync()),
      };
      hist::push(json!({"k":"conv","h":st.rxs[i].id,"nh":nh}));
      st.rxs[i].id = nh;
      st.rxs[i].h = Some(nhd);
    } else {
      drop_rx(st, i);
    }
  }
}

fn recv_step(st: &mut St, i: usize) {
  let id = st.rxs[i].id;
  if st.rxs[i].fut.is_some() {
    // poll or cancel the pending future
    if st.rng.random_range(0..100) < 20 {
      cancel(st, i);
    } else {
      poll(st, i);
    }
    return;
  }
  let sure = st.rxs[i].closed || st.rxs[i].est > 0 || st.live_tx() == 0;
  let is_async = matches!(st.rxs[i].h, Some(Rx::A(_)));
  let roll = st.rng.random_range(0..100);
  if is_async && roll < 55 {
    st.next_o += 1;
    let o = st.next_o;
    let stream = roll < 15;
    hist::push(json!({"k":"fcall","o":o,"h":id,"stream":stream}));
    let wf = WakeFlag::new(o);
    let fut = if stream {
      None
    } else {
      match st.rxs[i].h.as_mut().unwrap() {
        Rx::A(x) => {
          // SAFETY: the receiver is boxed and the future is dropped before the handle
          let xr: &'static AsyncTopicReceiver<u8, u32> = unsafe { &*(&**x as *const _) };
          let f: Pin<Box<dyn Future<Output = Result<(u8, u32), RecvError>>>> = Box::pin(xr.recv());
          Some(f)
        }
        _ => unreachable!(),
      }
    };
    st.rxs[i].fut = Some(PF { o, fut, stream, wf });
    if st.rng.random_bool(0.85) {
      poll(st, i);
    }
    return;
  }
  let op = if is_async || roll < 70 {
    "try_recv"
  } else if roll < 85 {
    "recv_timeout"
  } else if sure {
    "recv"
  } else {
    "try_recv"
  };
  if op == "recv" {
    hist::push(json!({"k":"rcall","h":id}));
  }
  let (res, tv) = match st.rxs[i].h.as_ref().unwrap() {
    Rx::S(x) => match op {
      "try_recv" => match x.try_recv() {
        Ok(m) => ("val", Some(m)),
        Err(TryRecvError::Empty) => ("empty", None),
        Err(TryRecvError::Disconnected) => ("disc", None),
      },
      "recv_timeout" => match x.recv_timeout(Duration::from_millis(if sure { 200 } else { 1 })) {
        Ok(m) => ("val", Some(m)),
        Err(RecvErrorTimeout::Timeout) => ("timeout", None),
        Err(RecvErrorTimeout::Disconnected) => ("disc", None),
      },
      _ => match x.recv() {
        Ok(m) => ("val", Some(m)),
        Err(_) => ("disc", None),
      },
    },
    Rx::A(x) => match x.try_recv() {
      Ok(m) => ("val", Some(m)),
      Err(TryRecvError::Empty) => ("empty", None),
      Err(TryRecvError::Disconnected) => ("disc", None),
    },
  };
  if res == "val" {
    st.rxs[i].est = st.rxs[i].est.saturating_sub(1);
  }
  let (t, v) = tv.map(|(t, v)| (t as i64, v as i64)).unwrap_or((-1, -1));
  hist::push(json!({"k":"recv","h":id,"op":op,"res":res,"topic":t,"v":v}));
}

fn poll(st: &mut St, i: usize) {
  let (o, wf, stream) = {
    let f = st.rxs[i].fut.as_ref().unwrap();
    (f.o, f.wf.clone(), f.stream)
  };
  wf.flag.store(false, Ordering::SeqCst);
  let waker = Waker::from(wf);
  let mut cx = Context::from_waker(&waker);
  let r: Poll<Result<(u8, u32), RecvError>> = if stream {
    match st.rxs[i].h.as_mut().unwrap() {
      Rx::A(x) => match Pin::new(&mut **x).poll_next(&mut cx) {
        Poll::Pending => Poll::Pending,
        Poll::Ready(Some(m)) => Poll::Ready(Ok(m)),
        Poll::Ready(None) => Poll::Ready(Err(RecvError::Disconnected)),
      },
      _ => unreachable!(),
    }
  } else {
    st.rxs[i].fut.as_mut().unwrap().fut.as_mut().unwrap().as_mut().poll(&mut cx)
  };
  match r {
    Poll::Pending => hist::push(json!({"k":"fpend","o":o})),
    Poll::Ready(res) => {
      st.rxs[i].fut = None;
      match res {
        Ok(m) => {
          st.rxs[i].est = st.rxs[i].est.saturating_sub(1);
          rec_recv_res("fret", "o", o, "val", Some(m));
        }
        Err(_) => rec_recv_res("fret", "o", o, "disc", None),
      }
    }
  }
}

// ------------------------------------------------------------------------------------------------
// topic-thr: receiver threads parked in blocking receives while the main thread publishes and leaves.
// The topic module does not go through `internal::sync`, so the interleaving is the OS scheduler's
// (plus seeded sleeps).  Record discipline (see TopicTrace): `pubc` before a publish / `pubr` after it,
// `hdrop` of a sender before the drop, `fcall` before and `fret` after every blocking receive.
// The mailboxes never fill up (capacity 8, at most 6 publishes), so "omitted because full" does not occur.

pub struct ThrCfg {
  pub seed: u64,
  pub is_async: bool,
  pub kf: Vec<String>,
}

struct ThreadWake(std::thread::Thread);
impl std::task::Wake for ThreadWake {
  fn wake(self: Arc<Self>) {
    self.0.unpark();
  }
}

fn block_on_thr<F: Future>(f: F) -> F::Output {
  let mut f = std::pin::pin!(f);
  let w = Waker::from(Arc::new(ThreadWake(std::thread::current())));
  let mut cx = Context::from_waker(&w);
  loop {
    if let Poll::Ready(v) = f.as_mut().poll(&mut cx) {
      return v;
    }
    std::thread::park();
  }
}

pub fn run_threads(cfg: &ThrCfg) {
  use std::sync::atomic::AtomicU32;
  let mut rng = StdRng::seed_from_u64(cfg.seed);
  let gen_ = hist::current_gen();
  let cap = 8usize;
  let nr = rng.random_range(1..=3usize);
  let ns = rng.random_range(1..=2usize);
  // handles: senders 1.., receivers 11..
  let (txs, rxs): (Vec<Tx>, Vec<Rx>) = if cfg.is_async {
    // (the async sender is not Clone: clones are made of the sync form and converted)
    let (t, r) = topic::channel_async::<u8, u32>(cap);
    let t = t.to_sync();
    let mut ts = vec![];
    for _ in 1..ns {
      ts.push(Tx::A(t.clone().to_async()));
    }
    ts.insert(0, Tx::A(t.to_async()));
    let mut rs = vec![];
    for _ in 1..nr {
      rs.push(Rx::A(Box::new(r.clone())));
    }
    rs.insert(0, Rx::A(Box::new(r)));
    (ts, rs)
  } else {
    let (t, r) = topic::channel::<u8, u32>(cap);
    let mut ts = vec![];
    for _ in 1..ns {
      ts.push(Tx::S(t.clone()));
    }
    ts.insert(0, Tx::S(t));
    let mut rs = vec![];
    for _ in 1..nr {
      rs.push(Rx::S(r.clone()));
    }
    rs.insert(0, Rx::S(r));
    (ts, rs)
  };
  let txids: Vec<u32> = (0..ns as u32).map(|i| 1 + i).collect();
  let rxids: Vec<u32> = (0..nr as u32).map(|i| 11 + i).collect();
  // (clones made before any subscription: every receiver starts with an empty subscription set)
  hist::push(json!({"k":"new","cap":cap,"tx":txids,"rx":rxids,"fl": if cfg.is_async {"topic_async"} else {"topic"},"kf":cfg.kf}));

  // sequential setup: subscriptions (one receiver may stay subscribed to nothing)
  let mut rxs = rxs;
  for (i, r) in rxs.iter_mut().enumerate() {
    let none = nr > 1 && i == nr - 1 && rng.random_bool(0.3);
    for t in 0..3u8 {
      if !none && rng.random_bool(0.6) {
        match r {
          Rx::S(r) => r.subscribe(t),
          Rx::A(r) => r.subscribe(t),
        }
        hist::push(json!({"k":"sub","h":rxids[i],"topic":t}));
      }
    }
  }
  let mut txs: Vec<Option<Tx>> = txs.into_iter().map(Some).collect();
  let mut next_v = 0u32;
  let mut budget = 6usize; // publishes in total (mailbox capacity 8 is never reached)
  let mut publish = |txs: &mut Vec<Option<Tx>>, rng: &mut StdRng, budget: &mut usize| {
    let live: Vec<usize> = (0..txs.len()).filter(|&i| txs[i].is_some()).collect();
    if live.is_empty() || *budget == 0 {
      return;
    }
    *budget -= 1;
    let i = live[rng.random_range(0..live.len())];
    let t = rng.random_range(0..3u8);
    next_v += 1;
    let v = next_v;
    hist::push(json!({"k":"pubc","h":txids[i],"topic":t,"v":v}));
    let ok = match txs[i].as_ref().unwrap() {
      Tx::S(s) => s.send(t, v).is_ok(),
      Tx::A(s) => s.send(t, v).is_ok(),
    };
    hist::push(json!({"k":"pubr","res": if ok {"ok"} else {"closed"}}));
  };
  for _ in 0..rng.random_range(0..=2) {
    publish(&mut txs, &mut rng, &mut budget);
  }

  // receiver threads
  let cur: Arc<Vec<AtomicU32>> = Arc::new((0..nr).map(|_| AtomicU32::new(0)).collect());
  let mut joins = vec![];
  for (i, r) in rxs.into_iter().enumerate() {
    let hid = rxids[i];
    let cur2 = cur.clone();
    let timed = rng.random_bool(0.4);
    let quota = if rng.random_bool(0.3) { rng.random_range(1..=3) } else { 100 };
    joins.push(std::thread::spawn(move || {
      hist::join(gen_);
      let mut r = r;
      let mut seq = 0u32;
      let mut got = 0;
      loop {
        if got >= quota {
          break;
        }
        seq += 1;
        let o = (i as u32 + 1) * 1000 + seq;
        cur2[i].store(o, Ordering::SeqCst);
        hist::push(json!({"k":"fcall","o":o,"h":hid}));
        // Ok(Some) value, Ok(None) timeout, Err disconnected
        let res: Result<Option<(u8, u32)>, ()> = match &mut r {
          Rx::S(r) => {
            if timed {
              match r.recv_timeout(Duration::from_secs(3)) {
                Ok(x) => Ok(Some(x)),
                Err(RecvErrorTimeout::Timeout) => Ok(None),
                Err(RecvErrorTimeout::Disconnected) => Err(()),
              }
            } else {
              r.recv().map(Some).map_err(|_| ())
            }
          }
          Rx::A(r) => block_on_thr(r.recv()).map(Some).map_err(|_| ()),
        };
        match res {
          Ok(Some((t, v))) => {
            rec_recv_res("fret", "o", o, "val", Some((t, v)));
            got += 1;
          }
          Ok(None) => {
            hist::push(json!({"k":"tgiveup","o":o}));
          }
          Err(()) => {
            rec_recv_res("fret", "o", o, "disc", None);
            cur2[i].store(0, Ordering::SeqCst);
            break;
          }
        }
        cur2[i].store(0, Ordering::SeqCst);
      }
      r
    }));
  }

  // let the receivers reach their blocking calls, then act
  std::thread::sleep(Duration::from_millis(rng.random_range(2..12)));
  let actions = rng.random_range(2..=6);
  for _ in 0..actions {
    let live: Vec<usize> = (0..txs.len()).filter(|&i| txs[i].is_some()).collect();
    if live.is_empty() {
      break;
    }
    if rng.random_bool(0.7) && budget > 0 {
      publish(&mut txs, &mut rng, &mut budget);
    } else {
      let i = live[rng.random_range(0..live.len())];
      hist::push(json!({"k":"hdrop","h":txids[i]}));
      txs[i] = None;
    }
    match rng.random_range(0..4) {
      0 => std::thread::sleep(Duration::from_millis(rng.random_range(1..4))),
      1 => std::thread::yield_now(),
      _ => {}
    }
  }
  // the last senders leave (right after the last publish in most runs)
  for i in 0..txs.len() {
    if txs[i].is_some() {
      hist::push(json!({"k":"hdrop","h":txids[i]}));
      txs[i] = None;
    }
  }
  // every receiver must now drain and observe Disconnected (or stop at its quota)
  let deadline = std::time::Instant::now() + Duration::from_millis(8000);
  let mut back: Vec<Option<Rx>> = vec![];
  for (i, j) in joins.into_iter().enumerate() {
    loop {
      if j.is_finished() {
        back.push(j.join().ok());
        break;
      }
      if std::time::Instant::now() > deadline {
        let o = cur[i].load(Ordering::SeqCst);
        if o != 0 {
          hist::push(json!({"k":"tblocked","o":o}));
        }
        back.push(None); // the thread is abandoned inside the library
        break;
      }
      std::thread::sleep(Duration::from_millis(2));
    }
  }
  for (i, r) in back.into_iter().enumerate() {
    if let Some(r) = r {
      drop(r);
      hist::push(json!({"k":"hdrop","h":rxids[i]}));
    }
  }
  hist::push(json!({"k":"end"}));
}
