//! loader-sched: concurrent `fetch_with` calls on a cache with a sync loader under
//! the cooperative scheduler (the loader threads the cache spawns are adopted), and - `is_async` -
//! on an AsyncCache with an async loader whose tasks run on scheduler-managed threads (the driver's
//! own TaskSpawner), callers on a park-based executor whose wakers go through the scheduler.

use crate::ctl::{Ctl, Outcome, Strategy};
use crate::hist;
use fibre::verif::Controller;
use fibre_cache::CacheBuilder;
use rand::rngs::StdRng;
use rand::{Rng, SeedableRng};
use serde_json::json;
use std::sync::atomic::{AtomicBool, AtomicU32, Ordering};
use std::sync::Arc;
use std::future::Future;
use std::pin::Pin;
use std::task::{Context, Poll, Wake, Waker};
use std::time::Duration;

struct SchedWaker {
  ctl: Arc<Ctl>,
  th: std::thread::Thread,
}
impl Wake for SchedWaker {
  fn wake(self: Arc<Self>) {
    self.wake_by_ref()
  }
  fn wake_by_ref(self: &Arc<Self>) {
    self.ctl.unpark(self.th.id());
    self.th.unpark();
  }
}

/// Drives a future on the calling (managed) thread: Pending -> park through the scheduler.
#[track_caller]
fn block_on<F: Future>(ctl: &Arc<Ctl>, f: F) -> F::Output {
  let mut f = std::pin::pin!(f);
  let waker = Waker::from(Arc::new(SchedWaker { ctl: ctl.clone(), th: std::thread::current() }));
  let mut cx = Context::from_waker(&waker);
  loop {
    if let Poll::Ready(v) = f.as_mut().poll(&mut cx) {
      return v;
    }
    Controller::park(&**ctl, None, std::panic::Location::caller());
  }
}

/// Runs every task the cache spawns on its own thread, adopted by the scheduler.
struct AdoptSpawner {
  ctl: Arc<Ctl>,
}
impl fibre_cache::TaskSpawner for AdoptSpawner {
  fn spawn(&self, future: Pin<Box<dyn Future<Output = ()> + Send>>) {
    fibre::verif::expect_adoption();
    let ctl = self.ctl.clone();
    std::thread::spawn(move || {
      let _guard = fibre::verif::adopt();
      block_on(&ctl, future);
    });
  }
}

pub struct Cfg {
  pub threads: usize,
  pub keys: u32,
  pub fetches: usize,
  pub shards: usize,
  pub seed: u64,
  pub strategy: String,
  pub invalidate: bool,
  pub kf: Vec<String>,
  pub is_async: bool,
  /// sync cache only: TTL + stale-while-revalidate, the clock is advanced past the TTL by `adv` operations
  pub swr: bool,
}

pub struct RunStat {
  pub outcome: Outcome,
  pub leaked: usize,
  pub records: Vec<String>,
}

pub fn run(cfg: &Cfg) -> RunStat {
  if cfg.is_async {
    return run_async(cfg);
  }
  let gen_ = hist::begin();
  hist::push(json!({"k":"new","kf":cfg.kf,"threads":cfg.threads,"keys":cfg.keys}));
  // PCT: the expected run length k is drawn per run (many races sit in the first few steps,
  // others need a long prefix), d-1 priority change points fall uniformly in 1..k
  let ks = [6u64, 12, 25, 50, 100, 200, 400];
  let k = ks[((cfg.seed / 7) % ks.len() as u64) as usize];
  let strat = match cfg.strategy.as_str() {
    "pct" => Strategy::Pct { d: 2, k },
    "pct5" => Strategy::Pct { d: 3, k },
    _ => Strategy::Random { p: 0.25 },
  };
  let ctl = Ctl::with_spares(cfg.threads, 16, cfg.seed ^ 0x7f4a7c15, strat);
  let dynctl: Arc<dyn Controller> = ctl.clone();
  fibre::verif::set_global(Some(dynctl));
  let next_val = Arc::new(AtomicU32::new(100));
  let nv = next_val.clone();
  let ctl_l = ctl.clone();
  let swr = cfg.swr;
  let slow = 1 + (cfg.seed / 3) % 4;
  let mut builder = CacheBuilder::<u32, u32>::new();
  if swr {
    fibre_cache::verif::freeze_clock(true);
    fibre::verif::set_clock_offset_nanos(1_000_000_000_000);
    builder = builder.time_to_live(Duration::from_millis(100)).stale_while_revalidate(Duration::from_secs(36_000));
  }
  let cache = Arc::new(
    builder
      .unbounded()
      .shards(cfg.shards)
      .janitor_tick_interval(Duration::from_secs(3600))
      .maintenance_chance(1 << 30)
      .loader(move |k: u32| {
        hist::join(gen_);
        hist::push(json!({"k":"lstart","key":k}));
        // a slow loader: let the callers interleave (a refresh stays in flight for several steps)
        for _ in 0..(if swr { slow } else { 1 }) {
          Controller::spin(&*ctl_l, std::panic::Location::caller());
        }
        let v = nv.fetch_add(1, Ordering::SeqCst);
        hist::push(json!({"k":"ldone","key":k,"v":v}));
        (v, 1)
      })
      .build()
      .expect("build cache"),
  );
  let cur: Arc<Vec<AtomicU32>> = Arc::new((0..cfg.threads).map(|_| AtomicU32::new(0)).collect());
  let abort = Arc::new(AtomicBool::new(false));
  let mut joins = vec![];
  for tid in 0..cfg.threads {
    let (cache2, cur2, abort2) = (cache.clone(), cur.clone(), abort.clone());
    let seed = cfg.seed.wrapping_add(tid as u64 * 15485863);
    let (keys, fetches, inval) = (cfg.keys, cfg.fetches, cfg.invalidate && cfg.threads == 1);
    joins.push(ctl.spawn(tid, gen_, move || {
      hist::join(gen_);
      let mut rng = StdRng::seed_from_u64(seed);
      for i in 0..fetches {
        if abort2.load(Ordering::SeqCst) {
          return;
        }
        let key = rng.random_range(1..=keys);
        let o = (tid as u32 + 1) * 1000 + i as u32 * 2 + 1;
        if swr && rng.random_bool(0.2) {
          // the clock passes the TTL of everything resident (one step: no yield point in between)
          fibre::verif::advance_clock_nanos(150_000_000);
          hist::push(json!({"k":"adv"}));
          continue;
        }
        if inval && rng.random_bool(0.4) {
          hist::push(json!({"k":"call","o":o,"op":"invalidate","key":key}));
          cache2.invalidate(&key);
          hist::push(json!({"k":"ret","o":o,"v":0}));
          continue;
        }
        cur2[tid].store(o, Ordering::SeqCst);
        hist::push(json!({"k":"call","o":o,"op":"fetch","key":key}));
        let v = cache2.fetch_with(&key);
        hist::push(json!({"k":"ret","o":o,"v":*v}));
        cur2[tid].store(0, Ordering::SeqCst);
      }
    }));
  }
  let outcome = ctl.run(Duration::from_secs(30));
  if outcome.all_done && !outcome.step_limit && !outcome.stuck {
    hist::push(json!({"k":"end"}));
  } else if !outcome.stuck && !outcome.step_limit {
    let blocked: Vec<u32> = outcome.blocked.iter().filter(|&&t| t < cfg.threads).map(|&t| cur[t].load(Ordering::SeqCst)).filter(|&o| o != 0).collect();
    hist::push(json!({"k":"quiesce","blocked":blocked}));
    hist::push(json!({"k":"hung"}));
  } else {
    hist::push(json!({"k":"inconclusive"}));
  }
  let records = hist::take();
  abort.store(true, Ordering::SeqCst);
  hist::begin();
  ctl.release_all();
  let deadline = std::time::Instant::now() + Duration::from_millis(1500);
  let mut leaked = 0;
  for (tid, j) in joins.into_iter().enumerate() {
    loop {
      if j.is_finished() {
        let _ = j.join();
        break;
      }
      if std::time::Instant::now() > deadline {
        leaked += 1;
        break;
      }
      ctl.kick(tid);
      std::thread::sleep(Duration::from_millis(5));
    }
  }
  fibre::verif::set_global(None);
  drop(cache);
  RunStat { outcome, leaked, records }
}

/// The same scenario on an AsyncCache with an async loader.
fn run_async(cfg: &Cfg) -> RunStat {
  let gen_ = hist::begin();
  hist::push(json!({"k":"new","kf":cfg.kf,"threads":cfg.threads,"keys":cfg.keys,"fl":"async"}));
  let ks = [6u64, 12, 25, 50, 100, 200, 400];
  let k = ks[((cfg.seed / 7) % ks.len() as u64) as usize];
  let strat = match cfg.strategy.as_str() {
    "pct" => Strategy::Pct { d: 2, k },
    "pct5" => Strategy::Pct { d: 3, k },
    _ => Strategy::Random { p: 0.25 },
  };
  let ctl = Ctl::with_spares(cfg.threads, 16, cfg.seed ^ 0x7f4a7c15, strat);
  let dynctl: Arc<dyn Controller> = ctl.clone();
  fibre::verif::set_global(Some(dynctl));
  let next_val = Arc::new(AtomicU32::new(100));
  let nv = next_val.clone();
  let ctl_l = ctl.clone();
  let cache = Arc::new(
    CacheBuilder::<u32, u32>::new()
      .unbounded()
      .shards(cfg.shards)
      .janitor_tick_interval(Duration::from_secs(3600))
      .maintenance_chance(1 << 30)
      .async_loader(move |k: u32| {
        let (nv, ctl_l) = (nv.clone(), ctl_l.clone());
        async move {
          hist::join(gen_);
          hist::push(json!({"k":"lstart","key":k}));
          Controller::spin(&*ctl_l, std::panic::Location::caller());
          let v = nv.fetch_add(1, Ordering::SeqCst);
          hist::push(json!({"k":"ldone","key":k,"v":v}));
          (v, 1)
        }
      })
      .spawner(Arc::new(AdoptSpawner { ctl: ctl.clone() }))
      .build_async()
      .expect("build cache"),
  );
  let cur: Arc<Vec<AtomicU32>> = Arc::new((0..cfg.threads).map(|_| AtomicU32::new(0)).collect());
  let abort = Arc::new(AtomicBool::new(false));
  let mut joins = vec![];
  for tid in 0..cfg.threads {
    let (cache2, cur2, abort2, ctl2) = (cache.clone(), cur.clone(), abort.clone(), ctl.clone());
    let seed = cfg.seed.wrapping_add(tid as u64 * 15485863);
    let (keys, fetches, inval) = (cfg.keys, cfg.fetches, cfg.invalidate && cfg.threads == 1);
    joins.push(ctl.spawn(tid, gen_, move || {
      hist::join(gen_);
      let mut rng = StdRng::seed_from_u64(seed);
      for i in 0..fetches {
        if abort2.load(Ordering::SeqCst) {
          return;
        }
        let key = rng.random_range(1..=keys);
        let o = (tid as u32 + 1) * 1000 + i as u32 * 2 + 1;
        if inval && rng.random_bool(0.4) {
          hist::push(json!({"k":"call","o":o,"op":"invalidate","key":key}));
          block_on(&ctl2, cache2.invalidate(&key));
          hist::push(json!({"k":"ret","o":o,"v":0}));
          continue;
        }
        cur2[tid].store(o, Ordering::SeqCst);
        hist::push(json!({"k":"call","o":o,"op":"fetch","key":key}));
        let v = block_on(&ctl2, cache2.fetch_with(&key));
        hist::push(json!({"k":"ret","o":o,"v":*v}));
        cur2[tid].store(0, Ordering::SeqCst);
      }
    }));
  }
  let outcome = ctl.run(Duration::from_secs(30));
  if outcome.all_done && !outcome.step_limit && !outcome.stuck {
    hist::push(json!({"k":"end"}));
  } else if !outcome.stuck && !outcome.step_limit {
    let blocked: Vec<u32> = outcome.blocked.iter().filter(|&&t| t < cfg.threads).map(|&t| cur[t].load(Ordering::SeqCst)).filter(|&o| o != 0).collect();
    hist::push(json!({"k":"quiesce","blocked":blocked}));
    hist::push(json!({"k":"hung"}));
  } else {
    hist::push(json!({"k":"inconclusive"}));
  }
  let records = hist::take();
  abort.store(true, Ordering::SeqCst);
  hist::begin();
  ctl.release_all();
  let deadline = std::time::Instant::now() + Duration::from_millis(1500);
  let mut leaked = 0;
  for (tid, j) in joins.into_iter().enumerate() {
    loop {
      if j.is_finished() {
        let _ = j.join();
        break;
      }
      if std::time::Instant::now() > deadline {
        leaked += 1;
        break;
      }
      ctl.kick(tid);
      std::thread::sleep(Duration::from_millis(5));
    }
  }
  fibre::verif::set_global(None);
  drop(cache);
  RunStat { outcome, leaked, records }
}
