//! Uniform static interface over every point-to-point channel flavour.
//! The method lists are the operation table of DESIGN.md appendix A.

use crate::hist::Tok;
use fibre::error::*;
use std::future::Future;
use std::pin::Pin;
use std::task::{Context, Poll};
use std::time::Duration;

pub type BF<'a, O> = Pin<Box<dyn Future<Output = O> + 'a>>;

#[allow(unused_variables)]
pub trait RawTx: Sized + Send + 'static {
  const ASYNC: bool;
  const BATCH: bool = true;
  const CLONE: bool = false;
  /// futures borrow the handle mutably (one future at a time, nothing else meanwhile)
  const FUT_EXCL: bool = false;
  /// `send(self)`: the handle is consumed by a send (oneshot)
  const CONSUMING: bool = false;
  const CONV: bool = true;
  type Conv: RawTx;
  fn send(&mut self, v: Tok) -> Result<(), SendError> { unimplemented!() }
  fn try_send(&mut self, v: Tok) -> Result<(), TrySendError<Tok>>;
  fn send_batch(&mut self, v: Vec<Tok>) -> Result<usize, SendBatchError<Tok>> { unimplemented!() }
  fn try_send_batch(&mut self, v: Vec<Tok>) -> Result<usize, TrySendBatchError<Tok>> { unimplemented!() }
  fn send_batch_mut(&mut self, v: &mut Vec<Tok>) -> Result<usize, SendError> { unimplemented!() }
  fn try_send_batch_mut(&mut self, v: &mut Vec<Tok>) -> Result<usize, SendError> { unimplemented!() }
  fn close(&mut self) -> Result<(), CloseError>;
  fn is_closed(&self) -> bool;
  fn len(&self) -> Option<usize> { None }
  fn capacity(&self) -> Option<usize> { None }
  fn is_full(&self) -> Option<bool> { None }
  fn is_empty(&self) -> Option<bool> { None }
  fn dup(&self) -> Option<Self> { None }
  fn conv(self) -> Option<Self::Conv> { None }
  fn fut_send<'a>(&'a mut self, v: Tok) -> BF<'a, Result<(), SendError>> { unimplemented!() }
  fn fut_send_batch<'a>(&'a mut self, v: Vec<Tok>) -> BF<'a, Result<usize, SendBatchError<Tok>>> { unimplemented!() }
  fn fut_send_batch_mut<'a>(&'a mut self, v: &'a mut Vec<Tok>) -> BF<'a, Result<usize, SendError>> { unimplemented!() }
}

#[allow(unused_variables)]
pub trait RawRx: Sized + Send + 'static {
  const ASYNC: bool;
  const BATCH: bool = true;
  const CLONE: bool = false;
  const FUT_EXCL: bool = false;
  const STREAM: bool = false;
  const TIMEOUT: bool = true;
  const CONV: bool = true;
  type Conv: RawRx;
  fn recv(&mut self) -> Result<Tok, RecvError> { unimplemented!() }
  fn try_recv(&mut self) -> Result<Tok, TryRecvError>;
  fn recv_timeout(&mut self, d: Duration) -> Result<Tok, RecvErrorTimeout> { unimplemented!() }
  fn recv_batch(&mut self, max: usize) -> Result<Vec<Tok>, RecvError> { unimplemented!() }
  fn try_recv_batch(&mut self, max: usize) -> Result<Vec<Tok>, TryRecvError> { unimplemented!() }
  fn recv_batch_mut(&mut self, out: &mut Vec<Tok>, max: usize) -> Result<usize, RecvError> { unimplemented!() }
  fn try_recv_batch_mut(&mut self, out: &mut Vec<Tok>, max: usize) -> Result<usize, TryRecvError> { unimplemented!() }
  fn close(&mut self) -> Result<(), CloseError>;
  fn is_closed(&self) -> bool;
  fn len(&self) -> Option<usize> { None }
  fn capacity(&self) -> Option<usize> { None }
  fn is_full(&self) -> Option<bool> { None }
  fn is_empty(&self) -> Option<bool> { None }
  fn dup(&self) -> Option<Self> { None }
  fn conv(self) -> Option<Self::Conv> { None }
  fn fut_recv<'a>(&'a mut self) -> BF<'a, Result<Tok, RecvError>> { unimplemented!() }
  fn fut_recv_batch<'a>(&'a mut self, max: usize) -> BF<'a, Result<Vec<Tok>, RecvError>> { unimplemented!() }
  fn fut_recv_batch_mut<'a>(&'a mut self, out: &'a mut Vec<Tok>, max: usize) -> BF<'a, Result<usize, RecvError>> { unimplemented!() }
  fn poll_next(&mut self, cx: &mut Context<'_>) -> Poll<Option<Tok>> { unimplemented!() }
}

macro_rules! tx_common {
  () => {
    fn try_send(&mut self, v: Tok) -> Result<(), TrySendError<Tok>> { (*self).try_send(v) }
    fn close(&mut self) -> Result<(), CloseError> { (*self).close() }
    fn is_closed(&self) -> bool { (*self).is_closed() }
  };
}
macro_rules! tx_sync_single {
  () => {
    fn send(&mut self, v: Tok) -> Result<(), SendError> { (*self).send(v) }
  };
}
macro_rules! tx_sync_batch {
  () => {
    fn send_batch(&mut self, v: Vec<Tok>) -> Result<usize, SendBatchError<Tok>> { (*self).send_batch(v) }
    fn send_batch_mut(&mut self, v: &mut Vec<Tok>) -> Result<usize, SendError> { (*self).send_batch_mut(v) }
  };
}
macro_rules! tx_try_batch {
  () => {
    fn try_send_batch(&mut self, v: Vec<Tok>) -> Result<usize, TrySendBatchError<Tok>> { (*self).try_send_batch(v) }
    fn try_send_batch_mut(&mut self, v: &mut Vec<Tok>) -> Result<usize, SendError> { (*self).try_send_batch_mut(v) }
  };
}
macro_rules! tx_async_single {
  () => {
    fn fut_send<'a>(&'a mut self, v: Tok) -> BF<'a, Result<(), SendError>> { Box::pin((*self).send(v)) }
  };
}
macro_rules! tx_async_batch {
  () => {
    fn fut_send_batch<'a>(&'a mut self, v: Vec<Tok>) -> BF<'a, Result<usize, SendBatchError<Tok>>> { Box::pin((*self).send_batch(v)) }
    fn fut_send_batch_mut<'a>(&'a mut self, v: &'a mut Vec<Tok>) -> BF<'a, Result<usize, SendError>> { Box::pin((*self).send_batch_mut(v)) }
  };
}
macro_rules! obs_usize_cap {
  () => {
    fn len(&self) -> Option<usize> { Some((*self).len()) }
    fn capacity(&self) -> Option<usize> { Some((*self).capacity()) }
    fn is_full(&self) -> Option<bool> { Some((*self).is_full()) }
    fn is_empty(&self) -> Option<bool> { Some((*self).is_empty()) }
  };
}
macro_rules! obs_opt_cap {
  () => {
    fn len(&self) -> Option<usize> { Some((*self).len()) }
    fn capacity(&self) -> Option<usize> { (*self).capacity() }
    fn is_full(&self) -> Option<bool> { Some((*self).is_full()) }
    fn is_empty(&self) -> Option<bool> { Some((*self).is_empty()) }
  };
}
macro_rules! obs_nocap {
  () => {
    fn len(&self) -> Option<usize> { Some((*self).len()) }
    fn is_empty(&self) -> Option<bool> { Some((*self).is_empty()) }
  };
}
macro_rules! dup_clone {
  () => {
    const CLONE: bool = true;
    fn dup(&self) -> Option<Self> { Some(self.clone()) }
  };
}

macro_rules! rx_common {
  () => {
    fn try_recv(&mut self) -> Result<Tok, TryRecvError> { (*self).try_recv() }
    fn close(&mut self) -> Result<(), CloseError> { (*self).close() }
    fn is_closed(&self) -> bool { (*self).is_closed() }
  };
}
macro_rules! rx_sync_single {
  () => {
    fn recv(&mut self) -> Result<Tok, RecvError> { (*self).recv() }
    fn recv_timeout(&mut self, d: Duration) -> Result<Tok, RecvErrorTimeout> { (*self).recv_timeout(d) }
  };
}
macro_rules! rx_sync_batch {
  () => {
    fn recv_batch(&mut self, max: usize) -> Result<Vec<Tok>, RecvError> { (*self).recv_batch(max) }
    fn recv_batch_mut(&mut self, out: &mut Vec<Tok>, max: usize) -> Result<usize, RecvError> { (*self).recv_batch_mut(out, max) }
  };
}
macro_rules! rx_try_batch {
  () => {
    fn try_recv_batch(&mut self, max: usize) -> Result<Vec<Tok>, TryRecvError> { (*self).try_recv_batch(max) }
    fn try_recv_batch_mut(&mut self, out: &mut Vec<Tok>, max: usize) -> Result<usize, TryRecvError> { (*self).try_recv_batch_mut(out, max) }
  };
}
macro_rules! rx_async_single {
  () => {
    fn fut_recv<'a>(&'a mut self) -> BF<'a, Result<Tok, RecvError>> { Box::pin((*self).recv()) }
  };
}
macro_rules! rx_async_batch {
  () => {
    fn fut_recv_batch<'a>(&'a mut self, max: usize) -> BF<'a, Result<Vec<Tok>, RecvError>> { Box::pin((*self).recv_batch(max)) }
    fn fut_recv_batch_mut<'a>(&'a mut self, out: &'a mut Vec<Tok>, max: usize) -> BF<'a, Result<usize, RecvError>> { Box::pin((*self).recv_batch_mut(out, max)) }
  };
}
macro_rules! rx_stream {
  () => {
    const STREAM: bool = true;
    fn poll_next(&mut self, cx: &mut Context<'_>) -> Poll<Option<Tok>> {
      futures_core::Stream::poll_next(Pin::new(self), cx)
    }
  };
}

// ---------------------------------------------------------------- spsc bounded
impl RawTx for fibre::spsc::BoundedSyncSender<Tok> {
  const ASYNC: bool = false;
  type Conv = fibre::spsc::BoundedAsyncSender<Tok>;
  tx_common!(); tx_sync_single!(); tx_sync_batch!(); tx_try_batch!(); obs_usize_cap!();
  fn conv(self) -> Option<Self::Conv> { Some(self.to_async()) }
}
impl RawTx for fibre::spsc::BoundedAsyncSender<Tok> {
  const ASYNC: bool = true;
  const FUT_EXCL: bool = true;
  type Conv = fibre::spsc::BoundedSyncSender<Tok>;
  tx_common!(); tx_async_single!(); tx_async_batch!(); tx_try_batch!(); obs_usize_cap!();
  fn conv(self) -> Option<Self::Conv> { Some(self.to_sync()) }
}
impl RawRx for fibre::spsc::BoundedSyncReceiver<Tok> {
  const ASYNC: bool = false;
  type Conv = fibre::spsc::BoundedAsyncReceiver<Tok>;
  rx_common!(); rx_sync_single!(); rx_sync_batch!(); rx_try_batch!(); obs_usize_cap!();
  fn conv(self) -> Option<Self::Conv> { Some(self.to_async()) }
}
impl RawRx for fibre::spsc::BoundedAsyncReceiver<Tok> {
  const ASYNC: bool = true;
  const FUT_EXCL: bool = true;
  type Conv = fibre::spsc::BoundedSyncReceiver<Tok>;
  rx_common!(); rx_async_single!(); rx_async_batch!(); rx_try_batch!(); obs_usize_cap!(); rx_stream!();
  fn conv(self) -> Option<Self::Conv> { Some(self.to_sync()) }
}

// ---------------------------------------------------------------- mpsc bounded
impl RawTx for fibre::mpsc::BoundedSyncSender<Tok> {
  const ASYNC: bool = false;
  type Conv = fibre::mpsc::BoundedAsyncSender<Tok>;
  tx_common!(); tx_sync_single!(); tx_sync_batch!(); tx_try_batch!(); obs_usize_cap!(); dup_clone!();
  fn conv(self) -> Option<Self::Conv> { Some(self.to_async()) }
}
impl RawTx for fibre::mpsc::BoundedAsyncSender<Tok> {
  const ASYNC: bool = true;
  type Conv = fibre::mpsc::BoundedSyncSender<Tok>;
  tx_common!(); tx_async_single!(); tx_async_batch!(); tx_try_batch!(); obs_usize_cap!(); dup_clone!();
  fn conv(self) -> Option<Self::Conv> { Some(self.to_sync()) }
}
impl RawRx for fibre::mpsc::BoundedSyncReceiver<Tok> {
  const ASYNC: bool = false;
  type Conv = fibre::mpsc::BoundedAsyncReceiver<Tok>;
  rx_common!(); rx_sync_single!(); rx_sync_batch!(); rx_try_batch!(); obs_usize_cap!();
  fn conv(self) -> Option<Self::Conv> { Some(self.to_async()) }
}
impl RawRx for fibre::mpsc::BoundedAsyncReceiver<Tok> {
  const ASYNC: bool = true;
  // single consumer: one receive operation in flight at a time (DESIGN 5, rule (a))
  const FUT_EXCL: bool = true;
  type Conv = fibre::mpsc::BoundedSyncReceiver<Tok>;
  rx_common!(); rx_async_single!(); rx_async_batch!(); rx_try_batch!(); obs_usize_cap!(); rx_stream!();
  fn conv(self) -> Option<Self::Conv> { Some(self.to_sync()) }
}

// -------------------------------------------------------------- mpsc unbounded
impl RawTx for fibre::mpsc::UnboundedSyncSender<Tok> {
  const ASYNC: bool = false;
  type Conv = fibre::mpsc::UnboundedAsyncSender<Tok>;
  tx_common!(); tx_sync_single!(); tx_sync_batch!(); tx_try_batch!(); obs_nocap!(); dup_clone!();
  fn conv(self) -> Option<Self::Conv> { Some(self.to_async()) }
}
impl RawTx for fibre::mpsc::UnboundedAsyncSender<Tok> {
  const ASYNC: bool = true;
  const FUT_EXCL: bool = true;
  type Conv = fibre::mpsc::UnboundedSyncSender<Tok>;
  tx_common!(); tx_async_single!(); tx_async_batch!(); tx_try_batch!(); obs_nocap!(); dup_clone!();
  fn conv(self) -> Option<Self::Conv> { Some(self.to_sync()) }
}
impl RawRx for fibre::mpsc::UnboundedSyncReceiver<Tok> {
  const ASYNC: bool = false;
  type Conv = fibre::mpsc::UnboundedAsyncReceiver<Tok>;
  rx_common!(); rx_sync_single!(); rx_sync_batch!(); rx_try_batch!(); obs_nocap!();
  fn conv(self) -> Option<Self::Conv> { Some(self.to_async()) }
}
impl RawRx for fibre::mpsc::UnboundedAsyncReceiver<Tok> {
  const ASYNC: bool = true;
  const FUT_EXCL: bool = true;
  type Conv = fibre::mpsc::UnboundedSyncReceiver<Tok>;
  rx_common!(); rx_async_single!(); rx_async_batch!(); rx_try_batch!(); obs_nocap!(); rx_stream!();
  fn conv(self) -> Option<Self::Conv> { Some(self.to_sync()) }
}

// ---------------------------------------------------------------- mpmc bounded
impl RawTx for fibre::mpmc::BoundedSyncSender<Tok> {
  const ASYNC: bool = false;
  type Conv = fibre::mpmc::BoundedAsyncSender<Tok>;
  tx_common!(); tx_sync_single!(); tx_sync_batch!(); tx_try_batch!(); obs_usize_cap!(); dup_clone!();
  fn conv(self) -> Option<Self::Conv> { Some(self.to_async()) }
}
impl RawTx for fibre::mpmc::BoundedAsyncSender<Tok> {
  const ASYNC: bool = true;
  type Conv = fibre::mpmc::BoundedSyncSender<Tok>;
  tx_common!(); tx_async_single!(); tx_async_batch!(); tx_try_batch!(); obs_usize_cap!(); dup_clone!();
  fn conv(self) -> Option<Self::Conv> { Some(self.to_sync()) }
}
impl RawRx for fibre::mpmc::BoundedSyncReceiver<Tok> {
  const ASYNC: bool = false;
  type Conv = fibre::mpmc::BoundedAsyncReceiver<Tok>;
  rx_common!(); rx_sync_single!(); rx_sync_batch!(); rx_try_batch!(); obs_usize_cap!(); dup_clone!();
  fn conv(self) -> Option<Self::Conv> { Some(self.to_async()) }
}
impl RawRx for fibre::mpmc::BoundedAsyncReceiver<Tok> {
  const ASYNC: bool = true;
  type Conv = fibre::mpmc::BoundedSyncReceiver<Tok>;
  rx_common!(); rx_async_single!(); rx_async_batch!(); rx_try_batch!(); obs_usize_cap!(); dup_clone!(); rx_stream!();
  fn conv(self) -> Option<Self::Conv> { Some(self.to_sync()) }
}

// -------------------------------------------------------------- mpmc unbounded
impl RawTx for fibre::mpmc::UnboundedSyncSender<Tok> {
  const ASYNC: bool = false;
  type Conv = fibre::mpmc::UnboundedAsyncSender<Tok>;
  tx_common!(); tx_sync_single!(); tx_sync_batch!(); tx_try_batch!(); obs_nocap!(); dup_clone!();
  fn conv(self) -> Option<Self::Conv> { Some(self.to_async()) }
}
impl RawTx for fibre::mpmc::UnboundedAsyncSender<Tok> {
  const ASYNC: bool = true;
  const FUT_EXCL: bool = true;
  type Conv = fibre::mpmc::UnboundedSyncSender<Tok>;
  tx_common!(); tx_async_single!(); tx_async_batch!(); tx_try_batch!(); obs_nocap!(); dup_clone!();
  fn conv(self) -> Option<Self::Conv> { Some(self.to_sync()) }
}
impl RawRx for fibre::mpmc::UnboundedSyncReceiver<Tok> {
  const ASYNC: bool = false;
  type Conv = fibre::mpmc::UnboundedAsyncReceiver<Tok>;
  rx_common!(); rx_sync_single!(); rx_sync_batch!(); rx_try_batch!(); obs_nocap!(); dup_clone!();
  fn conv(self) -> Option<Self::Conv> { Some(self.to_async()) }
}
impl RawRx for fibre::mpmc::UnboundedAsyncReceiver<Tok> {
  const ASYNC: bool = true;
  const FUT_EXCL: bool = true;
  type Conv = fibre::mpmc::UnboundedSyncReceiver<Tok>;
  rx_common!(); rx_async_single!(); rx_async_batch!(); rx_try_batch!(); obs_nocap!(); dup_clone!(); rx_stream!();
  fn conv(self) -> Option<Self::Conv> { Some(self.to_sync()) }
}

// ------------------------------------------------------------------ rendezvous
macro_rules! rendezvous_impls {
  ($m:ident, $txclone:tt, $rxclone:tt) => {
    rendezvous_impls!($m, $txclone, $rxclone, false, false);
  };
  ($m:ident, $txclone:tt, $rxclone:tt, $txexcl:expr, $rxexcl:expr) => {
    impl RawTx for fibre::$m::RendezvousSyncSender<Tok> {
      const ASYNC: bool = false;
      const BATCH: bool = false;
      type Conv = fibre::$m::RendezvousAsyncSender<Tok>;
      tx_common!(); tx_sync_single!(); obs_opt_cap!();
      rendezvous_impls!(@clone $txclone);
      fn conv(self) -> Option<Self::Conv> { Some(self.to_async()) }
    }
    impl RawTx for fibre::$m::RendezvousAsyncSender<Tok> {
      const ASYNC: bool = true;
      const BATCH: bool = false;
      const FUT_EXCL: bool = $txexcl;
      type Conv = fibre::$m::RendezvousSyncSender<Tok>;
      tx_common!(); tx_async_single!(); obs_opt_cap!();
      rendezvous_impls!(@clone $txclone);
      fn conv(self) -> Option<Self::Conv> { Some(self.to_sync()) }
    }
    impl RawRx for fibre::$m::RendezvousSyncReceiver<Tok> {
      const ASYNC: bool = false;
      const BATCH: bool = false;
      type Conv = fibre::$m::RendezvousAsyncReceiver<Tok>;
      rx_common!(); rx_sync_single!(); obs_opt_cap!();
      rendezvous_impls!(@clone $rxclone);
      fn conv(self) -> Option<Self::Conv> { Some(self.to_async()) }
    }
    impl RawRx for fibre::$m::RendezvousAsyncReceiver<Tok> {
      const ASYNC: bool = true;
      const BATCH: bool = false;
      const FUT_EXCL: bool = $rxexcl;
      type Conv = fibre::$m::RendezvousSyncReceiver<Tok>;
      rx_common!(); rx_async_single!(); obs_opt_cap!();
      rendezvous_impls!(@clone $rxclone);
      fn conv(self) -> Option<Self::Conv> { Some(self.to_sync()) }
    }
  };
  (@clone yes) => { dup_clone!(); };
  (@clone no) => {};
}
// one waiter per single-producer / single-consumer side (a second one panics by design)
rendezvous_impls!(spsc, no, no, true, true);
rendezvous_impls!(mpsc, yes, no, false, true);
rendezvous_impls!(mpmc, yes, yes);

// --------------------------------------------------------------------- oneshot
/// `Sender::send` consumes the handle; keep it in an Option so the uniform
/// `&mut self` interface can move it out.
pub struct OneshotTx(pub Option<fibre::oneshot::Sender<Tok>>);
pub struct OneshotRx(pub fibre::oneshot::Receiver<Tok>);

impl RawTx for OneshotTx {
  const ASYNC: bool = false;
  const BATCH: bool = false;
  const CLONE: bool = true;
  const CONSUMING: bool = true;
  const CONV: bool = false;
  type Conv = OneshotTx;
  fn try_send(&mut self, v: Tok) -> Result<(), TrySendError<Tok>> {
    self.0.take().expect("oneshot sender already consumed").send(v)
  }
  fn close(&mut self) -> Result<(), CloseError> { self.0.as_ref().unwrap().close() }
  fn is_closed(&self) -> bool { self.0.as_ref().map(|s| s.is_closed()).unwrap_or(true) }
  fn dup(&self) -> Option<Self> { self.0.as_ref().map(|s| OneshotTx(Some(s.clone()))) }
}
impl RawRx for OneshotRx {
  const ASYNC: bool = true;
  // single consumer: one receive operation in flight at a time
  const FUT_EXCL: bool = true;
  const BATCH: bool = false;
  const TIMEOUT: bool = false;
  const CONV: bool = false;
  type Conv = OneshotRx;
  fn try_recv(&mut self) -> Result<Tok, TryRecvError> { self.0.try_recv() }
  fn close(&mut self) -> Result<(), CloseError> { self.0.close() }
  fn is_closed(&self) -> bool { self.0.is_closed() }
  fn fut_recv<'a>(&'a mut self) -> BF<'a, Result<Tok, RecvError>> { Box::pin(self.0.recv()) }
}

// -------------------------------------------------------------- spmc broadcast
impl RawTx for fibre::spmc::BoundedSyncSender<Tok> {
  const ASYNC: bool = false;
  type Conv = fibre::spmc::BoundedAsyncSender<Tok>;
  tx_common!(); tx_sync_single!(); tx_sync_batch!(); tx_try_batch!(); obs_usize_cap!();
  fn conv(self) -> Option<Self::Conv> { Some(self.to_async()) }
}
impl RawTx for fibre::spmc::BoundedAsyncSender<Tok> {
  const ASYNC: bool = true;
  // single producer: one send operation in flight at a time
  const FUT_EXCL: bool = true;
  type Conv = fibre::spmc::BoundedSyncSender<Tok>;
  tx_common!(); tx_async_single!(); tx_async_batch!(); tx_try_batch!(); obs_usize_cap!();
  fn conv(self) -> Option<Self::Conv> { Some(self.to_sync()) }
}
impl RawRx for fibre::spmc::BoundedSyncReceiver<Tok> {
  const ASYNC: bool = false;
  type Conv = fibre::spmc::BoundedAsyncReceiver<Tok>;
  rx_common!(); rx_sync_single!(); rx_sync_batch!(); rx_try_batch!(); obs_usize_cap!(); dup_clone!();
  fn conv(self) -> Option<Self::Conv> { Some(self.to_async()) }
}
impl RawRx for fibre::spmc::BoundedAsyncReceiver<Tok> {
  const ASYNC: bool = true;
  // each receiver handle is one consumer: one receive operation in flight at a time
  const FUT_EXCL: bool = true;
  type Conv = fibre::spmc::BoundedSyncReceiver<Tok>;
  rx_common!(); rx_async_single!(); rx_async_batch!(); rx_try_batch!(); obs_usize_cap!(); dup_clone!(); rx_stream!();
  fn conv(self) -> Option<Self::Conv> { Some(self.to_sync()) }
}

// ------------------------------------------------------- mpmc_exp (experimental Vyukov ring)
impl RawTx for fibre::mpmc_exp::Sender<Tok> {
  const ASYNC: bool = false;
  type Conv = fibre::mpmc_exp::AsyncSender<Tok>;
  tx_common!(); tx_sync_single!(); tx_sync_batch!(); tx_try_batch!(); obs_opt_cap!(); dup_clone!();
  fn conv(self) -> Option<Self::Conv> { Some(self.to_async()) }
}
impl RawTx for fibre::mpmc_exp::AsyncSender<Tok> {
  const ASYNC: bool = true;
  type Conv = fibre::mpmc_exp::Sender<Tok>;
  tx_common!(); tx_async_single!(); tx_async_batch!(); tx_try_batch!(); obs_opt_cap!(); dup_clone!();
  fn conv(self) -> Option<Self::Conv> { Some(self.to_sync()) }
}
impl RawRx for fibre::mpmc_exp::Receiver<Tok> {
  const ASYNC: bool = false;
  type Conv = fibre::mpmc_exp::AsyncReceiver<Tok>;
  rx_common!(); rx_sync_single!(); rx_sync_batch!(); rx_try_batch!(); obs_opt_cap!(); dup_clone!();
  fn conv(self) -> Option<Self::Conv> { Some(self.to_async()) }
}
impl RawRx for fibre::mpmc_exp::AsyncReceiver<Tok> {
  const ASYNC: bool = true;
  type Conv = fibre::mpmc_exp::Receiver<Tok>;
  rx_common!(); rx_async_single!(); rx_async_batch!(); rx_try_batch!(); obs_opt_cap!(); dup_clone!(); rx_stream!();
  fn conv(self) -> Option<Self::Conv> { Some(self.to_sync()) }
}
