//! Layer A history recording: one JSON record per line, in a single global
//! order.  Payloads are `Tok`s whose `Drop` is observable (C09).

use parking_lot::Mutex;
use serde_json::{json, Value};
use std::cell::RefCell;
use std::sync::atomic::{AtomicU64, Ordering};

struct Global {
  recs: Vec<String>,
  gen_: u64,
}

static HIST: Mutex<Global> = Mutex::new(Global { recs: Vec::new(), gen_: 0 });
static GEN: AtomicU64 = AtomicU64::new(0);

thread_local! {
  /// ids dropped by library code on this thread since its last record
  static DROPS: RefCell<Vec<u32>> = const { RefCell::new(Vec::new()) };
  /// generation this thread records for (zombie threads of an abandoned
  /// history keep an old generation and are ignored)
  static MYGEN: RefCell<u64> = const { RefCell::new(0) };
}

/// Starts a new history; returns its generation.
pub fn begin() -> u64 {
  let mut g = HIST.lock();
  g.gen_ += 1;
  g.recs.clear();
  GEN.store(g.gen_, Ordering::SeqCst);
  let gen_ = g.gen_;
  drop(g);
  join(gen_);
  gen_
}

/// Makes the calling thread record into generation `gen_`.
/// The generation the calling thread records into.
pub fn current_gen() -> u64 {
  MYGEN.with(|m| *m.borrow())
}

pub fn join(gen_: u64) {
  MYGEN.with(|m| *m.borrow_mut() = gen_);
  DROPS.with(|d| d.borrow_mut().clear());
}

fn live() -> bool {
  MYGEN.with(|m| *m.borrow()) == GEN.load(Ordering::SeqCst)
}

pub fn push(v: Value) {
  if !live() {
    return;
  }
  let s = v.to_string();
  let mut g = HIST.lock();
  if MYGEN.with(|m| *m.borrow()) == g.gen_ {
    g.recs.push(s);
  }
}

/// Takes the records of the current history.
pub fn take() -> Vec<String> {
  let mut g = HIST.lock();
  std::mem::take(&mut g.recs)
}

pub fn len() -> usize {
  HIST.lock().recs.len()
}

/// ids dropped by the library on this thread since the last call.
pub fn take_drops() -> Vec<u32> {
  DROPS.with(|d| std::mem::take(&mut *d.borrow_mut()))
}

/// A payload with an observable drop.
#[derive(Debug)]
pub struct Tok {
  pub id: u32,
  armed: bool,
}

impl Tok {
  pub fn new(id: u32) -> Tok {
    Tok { id, armed: true }
  }
  /// The driver (the "user") is done with the value: not a library drop.
  pub fn consume(mut self) -> u32 {
    self.armed = false;
    self.id
  }
}

/// Broadcast channels clone the payload for every receiver: a clone is the
/// receiver's copy (its drop is not a library drop); the stored original stays armed.
/// Returned by a clone whose source changed while it was being cloned (the slot was reused under the reader).
pub const TORN_ID: u32 = 2_000_000_000;

impl Clone for Tok {
  fn clone(&self) -> Tok {
    // a user type's Clone takes time: under the scheduler it is a yield point (read the id first,
    // then yield, so that a slot handed back too early can be overwritten "during" the clone)
    let id = unsafe { std::ptr::read_volatile(&self.id) };
    fibre::verif::point("clone", 0);
    let id2 = unsafe { std::ptr::read_volatile(&self.id) };
    Tok { id: if id == id2 { id } else { TORN_ID }, armed: false }
  }
}

impl Drop for Tok {
  fn drop(&mut self) {
    if self.armed {
      let id = self.id;
      // try_with: a drop during thread teardown must not panic
      let _ = DROPS.try_with(|d| {
        if let Ok(mut d) = d.try_borrow_mut() {
          d.push(id)
        }
      });
    }
  }
}

pub fn ids(v: &[Tok]) -> Vec<u32> {
  v.iter().map(|t| t.id).collect()
}

pub fn consume_all(v: Vec<Tok>) -> Vec<u32> {
  v.into_iter().map(|t| t.consume()).collect()
}

// ---- record constructors -------------------------------------------------

pub fn rec_new(kind: &str, cap: usize, tx: &[u32], rx: &[u32], fl: &str, kf: &[String]) {
  push(json!({"k":"new","kind":kind,"cap":cap,"tx":tx,"rx":rx,"fl":fl,"kf":kf}));
}

pub fn rec_call(o: u32, h: u32, op: &str, vs: &[u32], max: usize, fut: bool) {
  push(json!({"k":"call","o":o,"h":h,"op":op,"vs":vs,"max":max,"fut":fut}));
}

pub fn rec_ret(o: u32, res: &str, n: usize, vals: &[u32], back: &[u32]) {
  let dr = take_drops();
  push(json!({"k":"ret","o":o,"res":res,"n":n,"vals":vals,"back":back,"dr":dr}));
}

pub fn rec_pending(o: u32) {
  let dr = take_drops();
  if !dr.is_empty() {
    // a poll that reports Pending must not destroy anything; keep it visible
    push(json!({"k":"stray_drop","o":o,"dr":dr}));
  }
  push(json!({"k":"pend","o":o}));
}

pub fn rec_cancel(o: u32, vals: &[u32], back: &[u32]) {
  let dr = take_drops();
  push(json!({"k":"cancel","o":o,"vals":vals,"back":back,"dr":dr}));
}

pub fn rec_wake(o: u32) {
  push(json!({"k":"wake","o":o}));
}

pub fn rec_close(h: u32, ok: bool) {
  let dr = take_drops();
  push(json!({"k":"close","h":h,"res": if ok {"ok"} else {"err"},"dr":dr}));
}

pub fn rec_hdrop(h: u32) {
  let dr = take_drops();
  push(json!({"k":"hdrop","h":h,"dr":dr}));
}

pub fn rec_clone(h: u32, nh: u32) {
  push(json!({"k":"clone","h":h,"nh":nh}));
}

pub fn rec_conv(h: u32, nh: u32) {
  let dr = take_drops();
  if !dr.is_empty() {
    push(json!({"k":"stray_drop","o":0,"dr":dr}));
  }
  push(json!({"k":"conv","h":h,"nh":nh}));
}

pub fn rec_obs(h: u32, what: &str, val: i64) {
  push(json!({"k":"obs","h":h,"what":what,"val":val}));
}

pub fn rec_quiesce(blocked: &[u32]) {
  push(json!({"k":"quiesce","blocked":blocked}));
}

pub fn rec_end() {
  let dr = take_drops();
  if !dr.is_empty() {
    push(json!({"k":"stray_drop","o":0,"dr":dr}));
  }
  push(json!({"k":"end"}));
}

pub fn rec_panic(o: u32, msg: &str) {
  push(json!({"k":"panic","o":o,"msg":msg}));
}
