//! chan-seq: random sequential programs over the whole operation table of one
//! channel flavour (sync calls, try_ calls, futures created / polled / dropped
//! explicitly, streams, clone / close / convert / drop), recorded as Layer A
//! histories.  One thread, so every history is deterministic given the seed.

use crate::dynh::*;
use crate::hist::{self, Tok};
use rand::rngs::StdRng;
use rand::{Rng, SeedableRng};
use std::sync::atomic::{AtomicBool, AtomicU32, Ordering};
use std::sync::Arc;
use std::task::{Context, Wake, Waker};
use std::time::Duration;

pub struct WakeFlag {
  pub o: u32,
  pub flag: AtomicBool,
  /// a waker that was replaced by a re-poll with another waker is stale: waking it
  /// does not count as waking the operation (C06: re-polls with a different waker)
  pub stale: AtomicBool,
}
impl WakeFlag {
  pub fn new(o: u32) -> Arc<WakeFlag> {
    Arc::new(WakeFlag { o, flag: AtomicBool::new(false), stale: AtomicBool::new(false) })
  }
}
impl Wake for WakeFlag {
  fn wake(self: Arc<Self>) {
    self.wake_by_ref()
  }
  fn wake_by_ref(self: &Arc<Self>) {
    if self.stale.load(Ordering::SeqCst) {
      hist::push(serde_json::json!({"k":"wake_stale","o":self.o}));
      return;
    }
    self.flag.store(true, Ordering::SeqCst);
    hist::rec_wake(self.o);
  }
}

enum Hd {
  Tx(Box<dyn DynTx>),
  Rx(Box<dyn DynRx>),
}

struct Handle {
  id: u32,
  hd: Option<Hd>,
  closed: bool,
  /// futures (or a pending stream poll) currently borrowing this handle
  futs: usize,
  /// op id of a pending Stream::poll_next registration
  stream_op: Option<(u32, Arc<WakeFlag>)>,
  consumed: bool,
}

struct PFut {
  o: u32,
  h: usize,
  fut: Box<dyn DynFut>,
  wf: Arc<WakeFlag>,
  is_send: bool,
  /// a batch send whose items go out over several polls
  batch: bool,
}

pub struct Cfg {
  pub flavour: String,
  pub cap: usize,
  pub ops: usize,
  pub seed: u64,
  pub kf: Vec<String>,
  /// emphasis: "mix" | "close" | "async" | "batch" | "teardown" | "parked" | "life" (mostly clone / close / convert / drop)
  pub profile: String,
}

/// The op id a hung program is stuck in (for the watchdog).
pub static CUR_OP: AtomicU32 = AtomicU32::new(0);

struct St {
  rng: StdRng,
  // futures before handles: fields drop in declaration order (unwinding after a library panic)
  futs: Vec<PFut>,
  hs: Vec<Handle>,
  next_h: u32,
  next_v: u32,
  next_o: u32,
  kind: &'static str,
  cap: usize, // 0 = unbounded
  /// driver's estimate of the number of buffered values
  len: usize,
  /// the estimate may be off (a polled future was cancelled): avoid blocking calls
  uncertain: bool,
  parked: bool,
  /// how often a clone is taken of a handle that was itself closed (the "close" profile does it often)
  clone_closed_pct: u32,
  max_futs: usize,
}

impl St {
  fn live(&self, tx: bool) -> usize {
    self.hs.iter().filter(|h| h.hd.is_some() && !h.closed && !h.consumed && matches!((&h.hd, tx), (Some(Hd::Tx(_)), true) | (Some(Hd::Rx(_)), false))).count()
  }
  fn count(&self, tx: bool) -> usize {
    self.hs.iter().filter(|h| matches!((&h.hd, tx), (Some(Hd::Tx(_)), true) | (Some(Hd::Rx(_)), false))).count()
  }
  fn toks(&mut self, n: usize) -> Vec<Tok> {
    (0..n)
      .map(|_| {
        self.next_v += 1;
        Tok::new(self.next_v)
      })
      .collect()
  }
  fn space(&self) -> usize {
    if self.kind == "rv" {
      0
    } else if self.cap == 0 {
      usize::MAX / 2
    } else {
      self.cap.saturating_sub(self.len)
    }
  }
  fn after_drops(&mut self) {
    // buffered values are destroyed only when no receiver is left; then len is irrelevant
    if self.live(false) == 0 {
      self.len = 0;
    }
  }
  /// broadcast with several receivers: the single-queue estimate does not apply
  fn bc_multi(&self) -> bool {
    self.kind == "bc" && self.count(false) > 1
  }
  fn quiesce(&self) {
    if !self.futs.is_empty() || self.hs.iter().any(|h| h.stream_op.is_some()) {
      hist::rec_quiesce(&[]);
    }
  }
}

fn pick<'a, T>(rng: &mut StdRng, v: &'a [T]) -> &'a T {
  &v[rng.random_range(0..v.len())]
}

pub fn run_program(cfg: &Cfg) {
  let fl = flavour(&cfg.flavour);
  let cap = if (fl.kind == "q" || fl.kind == "bc") && fl.bounded { cfg.cap } else { 0 };
  let (t, r) = make(&cfg.flavour, cfg.cap.max(1));
  let mut st = St {
    rng: StdRng::seed_from_u64(cfg.seed),
    futs: vec![],
    hs: vec![
      Handle { id: 1, hd: Some(Hd::Tx(t)), closed: false, futs: 0, stream_op: None, consumed: false },
      Handle { id: 2, hd: Some(Hd::Rx(r)), closed: false, futs: 0, stream_op: None, consumed: false },
    ],
    next_h: 2,
    next_v: 0,
    next_o: 0,
    kind: fl.kind,
    cap,
    len: 0,
    uncertain: false,
    parked: cfg.profile == "parked",
    clone_closed_pct: if cfg.profile == "close" || cfg.profile == "life" { 70 } else { 6 },
    // profile "parked": more waiters than capacity pile up before anybody serves them
    max_futs: if cfg.profile == "parked" { cap.max(1) + 2 + (cfg.seed % 2) as usize } else { 3 + (cfg.seed % 3) as usize },
  };
  hist::rec_new(fl.kind, cap, &[1], &[2], &cfg.flavour, &cfg.kf);

  if cfg.profile == "parked" && st.rng.random_bool(0.5) {
    cancelled_waiter_prologue(&mut st, cfg);
  }
  for _ in 0..cfg.ops {
    step(&mut st, cfg);
    st.quiesce();
    if st.count(true) == 0 && st.count(false) == 0 {
      break;
    }
  }
  teardown(&mut st, cfg);
  hist::rec_end();
}

/// The classic test of a wake-one protocol: two operations wait on the same side (on two handles where
/// the flavour allows clones), the one that registered first is cancelled, and then (in the random part
/// that follows) one unit of progress becomes available - it must reach the waiter that is still there.
fn cancelled_waiter_prologue(st: &mut St, cfg: &Cfg) {
  let recv_side = cfg.seed % 4 < 2 || st.cap == 0;
  let idx = if recv_side { 1 } else { 0 };
  let (info_async, excl, can_clone) = match &st.hs[idx].hd {
    Some(Hd::Tx(t)) => (t.info().is_async, t.info().fut_excl, t.info().clone),
    Some(Hd::Rx(r)) => (r.info().is_async, r.info().fut_excl, r.info().clone),
    None => return,
  };
  if !info_async || st.kind == "os" {
    return;
  }
  if !recv_side {
    // fill the buffer first so that sends have to wait
    for _ in 0..st.cap {
      let vs = st.toks(1);
      let ids = hist::ids(&vs);
      let hid = st.hs[0].id;
      let o = new_op(st);
      hist::rec_call(o, hid, "try_send", &ids, 0, false);
      let out = match st.hs[0].hd.as_mut() {
        Some(Hd::Tx(t)) => t.sync_op("try_send", vs),
        _ => return,
      };
      hist::rec_ret(o, out.res, out.n, &out.vals, &out.back);
      st.len += out.n;
      st.after_drops();
    }
  }
  // second handle of that side
  let second = if can_clone {
    let d = match &st.hs[idx].hd {
      Some(Hd::Tx(t)) => t.dup().map(Hd::Tx),
      Some(Hd::Rx(r)) => r.dup().map(Hd::Rx),
      None => None,
    };
    match d {
      Some(d) => {
        st.next_h += 1;
        let nh = st.next_h;
        hist::rec_clone(st.hs[idx].id, nh);
        st.hs.push(Handle { id: nh, hd: Some(d), closed: false, futs: 0, stream_op: None, consumed: false });
        st.hs.len() - 1
      }
      None => idx,
    }
  } else {
    idx
  };
  if second == idx && excl {
    return;
  }
  let mut ops = vec![];
  for &i in &[idx, second] {
    let hid = st.hs[i].id;
    let o = new_op(st);
    let fut = if recv_side {
      hist::rec_call(o, hid, "recv", &[], 1, true);
      match st.hs[i].hd.as_mut() {
        Some(Hd::Rx(r)) => r.start("recv", 1),
        _ => return,
      }
    } else {
      let vs = st.toks(1);
      let ids = hist::ids(&vs);
      hist::rec_call(o, hid, "send", &ids, 0, true);
      match st.hs[i].hd.as_mut() {
        Some(Hd::Tx(t)) => t.start("send", vs),
        _ => return,
      }
    };
    let wf = WakeFlag::new(o);
    st.hs[i].futs += 1;
    st.futs.push(PFut { o, h: i, fut, wf, is_send: !recv_side, batch: false });
    let k = st.futs.len() - 1;
    poll_fut(st, k);
    st.quiesce();
    ops.push(o);
  }
  // the waiter that registered first goes away
  if let Some(k) = st.futs.iter().position(|f| f.o == ops[0]) {
    cancel_fut(st, k);
    st.quiesce();
  }
}

fn teardown(st: &mut St, cfg: &Cfg) {
  // everything goes, in a random order: futures first on their handle
  loop {
    let alive: Vec<usize> = (0..st.hs.len()).filter(|&i| st.hs[i].hd.is_some()).collect();
    if alive.is_empty() && st.futs.is_empty() {
      break;
    }
    if !st.futs.is_empty() && (alive.is_empty() || st.rng.random_bool(0.5)) {
      let i = st.rng.random_range(0..st.futs.len());
      cancel_fut(st, i);
      st.quiesce();
      continue;
    }
    let i = *pick(&mut st.rng, &alive);
    drop_handle(st, i);
    st.quiesce();
    // the handles that are left keep working while the others go: what they report after each departure
    // (Closed / Disconnected exactly when the other side is gone and the buffer is drained) is judged too
    if st.rng.random_bool(0.5) {
      let alive: Vec<usize> = (0..st.hs.len()).filter(|&i| st.hs[i].hd.is_some()).collect();
      if !alive.is_empty() {
        let j = *pick(&mut st.rng, &alive);
        if matches!(st.hs[j].hd, Some(Hd::Tx(_))) {
          send_op(st, j, cfg);
        } else {
          recv_op(st, j, cfg);
        }
        st.quiesce();
      }
    }
  }
}

fn cancel_fut(st: &mut St, i: usize) {
  let f = st.futs.swap_remove(i);
  CUR_OP.store(f.o, Ordering::SeqCst);
  let (vals, back) = f.fut.cancel();
  st.uncertain = true;
  hist::rec_cancel(f.o, &vals, &back);
  st.len = st.len.saturating_sub(vals.len());
  st.hs[f.h].futs -= 1;
  let _ = f.is_send;
  st.after_drops();
}

fn drop_handle(st: &mut St, i: usize) {
  // futures borrowing the handle go first
  while let Some(j) = st.futs.iter().position(|f| f.h == i) {
    cancel_fut(st, j);
  }
  if let Some((o, _)) = st.hs[i].stream_op.take() {
    hist::rec_cancel(o, &[], &[]);
    st.hs[i].futs -= 1;
  }
  let id = st.hs[i].id;
  let hd = st.hs[i].hd.take();
  drop(hd);
  hist::rec_hdrop(id);
  st.after_drops();
}

fn step(st: &mut St, cfg: &Cfg) {
  let p = cfg.profile.as_str();
  let roll = st.rng.random_range(0..100);
  // poll / drop pending futures with some priority so they do not pile up
  if !st.futs.is_empty() {
    let w = if p == "async" { 45 } else if p == "parked" { 10 } else { 30 };
    if roll < w || st.futs.len() >= st.max_futs {
      let woken: Vec<usize> = (0..st.futs.len()).filter(|&i| st.futs[i].wf.flag.load(Ordering::SeqCst)).collect();
      let i = if !woken.is_empty() && st.rng.random_bool(0.7) { *pick(&mut st.rng, &woken) } else { st.rng.random_range(0..st.futs.len()) };
      if st.rng.random_range(0..100) < (if p == "parked" { 40 } else { 22 }) {
        cancel_fut(st, i);
      } else {
        poll_fut(st, i);
      }
      return;
    }
  }
  let alive: Vec<usize> = (0..st.hs.len()).filter(|&i| st.hs[i].hd.is_some()).collect();
  if alive.is_empty() {
    return;
  }
  let mut i = *pick(&mut st.rng, &alive);
  if p == "parked" && st.rng.random_bool(0.6) {
    // one side is favoured per program, so that the other side's operations pile up as waiters
    let want_tx = cfg.seed % 2 == 0;
    let side: Vec<usize> = alive.iter().copied().filter(|&j| matches!(st.hs[j].hd, Some(Hd::Tx(_))) == want_tx).collect();
    if !side.is_empty() {
      i = *pick(&mut st.rng, &side);
    }
  }
  let life = match p {
    "close" => 20,
    "life" => 50,
    "teardown" => 14,
    "parked" => 9,
    _ => 5,
  };
  // profile "life": one side goes through clone / close / convert / drop all the time, the other side
  // stays and observes (which side is which depends on the program seed)
  let life = if p == "life" && matches!(st.hs[i].hd, Some(Hd::Tx(_))) == (cfg.seed % 2 == 1) { 2 } else { life };
  let roll = st.rng.random_range(0..100);
  if roll < life {
    lifecycle(st, i);
  } else if roll < life + 6 {
    observe(st, i);
  } else {
    let is_tx = matches!(st.hs[i].hd, Some(Hd::Tx(_)));
    if is_tx {
      send_op(st, i, cfg);
    } else {
      recv_op(st, i, cfg);
    }
  }
}

fn observe(st: &mut St, i: usize) {
  let h = &st.hs[i];
  let excl = match &h.hd {
    Some(Hd::Tx(t)) => t.info().fut_excl,
    Some(Hd::Rx(r)) => r.info().fut_excl,
    None => return,
  };
  if h.consumed || (excl && h.futs > 0) {
    return;
  }
  for what in ["len", "capacity", "is_full", "is_empty"] {
    let v = match &h.hd {
      Some(Hd::Tx(t)) => t.obs(what),
      Some(Hd::Rx(r)) => r.obs(what),
      None => None,
    };
    if let Some(v) = v {
      hist::rec_obs(h.id, what, v);
    }
  }
}

fn lifecycle(st: &mut St, i: usize) {
  let is_tx = matches!(st.hs[i].hd, Some(Hd::Tx(_)));
  let (info, can_conv) = match &st.hs[i].hd {
    Some(Hd::Tx(t)) => (t.info(), t.can_conv()),
    Some(Hd::Rx(r)) => (r.info(), r.can_conv()),
    None => return,
  };
  let busy = st.hs[i].futs > 0;
  let roll = st.rng.random_range(0..100);
  if st.hs[i].consumed {
    drop_handle(st, i);
    return;
  }
  // cloning a handle that was itself closed is exercised, but rarely: it runs into the
  // known finding F24 (the clone revives a side that is gone) and ends the judged part
  let clone_ok = !st.hs[i].closed || st.rng.random_range(0..100) < st.clone_closed_pct;
  let clone_w = if st.parked { 50 } else { 30 };
  if roll < clone_w && info.clone && clone_ok && st.count(is_tx) < 3 && !(busy && info.fut_excl) {
    let d = match &st.hs[i].hd {
      Some(Hd::Tx(t)) => t.dup().map(Hd::Tx),
      Some(Hd::Rx(r)) => r.dup().map(Hd::Rx),
      None => None,
    };
    if let Some(d) = d {
      st.next_h += 1;
      let nh = st.next_h;
      hist::rec_clone(st.hs[i].id, nh);
      // a clone of a closed handle is live in the code (known finding F24 when
      // it revives a side that was gone); the estimate follows the code
      if st.hs[i].closed {
        st.uncertain = true;
      }
      st.hs.push(Handle { id: nh, hd: Some(d), closed: false, futs: 0, stream_op: None, consumed: false });
    }
  } else if roll < 55 && !busy {
    // (single owner: a task does not close a handle it has a future pending on)
    let ok = match st.hs[i].hd.as_mut() {
      Some(Hd::Tx(t)) => t.close(),
      Some(Hd::Rx(r)) => r.close(),
      None => return,
    };
    hist::rec_close(st.hs[i].id, ok);
    st.hs[i].closed = true;
    st.after_drops();
  } else if roll < 75 && can_conv && !busy {
    let hd = st.hs[i].hd.take().unwrap();
    let nhd = match hd {
      Hd::Tx(t) => Hd::Tx(t.conv()),
      Hd::Rx(r) => Hd::Rx(r.conv()),
    };
    st.next_h += 1;
    let nh = st.next_h;
    hist::rec_conv(st.hs[i].id, nh);
    st.hs[i].id = nh;
    st.hs[i].hd = Some(nhd);
  } else {
    drop_handle(st, i);
  }
}

fn new_op(st: &mut St) -> u32 {
  st.next_o += 1;
  CUR_OP.store(st.next_o, Ordering::SeqCst);
  st.next_o
}

fn send_op(st: &mut St, i: usize, cfg: &Cfg) {
  let info = match &st.hs[i].hd {
    Some(Hd::Tx(t)) => t.info(),
    _ => return,
  };
  if st.hs[i].consumed || (info.fut_excl && st.hs[i].futs > 0) {
    return;
  }
  // single owner: while a batch send future of this handle is pending (its items go out over several polls),
  // the task does not start another send on the same handle - their relative order would be unspecified
  if st.futs.iter().any(|f| f.h == i && f.is_send && f.batch) {
    return;
  }
  let rejected = st.hs[i].closed || st.live(false) == 0;
  let space = st.space();
  let batch_bias = cfg.profile == "batch";
  let mut ops: Vec<&'static str> = vec!["try_send"];
  if info.batch {
    ops.push("try_send_batch");
    ops.push("try_send_batch_mut");
    if batch_bias {
      ops.push("try_send_batch");
      ops.push("try_send_batch_mut");
    }
  }
  if info.consuming {
    // oneshot: send(self) is the only form
  } else if info.is_async {
    ops.push("f:send");
    if cfg.profile == "parked" {
      ops.extend(["f:send", "f:send"]);
    }
    if info.batch {
      ops.push("f:send_batch");
      ops.push("f:send_batch_mut");
    }
  } else {
    ops.push("send");
    if info.batch {
      ops.push("send_batch");
      ops.push("send_batch_mut");
    }
  }
  let op = *pick(&mut st.rng, &ops);
  let n = if op.contains("batch") {
    let hi = if st.cap > 0 { st.cap + 2 } else { 6 };
    st.rng.random_range(1..=hi.min(8))
  } else {
    1
  };
  // blocking forms only where the model says they cannot block forever
  let pending_send = st.futs.iter().any(|f| f.is_send);
  if !op.starts_with("f:") && !op.starts_with("try") && !rejected && (n > space || st.uncertain || pending_send || st.bc_multi()) {
    return;
  }
  let vs = st.toks(n);
  let ids = hist::ids(&vs);
  let hid = st.hs[i].id;
  let o = new_op(st);
  if let Some(fop) = op.strip_prefix("f:") {
    hist::rec_call(o, hid, fop, &ids, 0, true);
    let wf = WakeFlag::new(o);
    let fut = match st.hs[i].hd.as_mut() {
      Some(Hd::Tx(t)) => t.start(fop, vs),
      _ => unreachable!(),
    };
    st.hs[i].futs += 1;
    st.futs.push(PFut { o, h: i, fut, wf, is_send: true, batch: fop.contains("batch") });
    if st.rng.random_bool(0.8) {
      let k = st.futs.len() - 1;
      poll_fut(st, k);
    }
    return;
  }
  hist::rec_call(o, hid, op, &ids, 0, false);
  let out = match st.hs[i].hd.as_mut() {
    Some(Hd::Tx(t)) => t.sync_op(op, vs),
    _ => unreachable!(),
  };
  hist::rec_ret(o, out.res, out.n, &out.vals, &out.back);
  st.len += out.n;
  if info.consuming {
    // send(self) consumed the handle: it is gone
    st.hs[i].consumed = true;
    st.hs[i].hd = None;
    hist::rec_hdrop(hid);
  }
  st.after_drops();
}

fn recv_op(st: &mut St, i: usize, cfg: &Cfg) {
  let info = match &st.hs[i].hd {
    Some(Hd::Rx(r)) => r.info(),
    _ => return,
  };
  let real_futs = st.futs.iter().any(|f| f.h == i);
  if info.fut_excl && real_futs {
    return;
  }
  // a Stream that returned Pending is only a registration: between two poll_next calls
  // the handle is free again, so non-blocking calls on it are ordinary use
  let stream_pending = st.hs[i].stream_op.is_some();
  if stream_pending && st.rng.random_bool(0.6) {
    poll_stream(st, i);
    return;
  }
  let will_return = st.hs[i].closed || st.len > 0 || st.live(true) == 0;
  let batch_bias = cfg.profile == "batch";
  let mut ops: Vec<&'static str> = vec!["try_recv"];
  if info.batch {
    ops.push("try_recv_batch");
    ops.push("try_recv_batch_mut");
    if batch_bias {
      ops.push("try_recv_batch");
      ops.push("try_recv_batch_mut");
    }
  }
  if info.is_async {
    ops.push("f:recv");
    if cfg.profile == "parked" {
      ops.extend(["f:recv", "f:recv", "f:recv"]);
    }
    if info.batch {
      ops.push("f:recv_batch");
      ops.push("f:recv_batch_mut");
    }
    if info.stream {
      ops.push("s:poll_next");
    }
  } else {
    ops.push("recv");
    if info.timeout {
      ops.push("recv_timeout");
    }
    if info.batch {
      ops.push("recv_batch");
      ops.push("recv_batch_mut");
    }
  }
  let mut op = *pick(&mut st.rng, &ops);
  if stream_pending && !op.starts_with("try") {
    op = "try_recv";
  }
  let max = if op.contains("batch") { st.rng.random_range(1..=5) } else { 1 };
  let pending_recv = st.futs.iter().any(|f| !f.is_send) || st.hs.iter().any(|h| h.stream_op.is_some());
  let sure = st.hs[i].closed || st.live(true) == 0 || (st.len > 0 && !st.uncertain && !pending_recv && !st.bc_multi());
  if matches!(op, "recv" | "recv_batch" | "recv_batch_mut") && !sure {
    return;
  }
  let hid = st.hs[i].id;
  let o = new_op(st);
  if op == "s:poll_next" {
    hist::rec_call(o, hid, "poll_next", &[], 1, true);
    let wf = WakeFlag::new(o);
    st.hs[i].stream_op = Some((o, wf));
    st.hs[i].futs += 1;
    poll_stream(st, i);
    return;
  }
  if let Some(fop) = op.strip_prefix("f:") {
    hist::rec_call(o, hid, fop, &[], max, true);
    let wf = WakeFlag::new(o);
    let fut = match st.hs[i].hd.as_mut() {
      Some(Hd::Rx(r)) => r.start(fop, max),
      _ => unreachable!(),
    };
    st.hs[i].futs += 1;
    st.futs.push(PFut { o, h: i, fut, wf, is_send: false, batch: false });
    if st.rng.random_bool(0.8) {
      let k = st.futs.len() - 1;
      poll_fut(st, k);
    }
    return;
  }
  hist::rec_call(o, hid, op, &[], max, false);
  let d = if sure { Duration::from_millis(200) } else { Duration::from_millis(1) };
  let _ = will_return;
  let out = match st.hs[i].hd.as_mut() {
    Some(Hd::Rx(r)) => r.sync_op(op, max, d),
    _ => unreachable!(),
  };
  hist::rec_ret(o, out.res, out.n, &out.vals, &out.back);
  st.len = st.len.saturating_sub(out.vals.len());
  st.after_drops();
}

fn poll_stream(st: &mut St, i: usize) {
  let (o, wf) = st.hs[i].stream_op.clone().unwrap();
  CUR_OP.store(o, Ordering::SeqCst);
  wf.flag.store(false, Ordering::SeqCst);
  let waker = Waker::from(wf.clone());
  let mut cx = Context::from_waker(&waker);
  let r = match st.hs[i].hd.as_mut() {
    Some(Hd::Rx(r)) => r.poll_next(&mut cx),
    _ => unreachable!(),
  };
  match r {
    None => hist::rec_pending(o),
    Some(out) => {
      hist::rec_ret(o, out.res, out.n, &out.vals, &out.back);
      st.len = st.len.saturating_sub(out.vals.len());
      st.hs[i].stream_op = None;
      st.hs[i].futs -= 1;
      st.after_drops();
    }
  }
}

fn poll_fut(st: &mut St, i: usize) {
  let o = st.futs[i].o;
  CUR_OP.store(o, Ordering::SeqCst);
  st.futs[i].wf.flag.store(false, Ordering::SeqCst);
  // sometimes re-poll with a fresh waker object (C06: re-polls with a different waker)
  if st.rng.random_range(0..100) < 15 {
    st.futs[i].wf.stale.store(true, Ordering::SeqCst);
    st.futs[i].wf = WakeFlag::new(o);
  }
  let waker = Waker::from(st.futs[i].wf.clone());
  let mut cx = Context::from_waker(&waker);
  match st.futs[i].fut.poll(&mut cx) {
    None => hist::rec_pending(o),
    Some(out) => {
      hist::rec_ret(o, out.res, out.n, &out.vals, &out.back);
      let f = st.futs.swap_remove(i);
      st.hs[f.h].futs -= 1;
      if f.is_send {
        st.len += out.n;
      } else {
        st.len = st.len.saturating_sub(out.vals.len());
      }
      st.after_drops();
    }
  }
}
