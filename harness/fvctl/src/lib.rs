//! Cooperative scheduler for instrumented threads (`fibre::verif::Controller`).
//!
//! Exactly one managed thread runs between two yield points (every atomic
//! operation / lock acquisition / spin / park of the instrumented library). The
//! thread that yields picks who runs next, so the interleaving is an input:
//! seeded random, PCT, or a recorded list of decisions (replay).
//!
//! A thread that parks really parks (`std::thread::park`); when it wakes up, for
//! whatever reason, it re-registers as runnable and waits for its turn. So an
//! unpark site without a hook cannot produce a false deadlock report: the woken
//! thread shows up by itself during the grace period.

use fibre::verif::Controller;
use rand::rngs::StdRng;
use rand::{Rng, SeedableRng};
use std::collections::HashMap;
use std::panic::Location;
use std::sync::{Arc, Condvar, Mutex};
use std::thread::ThreadId;
use std::time::{Duration, Instant};

#[derive(Clone, Copy, PartialEq, Eq, Debug)]
enum TS {
  /// free slot for a thread the library spawns itself (see `Controller::adopt`)
  Spare,
  New,
  Ready,
  Running,
  Parked,
  ParkedTimed,
  Spin,
  Done,
}

struct Th {
  st: TS,
  token: bool,
  handle: Option<std::thread::Thread>,
  prio: i64,
  /// non-spin yield points this thread has arrived at
  nsteps: u64,
  spin_seen: u64,
  /// consecutive spin iterations during which nobody else made progress
  spin_idle: u32,
  panicked: Option<String>,
}

#[derive(Clone, Debug)]
pub enum Strategy {
  /// switch to a uniformly chosen runnable thread with probability `p` at each point
  Random { p: f64 },
  /// PCT: random priorities, `d` priority change points within `k` expected steps
  Pct { d: usize, k: u64 },
  /// follow recorded decisions (thread ids), then run the lowest runnable id
  Replay(Vec<u8>),
  /// PCT with everything given: initial priorities per thread and change points `(thread, n)`:
  /// the thread is demoted below everybody when it arrives at its n-th (non-spin) yield point.
  /// Used to enumerate the PCT schedule space of a small scenario systematically.
  PctExplicit { prios: Vec<i64>, cps: Vec<(usize, u64)> },
}

struct St {
  th: Vec<Th>,
  ids: HashMap<ThreadId, usize>,
  cur: Option<usize>,
  awaiting: Option<usize>,
  rng: StdRng,
  strat: Strategy,
  change_points: Vec<u64>,
  steps: u64,
  progress: u64,
  free_run: bool,
  decisions: Vec<u8>,
  replay_pos: usize,
  quiescent: bool,
  weak_cas: f64,
  spurious: f64,
  max_steps: u64,
  step_limit_hit: bool,
  /// threads announced by `expect_adoption` that have not called `adopt` yet
  expected: usize,
  last_step_at: Instant,
  trace: Option<Vec<String>>,
}

pub struct Ctl {
  m: Mutex<St>,
  cv: Condvar,
}

#[derive(Debug, Clone)]
pub struct Outcome {
  /// managed threads still parked with nothing that could wake them
  pub blocked: Vec<usize>,
  pub all_done: bool,
  pub step_limit: bool,
  /// a managed thread made no step for seconds while "running": it is blocked in the OS
  pub stuck: bool,
  pub steps: u64,
  pub decisions: Vec<u8>,
  pub panics: Vec<(usize, String)>,
}

impl Ctl {
  pub fn new(n: usize, seed: u64, strat: Strategy) -> Arc<Ctl> {
    Self::with_spares(n, 0, seed, strat)
  }

  /// `n` threads spawned through `spawn`, plus `spares` slots for adopted threads.
  pub fn with_spares(n: usize, spares: usize, seed: u64, strat: Strategy) -> Arc<Ctl> {
    let mut rng = StdRng::seed_from_u64(seed);
    let mut th = Vec::new();
    for i in 0..n + spares {
      th.push(Th { st: if i < n { TS::New } else { TS::Spare }, token: false, handle: None, prio: rng.random_range(1000..2000), nsteps: 0, spin_seen: 0, spin_idle: 0, panicked: None });
    }
    if let Strategy::PctExplicit { prios, .. } = &strat {
      for (i, p) in prios.iter().enumerate() {
        if i < th.len() {
          th[i].prio = *p;
        }
      }
    }
    let mut cps = vec![];
    if let Strategy::Pct { d, k } = &strat {
      for _ in 1..*d {
        cps.push(rng.random_range(1..=*k));
      }
    }
    Arc::new(Ctl {
      m: Mutex::new(St {
        th,
        ids: HashMap::new(),
        cur: None,
        awaiting: None,
        rng,
        strat,
        change_points: cps,
        steps: 0,
        progress: 0,
        free_run: false,
        decisions: vec![],
        replay_pos: 0,
        quiescent: false,
        weak_cas: 0.0,
        spurious: 0.0,
        max_steps: 400_000,
        step_limit_hit: false,
        expected: 0,
        last_step_at: Instant::now(),
        trace: None,
      }),
      cv: Condvar::new(),
    })
  }

  pub fn set_noise(&self, weak_cas: f64, spurious: f64) {
    let mut s = self.m.lock().unwrap();
    s.weak_cas = weak_cas;
    s.spurious = spurious;
  }

  pub fn enable_trace(&self) {
    self.m.lock().unwrap().trace = Some(vec![]);
  }

  pub fn take_trace(&self) -> Vec<String> {
    self.m.lock().unwrap().trace.take().unwrap_or_default()
  }

  /// Spawns managed thread `tid` running `f`. It does not start before `run`.
  pub fn spawn<F: FnOnce() + Send + 'static>(self: &Arc<Self>, tid: usize, gen_: u64, f: F) -> std::thread::JoinHandle<()> {
    let me = self.clone();
    std::thread::Builder::new()
      .name(format!("fv-t{tid}"))
      .stack_size(4 << 20)
      .spawn(move || {
        let _ = gen_;
        {
          let mut s = me.m.lock().unwrap();
          s.ids.insert(std::thread::current().id(), tid);
          s.th[tid].handle = Some(std::thread::current());
          s.th[tid].st = TS::Ready;
          me.cv.notify_all();
        }
        let dynme: Arc<dyn Controller> = me.clone();
        fibre::verif::enter(dynme);
        me.wait_turn(tid);
        let r = std::panic::catch_unwind(std::panic::AssertUnwindSafe(f));
        fibre::verif::leave();
        let mut s = me.m.lock().unwrap();
        if let Err(e) = r {
          let msg = if let Some(x) = e.downcast_ref::<String>() { x.clone() } else if let Some(x) = e.downcast_ref::<&str>() { x.to_string() } else { "panic".into() };
          s.th[tid].panicked = Some(msg);
        }
        s.th[tid].st = TS::Done;
        s.progress += 1;
        if s.cur == Some(tid) {
          s.cur = None;
          me.hand_over(&mut s, None);
        }
        me.cv.notify_all();
      })
      .unwrap()
  }

  fn tid(&self, s: &St) -> Option<usize> {
    s.ids.get(&std::thread::current().id()).copied()
  }

  /// Blocks until `tid` holds the baton (or the run switched to free-running).
  fn wait_turn(&self, tid: usize) {
    let mut s = self.m.lock().unwrap();
    loop {
      if s.free_run {
        return;
      }
      if s.cur == Some(tid) {
        s.th[tid].st = TS::Running;
        return;
      }
      if s.cur.is_none() && s.awaiting == Some(tid) {
        s.awaiting = None;
        s.cur = Some(tid);
        s.th[tid].st = TS::Running;
        return;
      }
      s = self.cv.wait(s).unwrap();
    }
  }

  fn candidates(&self, s: &St) -> Vec<usize> {
    let mut c = vec![];
    for (i, t) in s.th.iter().enumerate() {
      match t.st {
        TS::Ready | TS::Running => c.push(i),
        TS::Spin => c.push(i),
        TS::Parked if t.token => c.push(i),
        TS::ParkedTimed => c.push(i),
        _ => {}
      }
    }
    c
  }

  /// Chooses the next thread to run. `me`: the yielding thread if it can continue.
  fn choose(&self, s: &mut St, me: Option<usize>) -> Option<usize> {
    let mut c = self.candidates(s);
    if c.is_empty() {
      return None;
    }
    // A thread that has been spinning for a long time without anybody else making progress is
    // waiting for somebody (an unbounded spin-wait): it goes last.  Short, bounded pre-park spin
    // loops (a few hundred iterations) are ordinary steps, so that "the waiter spins, registers
    // and parks while the other thread is delayed" stays reachable.
    let fresh: Vec<usize> = c.iter().copied().filter(|&i| !(s.th[i].st == TS::Spin && s.th[i].spin_idle > 600)).collect();
    if !fresh.is_empty() {
      c = fresh;
    }
    let pick = match &s.strat {
      Strategy::Replay(list) => {
        let want = list.get(s.replay_pos).map(|&x| x as usize);
        s.replay_pos += 1;
        match want {
          Some(w) if c.contains(&w) => w,
          _ => c[0],
        }
      }
      Strategy::Random { p } => {
        let p = *p;
        match me {
          Some(m) if c.contains(&m) && !s.rng.random_bool(p) => m,
          _ => c[s.rng.random_range(0..c.len())],
        }
      }
      Strategy::Pct { .. } => {
        if s.change_points.contains(&s.steps) {
          if let Some(m) = me {
            let lo = s.th.iter().map(|t| t.prio).min().unwrap_or(0);
            s.th[m].prio = lo - 1;
          }
        }
        // strictly by priority (long idle spinners were already filtered out above)
        *c.iter().max_by_key(|&&i| s.th[i].prio).unwrap()
      }
      Strategy::PctExplicit { cps, .. } => {
        if let Some(m) = me {
          if s.th[m].st != TS::Spin && cps.contains(&(m, s.th[m].nsteps)) {
            let lo = s.th.iter().map(|t| t.prio).min().unwrap_or(0);
            s.th[m].prio = lo - 1;
          }
        }
        *c.iter().max_by_key(|&&i| s.th[i].prio).unwrap()
      }
    };
    s.decisions.push(pick as u8);
    Some(pick)
  }

  /// Gives the baton to the next thread (called with the lock held by the thread that stops running).
  fn hand_over(&self, s: &mut St, me: Option<usize>) {
    if s.free_run {
      return;
    }
    if s.steps >= s.max_steps {
      s.step_limit_hit = true;
      s.free_run = true;
      self.cv.notify_all();
      return;
    }
    match self.choose(s, me) {
      None => {
        s.cur = None;
        s.quiescent = true;
      }
      Some(x) => {
        s.quiescent = false;
        match s.th[x].st {
          TS::Parked | TS::ParkedTimed => {
            // it wakes by itself (token already delivered / timeout elapsing)
            s.cur = None;
            s.awaiting = Some(x);
          }
          _ => {
            s.cur = Some(x);
          }
        }
      }
    }
    self.cv.notify_all();
  }

  /// One yield point of thread `tid`.
  fn yield_point(&self, tid: usize, as_state: TS) {
    let mut s = self.m.lock().unwrap();
    if s.free_run {
      return;
    }
    s.steps += 1;
    s.last_step_at = Instant::now();
    if as_state == TS::Spin {
      // progress made by the *other* threads since this thread's previous spin (its own loads between
      // two spins - "load; spin_loop" retry loops - do not count)
      let others = s.progress - s.th[tid].nsteps;
      if s.th[tid].spin_seen == others {
        s.th[tid].spin_idle += 1;
      } else {
        s.th[tid].spin_idle = 0;
      }
      s.th[tid].spin_seen = others;
    } else {
      s.th[tid].nsteps += 1;
      s.progress += 1;
    }
    s.th[tid].st = as_state;
    s.cur = None;
    self.hand_over(&mut s, Some(tid));
    loop {
      if s.free_run {
        return;
      }
      if s.cur == Some(tid) {
        s.th[tid].st = TS::Running;
        return;
      }
      s = self.cv.wait(s).unwrap();
    }
  }

  /// Runs the managed threads until all are done or nothing can run.
  pub fn run(&self, limit: Duration) -> Outcome {
    let t0 = Instant::now();
    let mut s = self.m.lock().unwrap();
    // wait for every thread to register
    while s.th.iter().any(|t| t.st == TS::New) {
      s = self.cv.wait_timeout(s, Duration::from_millis(50)).unwrap().0;
    }
    s.last_step_at = Instant::now();
    self.hand_over(&mut s, None);
    let mut stuck = false;
    loop {
      let all_done = s.th.iter().all(|t| t.st == TS::Done || t.st == TS::Spare);
      if all_done || s.free_run {
        break;
      }
      if s.quiescent && s.cur.is_none() && s.awaiting.is_none() && s.expected == 0 {
        // grace period: a thread woken through an unhooked unpark shows up by itself
        let deadline = Instant::now() + Duration::from_millis(60);
        let mut revived = false;
        while Instant::now() < deadline {
          s = self.cv.wait_timeout(s, Duration::from_millis(5)).unwrap().0;
          if !self.candidates(&s).is_empty() {
            revived = true;
            break;
          }
        }
        if revived {
          self.hand_over(&mut s, None);
          continue;
        }
        // optional spurious wake-ups (legal for park): give each parked thread one
        break;
      }
      s = self.cv.wait_timeout(s, Duration::from_millis(20)).unwrap().0;
      if !s.free_run && s.cur.is_none() && s.awaiting.is_none() && !self.candidates(&s).is_empty() {
        // somebody became runnable while nobody held the baton (an adopted thread arrived,
        // a parked thread was woken through an unhooked unpark)
        self.hand_over(&mut s, None);
        continue;
      }
      if s.last_step_at.elapsed() > Duration::from_secs(4) && (s.cur.is_some() || s.awaiting.is_some()) {
        // a timed park being awaited is fine for a while; otherwise somebody blocks in the OS
        stuck = true;
        break;
      }
      if t0.elapsed() > limit {
        stuck = true;
        break;
      }
    }
    let blocked: Vec<usize> = s.th.iter().enumerate().filter(|(_, t)| matches!(t.st, TS::Parked | TS::ParkedTimed)).map(|(i, _)| i).collect();
    Outcome {
      blocked,
      all_done: s.th.iter().all(|t| t.st == TS::Done || t.st == TS::Spare),
      step_limit: s.step_limit_hit,
      stuck,
      steps: s.steps,
      decisions: s.decisions.clone(),
      panics: s.th.iter().enumerate().filter_map(|(i, t)| t.panicked.clone().map(|m| (i, m))).collect(),
    }
  }

  /// Lets every thread run freely from now on (used to wind a scenario down).
  pub fn release_all(&self) {
    let mut s = self.m.lock().unwrap();
    s.free_run = true;
    self.cv.notify_all();
  }

  pub fn is_done(&self, tid: usize) -> bool {
    self.m.lock().unwrap().th[tid].st == TS::Done
  }

  /// Wakes parked thread `tid` for real (used during wind-down as a legal spurious unpark).
  pub fn kick(&self, tid: usize) {
    let s = self.m.lock().unwrap();
    if let Some(h) = &s.th[tid].handle {
      h.unpark();
    }
  }
}

impl Controller for Ctl {
  fn point(&self, kind: &'static str, loc: &'static Location<'static>, _addr: usize) {
    let tid = {
      let mut s = self.m.lock().unwrap();
      if s.free_run {
        return;
      }
      let t = match self.tid(&s) {
        Some(t) => t,
        None => return,
      };
      if let Some(tr) = s.trace.as_mut() {
        tr.push(format!("t{} {} {}:{}", t, kind, loc.file().rsplit('/').next().unwrap_or(""), loc.line()));
      }
      t
    };
    self.yield_point(tid, TS::Ready);
  }

  fn event(&self, site: &'static str, a: u64, b: u64) {
    let mut s = self.m.lock().unwrap();
    let t = self.tid(&s);
    if let Some(tr) = s.trace.as_mut() {
      tr.push(format!("t{:?} ev {} {} {}", t, site, a, b));
    }
  }

  fn spin(&self, _loc: &'static Location<'static>) {
    let tid = {
      let s = self.m.lock().unwrap();
      if s.free_run {
        return;
      }
      match self.tid(&s) {
        Some(t) => t,
        None => return,
      }
    };
    self.yield_point(tid, TS::Spin);
  }

  fn park(&self, timeout: Option<Duration>, loc: &'static Location<'static>) {
    let mut s = self.m.lock().unwrap();
    let tid = match self.tid(&s) {
      Some(t) if !s.free_run => t,
      _ => {
        drop(s);
        match timeout {
          Some(d) => std::thread::park_timeout(d),
          None => std::thread::park(),
        }
        return;
      }
    };
    if let Some(tr) = s.trace.as_mut() {
      tr.push(format!("t{} park {}:{}", tid, loc.file().rsplit('/').next().unwrap_or(""), loc.line()));
    }
    s.steps += 1;
    s.progress += 1;
    s.last_step_at = Instant::now();
    if s.th[tid].token {
      // the permit is already there: park returns at once; still a yield point
      s.th[tid].token = false;
      drop(s);
      // consume the real permit too
      std::thread::park_timeout(Duration::from_millis(0));
      self.yield_point(tid, TS::Ready);
      return;
    }
    // only short timeouts are allowed to fire under the scheduler
    let timed = matches!(timeout, Some(d) if d <= Duration::from_millis(50));
    s.th[tid].st = if timed { TS::ParkedTimed } else { TS::Parked };
    s.cur = None;
    self.hand_over(&mut s, None);
    drop(s);
    match timeout {
      Some(d) => std::thread::park_timeout(d),
      None => std::thread::park(),
    }
    let mut s = self.m.lock().unwrap();
    s.th[tid].token = false;
    s.th[tid].st = TS::Ready;
    s.last_step_at = Instant::now();
    self.cv.notify_all();
    loop {
      if s.free_run {
        return;
      }
      if s.cur == Some(tid) {
        s.th[tid].st = TS::Running;
        return;
      }
      if s.cur.is_none() && s.awaiting == Some(tid) {
        s.awaiting = None;
        s.cur = Some(tid);
        s.th[tid].st = TS::Running;
        return;
      }
      s = self.cv.wait(s).unwrap();
    }
  }

  fn unpark(&self, target: ThreadId) {
    let mut s = self.m.lock().unwrap();
    if let Some(&t) = s.ids.get(&target) {
      if s.th[t].st != TS::Done {
        s.th[t].token = true;
      }
      if let Some(tr) = s.trace.as_mut() {
        tr.push(format!("unpark t{}", t));
      }
    }
  }

  fn adopt(&self) -> bool {
    let tid = {
      let mut s = self.m.lock().unwrap();
      if s.free_run {
        return false;
      }
      let slot = match s.th.iter().position(|t| t.st == TS::Spare) {
        Some(i) => i,
        None => return false,
      };
      s.ids.insert(std::thread::current().id(), slot);
      s.th[slot].handle = Some(std::thread::current());
      s.th[slot].st = TS::Ready;
      s.expected = s.expected.saturating_sub(1);
      s.progress += 1;
      self.cv.notify_all();
      slot
    };
    self.wait_turn(tid);
    true
  }

  fn expect_adoption(&self) {
    let mut s = self.m.lock().unwrap();
    if !s.free_run {
      s.expected += 1;
    }
  }

  fn retire(&self) {
    let mut s = self.m.lock().unwrap();
    if let Some(tid) = self.tid(&s) {
      s.th[tid].st = TS::Done;
      s.progress += 1;
      if s.cur == Some(tid) {
        s.cur = None;
        self.hand_over(&mut s, None);
      }
      self.cv.notify_all();
    }
  }

  fn weak_cas_fails(&self) -> bool {
    let mut s = self.m.lock().unwrap();
    if s.free_run || s.weak_cas <= 0.0 {
      return false;
    }
    let p = s.weak_cas;
    s.rng.random_bool(p)
  }
}
