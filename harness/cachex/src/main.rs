//! fv-cachex: drivers for the cache properties (C11, C12, C13, C16, C17).
//!
//!   fv-cachex cache-seq --seed N --programs N --ops N --profiles mix,ttl,cap,iter,burst --out FILE [--kf F14,F15]
//!   fv-cachex cache-stress --seed N --rounds N --threads N --out FILE
//!   fv-cachex cache-sched --seed N --scenarios N --families rmw,rm-evict,clear-ins,overwrite,inval-exp --strategies random,pct3,pct5 --out FILE
//!   fv-cachex cache-script --script FILE.json --out FILE
//!
//! Histories are written as ndjson (one `new` record per history); one JSON line of
//! statistics goes to stdout.  A panic or a hang inside library code becomes a `panic` /
//! `hung` record of the history, never a crash of the driver.

mod rt;
mod sched;
mod seq;
mod stress;

use parking_lot::Mutex;
use rand::rngs::StdRng;
use rand::{Rng, SeedableRng};
use serde_json::json;
use std::collections::HashMap;
use std::io::Write;
use std::sync::mpsc;
use std::sync::Arc;
use std::time::{Duration, Instant};

fn args() -> (String, HashMap<String, String>) {
  let a: Vec<String> = std::env::args().skip(1).collect();
  let cmd = a.first().cloned().unwrap_or_default();
  let mut m = HashMap::new();
  let mut i = 1;
  while i + 1 < a.len() {
    m.insert(a[i].trim_start_matches("--").to_string(), a[i + 1].clone());
    i += 2;
  }
  (cmd, m)
}

fn get<T: std::str::FromStr>(m: &HashMap<String, String>, k: &str, d: T) -> T {
  m.get(k).and_then(|v| v.parse().ok()).unwrap_or(d)
}

fn list(m: &HashMap<String, String>, k: &str, d: &str) -> Vec<String> {
  m.get(k).map(|s| s.as_str()).unwrap_or(d).split(',').filter(|s| !s.is_empty()).map(|s| s.to_string()).collect()
}

/// Runs `f` on its own thread; the records it produced are returned even if it panics or hangs.
pub fn guarded<F>(out: seq::Out, limit: Duration, f: F) -> &'static str
where
  F: FnOnce() + Send + 'static,
{
  let (tx, rx) = mpsc::channel();
  let o2 = out.clone();
  std::thread::Builder::new()
    .stack_size(8 << 20)
    .spawn(move || {
      let r = std::panic::catch_unwind(std::panic::AssertUnwindSafe(f));
      if let Err(e) = r {
        let msg = e.downcast_ref::<String>().cloned().or_else(|| e.downcast_ref::<&str>().map(|s| s.to_string())).unwrap_or_default();
        o2.lock().push(json!({"k":"panic","msg":msg}).to_string());
      }
      let _ = tx.send(());
    })
    .expect("spawn");
  match rx.recv_timeout(limit) {
    Ok(()) => "ok",
    Err(_) => {
      let cur = seq::CURRENT_OP.lock().clone();
      out.lock().push(json!({"k":"hung","what":"operation did not return","op":cur}).to_string());
      "hung"
    }
  }
}

fn cache_seq(m: &HashMap<String, String>) {
  let seed: u64 = get(m, "seed", 1);
  let programs: usize = get(m, "programs", 10);
  let ops: usize = get(m, "ops", 60);
  let profiles = list(m, "profiles", "mix");
  let kf = list(m, "kf", "");
  let outp = m.get("out").cloned().unwrap_or_else(|| "/dev/stdout".into());
  let mut file = std::io::BufWriter::new(std::fs::File::create(&outp).expect("out file"));
  let mut master = StdRng::seed_from_u64(seed);
  let t0 = Instant::now();
  let (mut records, mut panics, mut hung) = (0usize, 0usize, 0usize);
  let mut by_profile: HashMap<String, usize> = HashMap::new();
  std::panic::set_hook(Box::new(|_| {}));
  let only: i64 = get(m, "only", -1);
  for i in 0..programs {
    let profile = profiles[i % profiles.len()].clone();
    let hseed: u64 = master.random();
    if only >= 0 && i as i64 != only {
      continue;
    }
    let mut rng = StdRng::seed_from_u64(hseed);
    let cfg = seq::random_cfg(&mut rng, &profile, ops, &kf);
    let out: seq::Out = Arc::new(Mutex::new(Vec::new()));
    let o2 = out.clone();
    let st = guarded(out.clone(), Duration::from_secs(60), move || {
      let mut sim = seq::Sim::new(cfg, hseed, i, o2);
      sim.run();
    });
    let recs = std::mem::take(&mut *out.lock());
    if recs.iter().any(|r| r.starts_with("{\"k\":\"panic\"")) {
      panics += 1;
    }
    if st == "hung" || recs.iter().any(|r| r.starts_with("{\"k\":\"hung\"")) {
      hung += 1;
    }
    records += recs.len();
    *by_profile.entry(profile).or_default() += 1;
    for r in recs {
      writeln!(file, "{}", r).unwrap();
    }
  }
  file.flush().unwrap();
  println!("{}", json!({"driver":"cache-seq","seed":seed,"histories":programs,"records":records,"panics":panics,"hung":hung,
    "profiles":by_profile,"wall_ms":t0.elapsed().as_millis() as u64}));
}

/// Runs one scripted history: {"cfg": {...}, "steps": [[op, args...], ...]}
fn cache_script(m: &HashMap<String, String>) {
  let path = m.get("script").expect("--script");
  let kf = list(m, "kf", "");
  let outp = m.get("out").cloned().unwrap_or_else(|| "/dev/stdout".into());
  let js: serde_json::Value = serde_json::from_str(&std::fs::read_to_string(path).expect("read script")).expect("script json");
  let cfg = seq::cfg_from_json(&js["cfg"], &kf);
  let steps = js["steps"].as_array().expect("steps").clone();
  let out: seq::Out = Arc::new(Mutex::new(Vec::new()));
  let o2 = out.clone();
  std::panic::set_hook(Box::new(|_| {}));
  let st = guarded(out.clone(), Duration::from_secs(60), move || {
    let mut sim = seq::Sim::new(cfg, 1, 0, o2);
    sim.run_script(&steps);
  });
  let recs = std::mem::take(&mut *out.lock());
  let mut file = std::io::BufWriter::new(std::fs::File::create(&outp).expect("out file"));
  for r in &recs {
    writeln!(file, "{}", r).unwrap();
  }
  file.flush().unwrap();
  println!("{}", json!({"driver":"cache-script","histories":1,"records":recs.len(),"status":st}));
}

fn main() {
  let (cmd, m) = args();
  match cmd.as_str() {
    "cache-seq" => cache_seq(&m),
    "cache-script" => cache_script(&m),
    "cache-stress" => stress::run(&m),
    "cache-sched" => sched::run(&m),
    _ => {
      eprintln!("usage: fv-cachex cache-seq|cache-stress --seed N --programs N --ops N --profiles a,b --out FILE");
      std::process::exit(2);
    }
  }
  // leaked janitor threads of dropped caches must not keep the process alive
  std::process::exit(0);
}
