fn main() {
  eprintln!("fv-cachex: not built yet");
  std::process::exit(2);
}
