//! cache-sched: small concurrent scenarios on one cache under the cooperative scheduler
//! (`fvctl`): 2-3 user threads plus one maintenance thread that calls `run_maintenance()`
//! explicitly.  Every lock acquisition / atomic step inside the cache's hybrid locks and
//! channels is a yield point, so the interleaving is chosen by the scheduler (seeded random
//! or PCT) instead of the OS.  The scenario families aim at the overlaps the properties name:
//!
//!   rmw        compute / entry read-modify-write from several threads (C11)
//!   rm-evict   remove / invalidate vs capacity eviction of the same keys (C13, C16)
//!   clear-ins  clear vs insert (C13)
//!   overwrite  overwrite with a different cost before the policy learnt the first write (C13)
//!   inval-exp  invalidate / remove vs expiry cleanup of the same key: who notifies (C16, C12)
//!
//! Records: `call` / `ret` per operation in a global order (the result is also copied into
//! the call record, see stress.rs), a sequential prefix run by the driver thread, and a
//! `final` record at quiescence: the notifications the listener received, the reported
//! current_cost and a peek of every key.  Validated by specs/cache/CacheStressTrace.tla.
//!
//! The janitor and notifier threads of the cache are not managed: the janitor is configured
//! to do nothing, the notifier only delivers to the recording listener.  A run in which a
//! managed thread blocks in the OS (scheduler verdict `stuck` / step limit) is recorded as
//! `inconclusive` and never judged.

use crate::rt::*;
use crate::seq::{POLICIES, T0};
use fibre::verif::Controller;
use fibre_cache::error::ComputeResult;
use fibre_cache::policy::{
  arc::ArcPolicy, clock::ClockPolicy, fifo::Fifo, lru::LruPolicy, random::RandomPolicy, sieve::SievePolicy,
  slru::SlruPolicy, tinylfu::TinyLfuPolicy,
};
use fibre_cache::{Cache, CacheBuilder};
use fvctl::{Ctl, Strategy};
use parking_lot::Mutex;
use rand::rngs::StdRng;
use rand::{Rng, SeedableRng};
use serde_json::{json, Value};
use std::collections::HashMap;
use std::io::Write;
use std::sync::atomic::{AtomicBool, AtomicU32, Ordering};
use std::sync::Arc;
use std::time::{Duration, Instant};

type C = Cache<u32, Val, FixedState>;

#[derive(Clone, Debug)]
enum Op {
  Insert(u32, u64),
  Remove(u32),
  Invalidate(u32),
  Clear,
  Read(&'static str, u32),
  Compute(&'static str, u32),
  OrInsert(u32, u64),
  Maint,
}

struct Scenario {
  family: &'static str,
  keys: u32,
  cap: u64,
  policy: String,
  shards: usize,
  ttl: u64,
  prefix: Vec<Op>,
  /// clock advance after the prefix
  adv: u64,
  threads: Vec<Vec<Op>>,
}

struct Log {
  recs: Mutex<Vec<Value>>,
  next_o: AtomicU32,
  next_w: AtomicU32,
}

impl Log {
  fn call(&self, th: usize, mut rec: Value) -> u32 {
    let mut g = self.recs.lock();
    let o = self.next_o.fetch_add(1, Ordering::SeqCst) + 1;
    let m = rec.as_object_mut().unwrap();
    m.insert("k".into(), json!("call"));
    m.insert("o".into(), json!(o));
    m.insert("th".into(), json!(th));
    g.push(rec);
    o
  }
  fn ret(&self, o: u32, res: Value) {
    self.recs.lock().push(json!({"k":"ret","o":o,"p":res}));
  }
}

fn pairv(v: &Option<Arc<Val>>) -> Value {
  match v {
    Some(v) => json!([v.wid, v.n]),
    None => json!([0, 0]),
  }
}

fn exec(cache: &C, log: &Log, th: usize, op: &Op) {
  match op {
    Op::Insert(k, c) => {
      let w = log.next_w.fetch_add(1, Ordering::SeqCst) + 1;
      let o = log.call(th, json!({"op":"ins","api":"insert","key":k,"wid":w,"cost":c,"ttl":0}));
      cache.insert(*k, Val { wid: w, n: 0 }, *c);
      log.ret(o, json!({}));
    }
    Op::Remove(k) => {
      let o = log.call(th, json!({"op":"rem","api":"remove","key":k}));
      let r = cache.remove(k);
      let p = json!({"hit":r.is_some(),"res":pairv(&r)});
      drop(r);
      log.ret(o, p);
    }
    Op::Invalidate(k) => {
      let o = log.call(th, json!({"op":"rem","api":"invalidate","key":k}));
      let r = cache.invalidate(k);
      log.ret(o, json!({"hit":r,"res":[0,0]}));
    }
    Op::Clear => {
      let o = log.call(th, json!({"op":"clear"}));
      cache.clear();
      log.ret(o, json!({}));
    }
    Op::Read(api, k) => {
      let o = log.call(th, json!({"op":"rd","api":api,"key":k}));
      let res = match *api {
        "get" => cache.get(k, |v| json!([v.wid, v.n])).unwrap_or(json!([0, 0])),
        "fetch" => pairv(&cache.fetch(k)),
        _ => pairv(&cache.peek(k)),
      };
      log.ret(o, json!({"res":res}));
    }
    Op::Compute(api, k) => {
      let o = log.call(th, json!({"op":"comp","api":api,"key":k,"hasval":true}));
      let f = |v: &mut Val| {
        v.n += 1;
        (v.wid, v.n)
      };
      let r = if *api == "compute_val" { cache.compute_val(k, f) } else { cache.try_compute_val(k, f) };
      let p = match r {
        ComputeResult::Ok((w, n)) => json!({"res":"ok","val":[w, n]}),
        ComputeResult::Fail => json!({"res":"fail","val":[0, 0]}),
        ComputeResult::NotFound => json!({"res":"nf","val":[0, 0]}),
      };
      log.ret(o, p);
    }
    Op::OrInsert(k, c) => {
      let w = log.next_w.fetch_add(1, Ordering::SeqCst) + 1;
      let o = log.call(th, json!({"op":"ent","api":"or_insert_with","key":k,"wid":w,"cost":c,"lazy":true}));
      let called = AtomicBool::new(false);
      let r = cache.entry(*k).or_insert_with(
        || {
          called.store(true, Ordering::SeqCst);
          Val { wid: w, n: 0 }
        },
        *c,
      );
      let p = json!({"res":[r.wid, r.n],"called":called.load(Ordering::SeqCst)});
      drop(r);
      log.ret(o, p);
    }
    Op::Maint => {
      let o = log.call(th, json!({"op":"maint"}));
      cache.run_maintenance();
      log.ret(o, json!({}));
    }
  }
}

fn gen_scenario(rng: &mut StdRng, family: &'static str) -> Scenario {
  let pol = |rng: &mut StdRng| POLICIES[rng.random_range(0..POLICIES.len())].to_string();
  let shards = [1usize, 1, 2][rng.random_range(0..3)];
  let rd = |rng: &mut StdRng, k: u32| Op::Read(["get", "fetch", "peek"][rng.random_range(0..3)], k);
  match family {
    "rmw" => {
      let keys = rng.random_range(1..=2);
      let nt = rng.random_range(2..=3);
      let mut prefix = vec![];
      if rng.random_bool(0.7) {
        prefix.push(Op::Insert(1, 1));
      }
      let threads = (0..nt)
        .map(|_| {
          (0..rng.random_range(2..=3))
            .map(|_| {
              let k = rng.random_range(1..=keys);
              match rng.random_range(0..10) {
                0..=3 => Op::Compute(if rng.random_bool(0.7) { "compute_val" } else { "try_compute_val" }, k),
                4..=6 => Op::OrInsert(k, 1),
                7 => Op::Insert(k, 1),
                8 => Op::Remove(k),
                _ => rd(rng, k),
              }
            })
            .collect()
        })
        .collect();
      Scenario { family, keys, cap: 0, policy: "default".into(), shards, ttl: 0, prefix, adv: 0, threads }
    }
    "rm-evict" => {
      // the cache is over capacity when the threads start: maintenance evicts while the users remove
      let mut prefix = vec![Op::Insert(1, 1), Op::Insert(2, 1), Op::Insert(3, 1)];
      if rng.random_bool(0.5) {
        prefix.push(Op::Maint);
        prefix.push(Op::Insert(1, 1));
      }
      let victim = rng.random_range(1..=3);
      let t0 = vec![if rng.random_bool(0.5) { Op::Remove(victim) } else { Op::Invalidate(victim) }, rd(rng, victim)];
      let t1 = vec![Op::Insert(rng.random_range(1..=3), rng.random_range(1..=2)), Op::Remove(rng.random_range(1..=3))];
      let mut threads = vec![t0];
      if rng.random_bool(0.6) {
        threads.push(t1);
      }
      threads.push(vec![Op::Maint, Op::Maint]);
      Scenario { family, keys: 3, cap: rng.random_range(1..=2), policy: pol(rng), shards, ttl: 0, prefix, adv: 0, threads }
    }
    "clear-ins" => {
      let bounded = rng.random_bool(0.6);
      let prefix = vec![Op::Insert(1, 1), Op::Insert(2, 2)];
      let t0 = vec![Op::Clear, rd(rng, 1)];
      let t1 = vec![Op::Insert(1, rng.random_range(1..=3)), Op::Insert(3, 1)];
      let mut threads = vec![t0, t1];
      if rng.random_bool(0.4) {
        threads.push(vec![Op::OrInsert(2, 1), Op::Remove(1)]);
      }
      threads.push(vec![Op::Maint, Op::Maint]);
      Scenario { family, keys: 3, cap: if bounded { rng.random_range(2..=4) } else { 0 }, policy: if bounded { pol(rng) } else { "default".into() },
        shards, ttl: 0, prefix, adv: 0, threads }
    }
    "overwrite" => {
      let prefix = if rng.random_bool(0.5) { vec![Op::Insert(2, 1)] } else { vec![] };
      let t0 = vec![Op::Insert(1, 1), Op::Insert(1, 3)];
      let t1 = vec![Op::Insert(2, 2), if rng.random_bool(0.5) { Op::Insert(1, 2) } else { Op::Remove(1) }];
      let threads = vec![t0, t1, vec![Op::Maint, Op::Maint, Op::Maint]];
      Scenario { family, keys: 3, cap: rng.random_range(2..=4), policy: pol(rng), shards, ttl: 0, prefix, adv: 0, threads }
    }
    _ => {
      // inval-exp: the entries are already expired when the threads start; the wheel timer of an
      // entry inserted at tick 0 with a TTL of one tick fires on the second maintenance pass
      let bounded = rng.random_bool(0.3);
      let prefix = vec![Op::Insert(1, 1), Op::Insert(2, 1)];
      let k = rng.random_range(1..=2);
      let t0 = vec![if rng.random_bool(0.5) { Op::Remove(k) } else { Op::Invalidate(k) }, rd(rng, k)];
      let t1 = vec![rd(rng, k), if rng.random_bool(0.5) { Op::Insert(k, 1) } else { Op::OrInsert(k, 1) }];
      let mut threads = vec![t0];
      if rng.random_bool(0.6) {
        threads.push(t1);
      }
      threads.push(vec![Op::Maint, Op::Maint, Op::Maint]);
      Scenario { family: "inval-exp", keys: 2, cap: if bounded { 4 } else { 0 }, policy: if bounded { pol(rng) } else { "default".into() },
        shards, ttl: 10, prefix, adv: [9u64, 10, 11][rng.random_range(0..3)], threads }
    }
  }
}

fn build(sc: &Scenario, lis: &Arc<Recorder>, hseed: u64) -> C {
  let mut b = CacheBuilder::<u32, Val, FixedState>::new().hasher(FixedState(hseed)).shards(sc.shards);
  if sc.cap > 0 {
    b = b.capacity(sc.cap);
  }
  let shard_cap = if sc.cap > 0 { sc.cap.div_ceil(sc.shards as u64) } else { 4096 };
  b = match sc.policy.as_str() {
    "tinylfu" => b.cache_policy_factory(move || Box::new(TinyLfuPolicy::new(shard_cap))),
    "lru" => b.cache_policy_factory(|| Box::new(LruPolicy::new())),
    "fifo" => b.cache_policy_factory(|| Box::new(Fifo::new())),
    "sieve" => b.cache_policy_factory(|| Box::new(SievePolicy::new())),
    "slru" => b.cache_policy_factory(move || Box::new(SlruPolicy::new(shard_cap))),
    "arc" => b.cache_policy_factory(move || Box::new(ArcPolicy::new(shard_cap as usize))),
    "clock" => b.cache_policy_factory(|| Box::new(ClockPolicy::new())),
    "random" => b.cache_policy_factory(|| Box::new(RandomPolicy::new())),
    _ => b,
  };
  if sc.ttl > 0 {
    b = b.time_to_live(Duration::from_millis(sc.ttl));
  }
  b.timer_tick_duration(Duration::from_millis(10))
    .timer_wheel_size(60)
    .janitor_tick_interval(Duration::from_millis(5))
    .maintenance_chance(1 << 31)
    .eviction_listener(Listener(lis.clone()))
    .build()
    .expect("build")
}

struct RunOut {
  recs: Vec<String>,
  status: &'static str,
  steps: u64,
}

fn run_one(seed: u64, hid: usize, family: &'static str, strategy: &str, kf: &[String]) -> RunOut {
  let mut rng = StdRng::seed_from_u64(seed);
  let sc = gen_scenario(&mut rng, family);
  clock_set_ms(T0);
  let lis = Arc::new(Recorder::default());
  let cache = build(&sc, &lis, rng.random());
  let log = Arc::new(Log { recs: Mutex::new(Vec::new()), next_o: AtomicU32::new(0), next_w: AtomicU32::new(0) });
  // sequential prefix on the driver thread (not managed: no yield points)
  for op in &sc.prefix {
    exec(&cache, &log, 99, op);
  }
  if sc.adv > 0 {
    clock_advance_ms(sc.adv);
    log.recs.lock().push(json!({"k":"adv","t":clock_now_ms()}));
  }
  let nt = sc.threads.len();
  let strat = match strategy {
    "pct3" => Strategy::Pct { d: 3, k: 400 },
    "pct5" => Strategy::Pct { d: 5, k: 700 },
    _ => Strategy::Random { p: 0.3 },
  };
  let ctl = Ctl::with_spares(nt, 4, seed ^ 0x51ed_270b, strat);
  let dynctl: Arc<dyn Controller> = ctl.clone();
  fibre::verif::set_global(Some(dynctl));
  let mut joins = vec![];
  for (tid, prog) in sc.threads.iter().enumerate() {
    let (c, l, p) = (cache.clone(), log.clone(), prog.clone());
    joins.push(ctl.spawn(tid, hid as u64, move || {
      for op in &p {
        exec(&c, &l, tid, op);
      }
    }));
  }
  let outcome = ctl.run(Duration::from_secs(20));
  let status: &'static str = if !outcome.panics.is_empty() {
    "panic"
  } else if outcome.stuck || outcome.step_limit {
    "inconclusive"
  } else if outcome.all_done {
    "ok"
  } else {
    "blocked"
  };
  // wind down
  ctl.release_all();
  let deadline = Instant::now() + Duration::from_millis(1500);
  for (tid, j) in joins.into_iter().enumerate() {
    loop {
      if j.is_finished() {
        let _ = j.join();
        break;
      }
      if Instant::now() > deadline {
        break;
      }
      ctl.kick(tid);
      std::thread::sleep(Duration::from_millis(2));
    }
  }
  fibre::verif::set_global(None);
  let mut recs = std::mem::take(&mut *log.recs.lock());
  let mut fnotes: Vec<Value> = vec![];
  match status {
    "ok" => {
      // quiescence: what the user can observe now
      let cr = cache.metrics().current_cost as i64;
      let notes = if cache.verif_notify_marker(MARKER_KEY, Val { wid: 0, n: 1 }) { lis.wait_marker(1, Duration::from_secs(10)) } else { Some(vec![]) };
      match notes {
        Some(ns) => {
          fnotes = ns.iter().map(|n| json!([n.0, n.1, n.2, n.3])).collect();
          let view: Vec<Value> = (1..=sc.keys).map(|k| pairv(&cache.peek(&k))).collect();
          recs.push(json!({"k":"final","notes":fnotes,"cr":cr.clamp(-(1 << 30), 1 << 30),"view":view}));
          recs.push(json!({"k":"end"}));
        }
        None => recs.push(json!({"k":"hung","what":"notification marker not delivered"})),
      }
    }
    "blocked" => recs.push(json!({"k":"hung","what":"threads parked with nothing that could wake them","blocked":outcome.blocked})),
    "panic" => recs.push(json!({"k":"panic","msg":format!("{:?}", outcome.panics)})),
    _ => recs.push(json!({"k":"inconclusive","stuck":outcome.stuck,"step_limit":outcome.step_limit})),
  }
  // copy every result into its call record (prophecy field), as in stress.rs
  let mut results: HashMap<u64, Value> = HashMap::new();
  for r in &recs {
    if r["k"] == "ret" {
      results.insert(r["o"].as_u64().unwrap(), r["p"].clone());
    }
  }
  let mut out = vec![json!({"k":"new","kf":kf,"hid":hid,"profile":"sched","family":sc.family,"strategy":strategy,"keys":sc.keys,"shards":sc.shards,
    "threads":nt,"policy":sc.policy,"cap":sc.cap,"ttl":sc.ttl,"tti":0,"grace":0,"tick": if sc.ttl > 0 { 10 } else { 0 },"t":T0,
    "fnotes":fnotes,"seed":(seed % 1_000_000_000) as u32,"steps":outcome.steps}).to_string()];
  for mut r in recs {
    if r["k"] == "call" {
      let o = r["o"].as_u64().unwrap();
      let done = match results.get(&o) {
        Some(p) => {
          let m = r.as_object_mut().unwrap();
          for (k, v) in p.as_object().unwrap() {
            m.insert(k.clone(), v.clone());
          }
          true
        }
        None => false,
      };
      r.as_object_mut().unwrap().insert("done".into(), json!(done));
    } else if r["k"] == "ret" {
      r.as_object_mut().unwrap().remove("p");
    }
    out.push(r.to_string());
  }
  drop(cache);
  RunOut { recs: out, status, steps: outcome.steps }
}

pub const FAMILIES: &[&str] = &["rmw", "rm-evict", "clear-ins", "overwrite", "inval-exp"];

pub fn run(m: &HashMap<String, String>) {
  let get = |k: &str, d: u64| m.get(k).and_then(|v| v.parse().ok()).unwrap_or(d);
  let list = |k: &str, d: &str| -> Vec<String> { m.get(k).map(|s| s.as_str()).unwrap_or(d).split(',').filter(|s| !s.is_empty()).map(|s| s.to_string()).collect() };
  let seed = get("seed", 1);
  let scenarios = get("scenarios", 50) as usize;
  let families = list("families", "rmw,rm-evict,clear-ins,overwrite,inval-exp");
  let strategies = list("strategies", "random,pct3,pct5");
  let kf = list("kf", "");
  let outp = m.get("out").cloned().unwrap_or_else(|| "/dev/stdout".into());
  let mut file = std::io::BufWriter::new(std::fs::File::create(&outp).expect("out file"));
  let mut master = StdRng::seed_from_u64(seed);
  std::panic::set_hook(Box::new(|_| {}));
  let t0 = Instant::now();
  let mut by_status: HashMap<&'static str, usize> = HashMap::new();
  let mut by_family: HashMap<String, usize> = HashMap::new();
  let (mut records, mut steps) = (0usize, 0u64);
  let only = m.get("only").and_then(|v| v.parse::<usize>().ok());
  for i in 0..scenarios {
    let hseed: u64 = master.random();
    if only.is_some() && only != Some(i) {
      continue;
    }
    let fam = FAMILIES.iter().copied().find(|f| *f == families[i % families.len()]).unwrap_or("rmw");
    let strat = &strategies[(i / families.len()) % strategies.len()];
    let r = run_one(hseed, i, fam, strat, &kf);
    *by_status.entry(r.status).or_default() += 1;
    *by_family.entry(fam.to_string()).or_default() += 1;
    records += r.recs.len();
    steps += r.steps;
    for l in r.recs {
      writeln!(file, "{}", l).unwrap();
    }
  }
  file.flush().unwrap();
  println!("{}", json!({"driver":"cache-sched","seed":seed,"histories":scenarios,"records":records,"status":by_status,"families":by_family,
    "sched_steps":steps,"wall_ms":t0.elapsed().as_millis() as u64}));
}
