//! Small runtime pieces shared by the cache drivers: the value type (tagged with a
//! unique write id), a deterministic hasher, the recording eviction listener, a
//! trivial executor / spawner, and the virtual clock.

use fibre_cache::{EvictionListener, EvictionReason, TaskSpawner};
use parking_lot::{Condvar, Mutex};
use serde::{Deserialize, Serialize};
use std::future::Future;
use std::hash::{BuildHasher, Hasher};
use std::pin::{pin, Pin};
use std::sync::atomic::{AtomicU32, Ordering};
use std::sync::Arc;
use std::task::{Context, Poll, Wake, Waker};
use std::thread;
use std::time::{Duration, Instant};

// ---- values ------------------------------------------------------------------

/// wid: id of the write (insert / load) that created the value; n: number of
/// successful compute steps applied to it since.
#[derive(Clone, Debug, Serialize, Deserialize, PartialEq, Eq)]
pub struct Val {
  pub wid: u32,
  pub n: u32,
}

/// write id used by the next `V::default()` (entry().or_default)
pub static DEFAULT_WID: AtomicU32 = AtomicU32::new(0);

impl Default for Val {
  fn default() -> Self {
    Val { wid: DEFAULT_WID.load(Ordering::SeqCst), n: 0 }
  }
}

// ---- hasher ------------------------------------------------------------------

#[derive(Clone, Default, Debug)]
pub struct FixedState(pub u64);

pub struct FixedHasher(u64);

fn splitmix(mut z: u64) -> u64 {
  z = z.wrapping_add(0x9E37_79B9_7F4A_7C15);
  z = (z ^ (z >> 30)).wrapping_mul(0xBF58_476D_1CE4_E5B9);
  z = (z ^ (z >> 27)).wrapping_mul(0x94D0_49BB_1331_11EB);
  z ^ (z >> 31)
}

impl BuildHasher for FixedState {
  type Hasher = FixedHasher;
  fn build_hasher(&self) -> FixedHasher {
    FixedHasher(splitmix(self.0))
  }
}

impl Hasher for FixedHasher {
  fn write(&mut self, bytes: &[u8]) {
    for b in bytes {
      self.0 = splitmix(self.0 ^ *b as u64);
    }
  }
  fn write_u32(&mut self, x: u32) {
    self.0 = splitmix(self.0 ^ x as u64);
  }
  fn finish(&self) -> u64 {
    splitmix(self.0)
  }
}

// ---- listener ------------------------------------------------------------------

pub const MARKER_KEY: u32 = u32::MAX;

pub type Note = (u32, u32, u32, &'static str);

#[derive(Default)]
struct LInner {
  notes: Vec<Note>,
  marker: u32,
}

#[derive(Default)]
pub struct Recorder {
  inner: Mutex<LInner>,
  cv: Condvar,
}

pub struct Listener(pub Arc<Recorder>);

pub fn reason_str(r: EvictionReason) -> &'static str {
  match r {
    EvictionReason::Capacity => "Capacity",
    EvictionReason::Expired => "Expired",
    EvictionReason::Invalidated => "Invalidated",
  }
}

impl EvictionListener<u32, Val> for Listener {
  fn on_evict(&self, key: u32, value: Arc<Val>, reason: EvictionReason) {
    let mut g = self.0.inner.lock();
    if key == MARKER_KEY {
      g.marker = value.n;
      self.0.cv.notify_all();
    } else {
      g.notes.push((key, value.wid, value.n, reason_str(reason)));
    }
  }
}

impl Recorder {
  /// Waits until the marker `seq` came through; returns the notifications seen so far.
  pub fn wait_marker(&self, seq: u32, timeout: Duration) -> Option<Vec<Note>> {
    let deadline = Instant::now() + timeout;
    let mut g = self.inner.lock();
    while g.marker != seq {
      if self.cv.wait_until(&mut g, deadline).timed_out() && g.marker != seq {
        return None;
      }
    }
    Some(std::mem::take(&mut g.notes))
  }
  pub fn take(&self) -> Vec<Note> {
    std::mem::take(&mut self.inner.lock().notes)
  }
}

// ---- executor ------------------------------------------------------------------

struct ThreadWaker(thread::Thread);
impl Wake for ThreadWaker {
  fn wake(self: Arc<Self>) {
    self.0.unpark()
  }
  fn wake_by_ref(self: &Arc<Self>) {
    self.0.unpark()
  }
}

/// Polls the future on the calling thread; the futures of the cache complete
/// without a reactor (locks, the load future woken by the loader task).
pub fn block_on<F: Future>(f: F) -> F::Output {
  let mut f = pin!(f);
  let waker = Waker::from(Arc::new(ThreadWaker(thread::current())));
  let mut cx = Context::from_waker(&waker);
  loop {
    match f.as_mut().poll(&mut cx) {
      Poll::Ready(v) => return v,
      Poll::Pending => thread::park_timeout(Duration::from_millis(20)),
    }
  }
}

/// Runs every spawned task on its own thread.
pub struct ThreadSpawner;
impl TaskSpawner for ThreadSpawner {
  fn spawn(&self, future: Pin<Box<dyn Future<Output = ()> + Send>>) {
    thread::spawn(move || block_on(future));
  }
}

// ---- virtual clock (milliseconds) ------------------------------------------------

pub fn clock_set_ms(ms: u64) {
  fibre_cache::verif::freeze_clock(true);
  fibre::verif::set_clock_offset_nanos(ms * 1_000_000);
}

pub fn clock_advance_ms(ms: u64) {
  fibre::verif::advance_clock_nanos(ms * 1_000_000);
}

pub fn clock_now_ms() -> u64 {
  fibre::verif::clock_offset_nanos() / 1_000_000
}
