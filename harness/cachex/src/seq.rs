//! cache-seq: random sequential histories over the whole public API of one cache
//! (sync and async handle of the same cache), with a frozen virtual clock, explicit
//! maintenance, a recording eviction listener, snapshots and restores.
//!
//! The driver is the user: it logs arguments, results, the notifications the listener
//! saw, the reported `current_cost` and a `peek` of every key after each step.  It never
//! computes what the results should have been.

use crate::rt::*;
use fibre_cache::error::ComputeResult;
use fibre_cache::policy::{
  arc::ArcPolicy, clock::ClockPolicy, fifo::Fifo, lru::LruPolicy, random::RandomPolicy, sieve::SievePolicy,
  slru::SlruPolicy, tinylfu::TinyLfuPolicy,
};
use fibre_cache::snapshot::CacheSnapshot;
use fibre_cache::{AsyncCache, Cache, CacheBuilder};
use futures_util::StreamExt;
use parking_lot::Mutex;
use rand::rngs::StdRng;
use rand::{Rng, SeedableRng};
use serde_json::{json, Map, Value};
use std::sync::atomic::{AtomicBool, AtomicU32, Ordering};
use std::sync::Arc;
use std::time::{Duration, Instant};

pub type Out = Arc<Mutex<Vec<String>>>;

/// what the driver is about to call (named in the `hung` record when a call never returns)
pub static CURRENT_OP: Mutex<String> = Mutex::new(String::new());
fn mark(s: String) {
  *CURRENT_OP.lock() = s;
}
type C = Cache<u32, Val, FixedState>;
type AC = AsyncCache<u32, Val, FixedState>;

pub const POLICIES: &[&str] = &["tinylfu", "lru", "fifo", "sieve", "slru", "arc", "clock", "random"];
pub const T0: u64 = 100_000;

#[derive(Clone, Debug)]
pub struct Cfg {
  pub profile: String,
  pub keys: u32,
  pub shards: usize,
  pub policy: String, // "default" = builder's choice
  pub cap: u64,       // 0 = unbounded
  pub ttl: u64,
  pub tti: u64,
  pub grace: u64,
  pub tick: u64,
  pub wheel: usize,
  pub loader: u8, // 0 none, 1 sync, 2 async
  pub mchance: bool,
  pub moi: bool,
  pub paced: bool,
  pub hseed: u64,
  pub costs: Vec<u64>,
  pub ops: usize,
  pub kf: Vec<String>,
}

struct Shared {
  lis: Arc<Recorder>,
  loads: Arc<Mutex<Vec<(u32, u32, u64)>>>,
  next_wid: Arc<AtomicU32>,
}

fn make_builder(cfg: &Cfg, sh: &Shared, hseed: u64) -> CacheBuilder<u32, Val, FixedState> {
  let mut b = CacheBuilder::<u32, Val, FixedState>::new().hasher(FixedState(hseed)).shards(cfg.shards);
  if cfg.cap > 0 {
    b = b.capacity(cfg.cap);
  }
  // (an unbounded cache gets a policy whose own capacity is far above anything a history stores, so
  // that the policy never evicts on admission; not huge either: TinyLFU sizes its sketch by it)
  let shard_cap = if cfg.cap > 0 { cfg.cap.div_ceil(cfg.shards as u64) } else { 4096 };
  b = match cfg.policy.as_str() {
    "tinylfu" => b.cache_policy_factory(move || Box::new(TinyLfuPolicy::new(shard_cap))),
    "lru" => b.cache_policy_factory(|| Box::new(LruPolicy::new())),
    "fifo" => b.cache_policy_factory(|| Box::new(Fifo::new())),
    "sieve" => b.cache_policy_factory(|| Box::new(SievePolicy::new())),
    "slru" => b.cache_policy_factory(move || Box::new(SlruPolicy::new(shard_cap))),
    "arc" => b.cache_policy_factory(move || Box::new(ArcPolicy::new(shard_cap as usize))),
    "clock" => b.cache_policy_factory(|| Box::new(ClockPolicy::new())),
    "random" => b.cache_policy_factory(|| Box::new(RandomPolicy::new())),
    _ => b,
  };
  if cfg.ttl > 0 {
    b = b.time_to_live(Duration::from_millis(cfg.ttl));
  }
  if cfg.tti > 0 {
    b = b.time_to_idle(Duration::from_millis(cfg.tti));
  }
  if cfg.loader > 0 {
    let loads = sh.loads.clone();
    let nw = sh.next_wid.clone();
    let costs = cfg.costs.clone();
    let f = move |k: u32| {
      let w = nw.fetch_add(1, Ordering::SeqCst) + 1;
      let c = costs[(w as usize) % costs.len()];
      loads.lock().push((k, w, c));
      (Val { wid: w, n: 0 }, c)
    };
    if cfg.loader == 1 {
      b = b.loader(f);
    } else {
      b = b.async_loader(move |k| {
        let r = f(k);
        async move { r }
      });
      b = b.spawner(Arc::new(ThreadSpawner));
    }
    if cfg.grace > 0 {
      b = b.stale_while_revalidate(Duration::from_millis(cfg.grace));
    }
  }
  b = b
    .timer_tick_duration(Duration::from_millis(cfg.tick))
    .timer_wheel_size(cfg.wheel)
    .janitor_tick_interval(if cfg.mchance { Duration::from_secs(20) } else { Duration::from_millis(5) })
    .maintenance_chance(if cfg.mchance { 1 } else { 1 << 31 })
    .maintenance_on_introspection(cfg.moi)
    .eviction_listener(Listener(sh.lis.clone()));
  b
}

pub fn random_cfg(rng: &mut StdRng, profile: &str, ops: usize, kf: &[String]) -> Cfg {
  let pick = |rng: &mut StdRng, v: &[u64]| v[rng.random_range(0..v.len())];
  let mut c = Cfg {
    profile: profile.to_string(),
    keys: rng.random_range(4..=8),
    shards: [1usize, 2, 4][rng.random_range(0..3)],
    policy: "default".into(),
    cap: 0,
    ttl: 0,
    tti: 0,
    grace: 0,
    tick: 10,
    wheel: if rng.random_bool(0.5) { 4 } else { 60 },
    loader: 0,
    mchance: rng.random_bool(0.25),
    moi: rng.random_bool(0.2),
    paced: rng.random_bool(0.5),
    hseed: rng.random(),
    costs: vec![1],
    ops,
    kf: kf.to_vec(),
  };
  let bounded = match profile {
    "ttl" => rng.random_bool(0.25),
    "cap" | "burst" => true,
    _ => rng.random_bool(0.6),
  };
  if bounded {
    c.cap = pick(rng, &[3, 4, 6, 10, 16]);
    c.policy = if rng.random_bool(0.15) { "default".into() } else { POLICIES[rng.random_range(0..POLICIES.len())].into() };
    c.costs = match rng.random_range(0..4) {
      0 => vec![1],
      1 => vec![1, 2, 3],
      2 => vec![0, 1, 2, 5],
      _ => vec![1, 2, c.cap, c.cap + 1, c.cap + 3],
    };
  } else {
    c.costs = vec![1, 2, 3];
    if rng.random_bool(0.15) {
      c.policy = POLICIES[rng.random_range(0..POLICIES.len())].into();
    }
  }
  let timed = match profile {
    "ttl" => true,
    "cap" => rng.random_bool(0.2),
    "burst" => false,
    _ => rng.random_bool(0.55),
  };
  if timed {
    // the ttl profile combines a TTL with an idle timeout more often (each read path checks both deadlines)
    let r = rng.random_range(0..4);
    let r = if profile == "ttl" && r == 3 && rng.random_bool(0.6) { 2 } else { r };
    match r {
      0 => c.ttl = pick(rng, &[10, 20, 30, 50, 15, 25, 12, 23, 44]),
      1 => c.tti = pick(rng, &[10, 20, 40, 15]),
      2 => {
        c.ttl = pick(rng, &[20, 30, 50, 80]);
        c.tti = pick(rng, &[10, 20, 40]);
      }
      _ => {} // only per-insert TTLs
    }
  }
  if rng.random_bool(if profile == "ttl" { 0.5 } else { 0.3 }) && profile != "burst" {
    c.loader = if rng.random_bool(0.5) { 1 } else { 2 };
    if c.ttl > 0 && rng.random_bool(0.7) {
      c.grace = pick(rng, &[10, 20, 30]);
    }
  }
  if profile == "iter" {
    c.keys = [5u32, 8, 12, 40, 70][rng.random_range(0..5)];
    if c.cap > 0 {
      c.cap = c.cap.max(c.keys as u64 / 2);
    }
  }
  if profile == "burst" {
    c.keys = 600;
    c.cap = 10;
    c.costs = vec![1];
    c.shards = 1;
    c.mchance = false;
    c.moi = false;
    c.paced = false;
    c.policy = POLICIES[rng.random_range(0..POLICIES.len())].into();
  }
  c
}

pub struct Sim {
  rng: StdRng,
  cfg: Cfg,
  sh: Shared,
  cache: C,
  ac: AC,
  out: Out,
  marker_seq: u32,
  writes_since_quiet: usize,
  deadlines: Vec<u64>,
  /// notifications of the previous cache collected just before a restore
  carry_notes: Vec<Note>,
  last_rec: Instant,
  pub aborted: bool,
}

/// current_cost is an unsigned counter that the library decrements without checks: report it
/// as a signed number so that an underflow is visible (clamped to +-2^30 for TLC's integers).
fn signed_cost(c: u64) -> i64 {
  (c as i64).clamp(-(1 << 30), 1 << 30)
}

fn pair(v: &Option<Arc<Val>>) -> Value {
  match v {
    Some(v) => json!([v.wid, v.n]),
    None => json!([0, 0]),
  }
}

impl Sim {
  pub fn new(cfg: Cfg, seed: u64, hid: usize, out: Out) -> Sim {
    clock_set_ms(T0);
    let sh = Shared {
      lis: Arc::new(Recorder::default()),
      loads: Arc::new(Mutex::new(Vec::new())),
      next_wid: Arc::new(AtomicU32::new(0)),
    };
    let cache = make_builder(&cfg, &sh, cfg.hseed).build().expect("build");
    let ac = cache.to_async();
    let s = Sim {
      rng: StdRng::seed_from_u64(seed),
      cfg,
      sh,
      cache,
      ac,
      out,
      marker_seq: 0,
      writes_since_quiet: 0,
      deadlines: Vec::new(),
      carry_notes: Vec::new(),
      last_rec: Instant::now(),
      aborted: false,
    };
    let c = &s.cfg;
    s.push(json!({"k":"new","kf":c.kf,"profile":c.profile,"keys":c.keys,"shards":c.shards,"policy":c.policy,"cap":c.cap,
      "ttl":c.ttl,"tti":c.tti,"grace":c.grace,"tick":c.tick,"wheel":c.wheel,"loader":c.loader,"mchance":c.mchance,
      "moi":c.moi,"paced":c.paced,"t":T0,"seed":(seed % 1_000_000_000) as u32,"hid":hid}));
    s
  }

  fn push(&self, v: Value) {
    self.out.lock().push(v.to_string());
  }

  fn wid(&mut self) -> u32 {
    self.sh.next_wid.fetch_add(1, Ordering::SeqCst) + 1
  }
  fn key(&mut self) -> u32 {
    self.rng.random_range(1..=self.cfg.keys)
  }
  fn cost(&mut self) -> u64 {
    self.cfg.costs[self.rng.random_range(0..self.cfg.costs.len())]
  }
  fn asyn(&mut self) -> bool {
    // async inserts only signal the janitor when opportunistic maintenance is on; keep
    // those configurations on the sync handle so nothing runs behind the driver's back
    self.rng.random_bool(0.4)
  }
  fn h(a: bool) -> &'static str {
    if a { "a" } else { "s" }
  }

  fn drain(&mut self) -> Option<Vec<Note>> {
    self.marker_seq += 1;
    let seq = self.marker_seq;
    if !self.cache.verif_notify_marker(MARKER_KEY, Val { wid: 0, n: seq }) {
      return Some(self.sh.lis.take());
    }
    self.sh.lis.wait_marker(seq, Duration::from_secs(10))
  }

  fn view(&self) -> Value {
    Value::Array((1..=self.cfg.keys).map(|k| pair(&self.cache.peek(&k))).collect())
  }

  /// Completes a step record with the common observations and writes it.
  fn finish(&mut self, mut rec: Value, with_view: bool) {
    let done = std::mem::take(&mut *CURRENT_OP.lock());
    mark(format!("metrics / notification marker / peek after: {done}"));
    let cr = self.cache.metrics().current_cost;
    let notes = match self.drain() {
      Some(n) => n,
      None => {
        self.push(rec);
        self.push(json!({"k":"hung","what":"notification marker not delivered"}));
        self.aborted = true;
        return;
      }
    };
    let m = rec.as_object_mut().unwrap();
    m.insert("t".into(), json!(clock_now_ms()));
    if std::env::var("FV_TIMING").is_ok() {
      // debugging aid: real milliseconds since the previous record (makes the output non-deterministic)
      let el = self.last_rec.elapsed().as_millis() as u64;
      self.last_rec = Instant::now();
      m.insert("real_ms".into(), json!(el));
    }
    m.insert("cr".into(), json!(signed_cost(cr)));
    let mut all = std::mem::take(&mut self.carry_notes);
    all.extend(notes);
    m.insert("notes".into(), json!(all.iter().map(|n| json!([n.0, n.1, n.2, n.3])).collect::<Vec<_>>()));
    if with_view {
      m.insert("view".into(), self.view());
    }
    self.push(rec);
  }

  fn want_view(&mut self) -> bool {
    self.cfg.keys <= 12 || self.rng.random_bool(0.12)
  }

  fn step_done(&mut self, rec: Value) {
    let v = self.want_view();
    self.finish(rec, v);
  }

  fn note_deadline(&mut self, dt: u64) {
    if dt > 0 {
      let t = clock_now_ms() + dt;
      self.deadlines.push(t);
      if self.cfg.grace > 0 {
        self.deadlines.push(t + self.cfg.grace);
      }
      if self.deadlines.len() > 24 {
        self.deadlines.remove(0);
      }
    }
  }
  fn after_write(&mut self, ttl: u64) {
    self.writes_since_quiet += 1;
    self.note_deadline(if ttl > 0 { ttl } else { self.cfg.ttl });
    self.note_deadline(self.cfg.tti);
  }

  // ---- steps ---------------------------------------------------------------

  fn advance(&mut self, dt: u64) {
    clock_advance_ms(dt);
    self.step_done(json!({"k":"adv","dt":dt}));
  }

  fn step_adv(&mut self) {
    let now = clock_now_ms();
    let fut: Vec<u64> = self.deadlines.iter().copied().filter(|d| *d + 1 > now).collect();
    let dt = if !fut.is_empty() && self.rng.random_bool(0.75) {
      let d = fut[self.rng.random_range(0..fut.len())];
      let target = match self.rng.random_range(0..3) {
        0 => d.saturating_sub(1),
        1 => d,
        _ => d + 1,
      };
      target.saturating_sub(now)
    } else {
      [1, 3, self.cfg.tick, self.cfg.tick + 1, 2 * self.cfg.tick][self.rng.random_range(0..5)]
    };
    if dt > 0 {
      self.advance(dt);
    }
  }

  fn maint(&mut self) {
    if self.cfg.paced {
      self.advance(self.cfg.tick);
      if self.aborted {
        return;
      }
    }
    let a = self.asyn();
    mark(format!("run_maintenance async={a}"));
    if a {
      block_on(self.ac.run_maintenance());
    } else {
      self.cache.run_maintenance();
    }
    let v = self.cfg.keys <= 100;
    self.finish(json!({"k":"maint","h":Self::h(a)}), v);
  }

  /// run_maintenance until the reported metrics and the content stop changing.  While the reported
  /// cost is still above the capacity a user keeps calling (a pass may spend itself on keys the
  /// policy still tracks although they left the map, which changes no metric); the number of
  /// calls is bounded by the writes since the last quiescence.
  fn quiet(&mut self) {
    let min_calls = self.writes_since_quiet / 16 + 2;
    let max_calls = min_calls + 12 + self.writes_since_quiet.min(48);
    let mut calls = 0;
    let mut stable = 0;
    let mut last = String::new();
    while calls < max_calls && !self.aborted {
      self.maint();
      calls += 1;
      let m = self.cache.metrics();
      let sig = format!("{} {} {} {} {} {}", m.current_cost, m.evicted_by_capacity, m.evicted_by_ttl, m.evicted_by_tti,
        m.keys_admitted, self.view());
      if sig == last {
        stable += 1;
      } else {
        stable = 0;
      }
      last = sig;
      let over = self.cfg.cap > 0 && m.current_cost > self.cfg.cap;
      if calls >= min_calls && stable >= 2 && !over {
        break;
      }
    }
    if self.aborted {
      return;
    }
    self.writes_since_quiet = 0;
    self.finish(json!({"k":"quiet","calls":calls,"stable":stable >= 2}), true);
  }

  fn insert(&mut self) {
    let (k, w, c, a) = (self.key(), self.wid(), self.cost(), self.asyn() && !self.cfg.mchance);
    let with_ttl = self.rng.random_bool(if self.cfg.profile == "ttl" { 0.35 } else { 0.15 });
    let ttl = if with_ttl { [5u64, 10, 25, 60, 14, 33][self.rng.random_range(0..6)] } else { 0 };
    let v = Val { wid: w, n: 0 };
    mark(format!("insert key={k} wid={w} cost={c} ttl={ttl} async={a}"));
    match (a, with_ttl) {
      (false, false) => self.cache.insert(k, v, c),
      (false, true) => self.cache.insert_with_ttl(k, v, c, Duration::from_millis(ttl)),
      (true, false) => block_on(self.ac.insert(k, v, c)),
      (true, true) => block_on(self.ac.insert_with_ttl(k, v, c, Duration::from_millis(ttl))),
    }
    self.after_write(ttl);
    self.step_done(json!({"k":"ins","api": if with_ttl {"insert_with_ttl"} else {"insert"},"h":Self::h(a),"key":k,"wid":w,"cost":c,"ttl":ttl}));
  }

  fn multi_insert(&mut self) {
    let n = self.rng.random_range(1..=4);
    let a = self.asyn();
    let items: Vec<(u32, u32, u64)> = (0..n).map(|_| (self.key(), self.wid(), self.cost())).collect();
    let arg: Vec<(u32, Val, u64)> = items.iter().map(|(k, w, c)| (*k, Val { wid: *w, n: 0 }, *c)).collect();
    mark(format!("multi_insert {items:?} async={a}"));
    if a {
      block_on(self.ac.multi_insert(arg));
    } else {
      self.cache.multi_insert(arg);
    }
    for _ in 0..n {
      self.after_write(0);
    }
    self.step_done(json!({"k":"mins","h":Self::h(a),"items":items.iter().map(|(k,w,c)| json!([k,w,c])).collect::<Vec<_>>()}));
  }

  fn remove(&mut self) {
    let (k, a) = (self.key(), self.asyn());
    mark(format!("remove/invalidate key={k} async={a}"));
    if self.rng.random_bool(0.5) {
      let r = if a { block_on(self.ac.remove(&k)) } else { self.cache.remove(&k) };
      let rec = json!({"k":"rem","api":"remove","h":Self::h(a),"key":k,"hit":r.is_some(),"res":pair(&r)});
      drop(r);
      self.step_done(rec);
    } else {
      let r = if a { block_on(self.ac.invalidate(&k)) } else { self.cache.invalidate(&k) };
      self.step_done(json!({"k":"rem","api":"invalidate","h":Self::h(a),"key":k,"hit":r,"res":[0,0]}));
    }
  }

  fn multi_remove(&mut self) {
    let n = self.rng.random_range(1..=4);
    let a = self.asyn();
    let keys: Vec<u32> = (0..n).map(|_| self.key()).collect();
    mark(format!("multi_remove/multi_invalidate {keys:?} async={a}"));
    if self.rng.random_bool(0.6) {
      let r = if a { block_on(self.ac.multi_remove(keys.clone())) } else { self.cache.multi_remove(keys.clone()) };
      let res: Vec<Value> = r.iter().map(|(k, v)| json!([k, v.wid, v.n])).collect();
      drop(r);
      self.step_done(json!({"k":"mrem","api":"multi_remove","h":Self::h(a),"keys":keys,"res":res,"nores":false}));
    } else {
      if a {
        block_on(self.ac.multi_invalidate(keys.clone()))
      } else {
        self.cache.multi_invalidate(keys.clone())
      }
      self.step_done(json!({"k":"mrem","api":"multi_invalidate","h":Self::h(a),"keys":keys,"res":[],"nores":true}));
    }
  }

  fn clear(&mut self) {
    let a = self.asyn();
    mark(format!("clear async={a}"));
    if a {
      block_on(self.ac.clear())
    } else {
      self.cache.clear()
    }
    self.step_done(json!({"k":"clear","h":Self::h(a)}));
  }

  fn compute(&mut self) {
    let (k, a) = (self.key(), self.asyn());
    let api = ["compute", "try_compute", "compute_val", "try_compute_val"][self.rng.random_range(0..4)];
    let mut val = json!([0, 0]);
    mark(format!("{api} key={k} async={a}"));
    let res = match api {
      "compute" => {
        let r = if a { block_on(self.ac.compute(&k, |v| v.n += 1)) } else { self.cache.compute(&k, |v| v.n += 1) };
        if r { "ok" } else { "nf" }
      }
      "try_compute" => {
        let r = if a { block_on(self.ac.try_compute(&k, |v| v.n += 1)) } else { self.cache.try_compute(&k, |v| v.n += 1) };
        match r {
          Some(true) => "ok",
          Some(false) => "fail",
          None => "nf",
        }
      }
      _ => {
        let f = |v: &mut Val| {
          v.n += 1;
          (v.wid, v.n)
        };
        let r = match (api, a) {
          ("compute_val", false) => self.cache.compute_val(&k, f),
          ("compute_val", true) => block_on(self.ac.compute_val(&k, f)),
          (_, false) => self.cache.try_compute_val(&k, f),
          (_, true) => block_on(self.ac.try_compute_val(&k, f)),
        };
        match r {
          ComputeResult::Ok((w, n)) => {
            val = json!([w, n]);
            "ok"
          }
          ComputeResult::Fail => "fail",
          ComputeResult::NotFound => "nf",
        }
      }
    };
    self.step_done(json!({"k":"comp","api":api,"h":Self::h(a),"key":k,"res":res,"val":val,"hasval":api.ends_with("_val")}));
  }

  fn entry(&mut self) {
    let (k, w, c, a) = (self.key(), self.wid(), self.cost(), self.asyn());
    let api = ["or_insert", "or_insert_with", "or_default"][self.rng.random_range(0..3)];
    let called = AtomicBool::new(false);
    let v = Val { wid: w, n: 0 };
    DEFAULT_WID.store(w, Ordering::SeqCst);
    mark(format!("entry().{api} key={k} wid={w} cost={c} async={a}"));
    let mk = || {
      called.store(true, Ordering::SeqCst);
      Val { wid: w, n: 0 }
    };
    let r = match (api, a) {
      ("or_insert", false) => self.cache.entry(k).or_insert(v, c),
      ("or_insert", true) => block_on(self.ac.entry(k)).or_insert(v, c),
      ("or_insert_with", false) => self.cache.entry(k).or_insert_with(mk, c),
      ("or_insert_with", true) => block_on(self.ac.entry(k)).or_insert_with(mk, c),
      (_, false) => self.cache.entry(k).or_default(c),
      (_, true) => block_on(self.ac.entry(k)).or_default(c),
    };
    let res = json!([r.wid, r.n]);
    drop(r);
    self.after_write(0);
    self.step_done(json!({"k":"ent","api":api,"h":Self::h(a),"key":k,"wid":w,"cost":c,"res":res,
      "called":called.load(Ordering::SeqCst),"lazy":api == "or_insert_with"}));
  }

  fn read(&mut self) {
    let (k, a) = (self.key(), self.asyn());
    let api = ["get", "fetch", "peek"][self.rng.random_range(0..3)];
    mark(format!("{api} key={k} async={a}"));
    let res = match (api, a) {
      ("get", false) => self.cache.get(&k, |v| json!([v.wid, v.n])).unwrap_or(json!([0, 0])),
      ("get", true) => block_on(self.ac.get(&k, |v| json!([v.wid, v.n]))).unwrap_or(json!([0, 0])),
      ("fetch", false) => pair(&self.cache.fetch(&k)),
      ("fetch", true) => pair(&block_on(self.ac.fetch(&k))),
      (_, false) => pair(&self.cache.peek(&k)),
      (_, true) => pair(&block_on(self.ac.peek(&k))),
    };
    self.note_deadline(self.cfg.tti);
    self.step_done(json!({"k":"rd","api":api,"h":Self::h(a),"key":k,"res":res}));
  }

  fn multiget(&mut self) {
    let n = self.rng.random_range(1..=5);
    let a = self.asyn();
    let keys: Vec<u32> = (0..n).map(|_| self.key()).collect();
    mark(format!("multiget {keys:?} async={a}"));
    let r = if a { block_on(self.ac.multiget::<_, u32>(keys.clone())) } else { self.cache.multiget::<_, u32>(keys.clone()) };
    let mut res: Vec<(u32, u32, u32)> = r.iter().map(|(k, v)| (*k, v.wid, v.n)).collect();
    drop(r);
    res.sort();
    self.step_done(json!({"k":"mget","h":Self::h(a),"keys":keys,"res":res.iter().map(|x| json!([x.0,x.1,x.2])).collect::<Vec<_>>()}));
  }

  fn fetch_with(&mut self) {
    let (k, a) = (self.key(), self.asyn());
    self.fetch_with_key(k, a)
  }

  fn fetch_with_key(&mut self, k: u32, a: bool) {
    self.sh.loads.lock().clear();
    mark(format!("fetch_with key={k} async={a}"));
    let r = if a { block_on(self.ac.fetch_with(&k)) } else { self.cache.fetch_with(&k) };
    let res = json!([r.wid, r.n]);
    drop(r);
    // a stale hit starts a background refresh: wait (bounded) until no load is in flight
    let t_end = Instant::now() + Duration::from_secs(5);
    let mut seen = true;
    while self.cache.verif_pending_loads() > 0 {
      if Instant::now() > t_end {
        seen = false;
        break;
      }
      std::thread::sleep(Duration::from_micros(50));
    }
    std::thread::sleep(Duration::from_micros(150)); // let the loader task finish its bookkeeping
    let loads = self.sh.loads.lock().clone();
    for _ in &loads {
      self.after_write(0);
    }
    self.step_done(json!({"k":"fw","h":Self::h(a),"key":k,"res":res,"seen":seen,
      "loads":loads.iter().map(|(k,w,c)| json!([k,w,c])).collect::<Vec<_>>()}));
  }

  fn iterate(&mut self) {
    let api = ["iter", "iter_bs", "iter_snapshot", "stream", "stream_bs", "iter_snapshot_async"][self.rng.random_range(0..6)];
    let n = self.cfg.keys as usize;
    let bs = match self.rng.random_range(0..8) {
      0 => 1,
      1 => 2,
      2 => 3,
      3 => n.saturating_sub(1).max(1),
      4 => n,
      5 => n + 1,
      6 => n / self.cfg.shards.max(1) + 1,
      _ => self.rng.random_range(1..=n + 2),
    };
    let t0 = clock_now_ms();
    // entries may expire between batches: advance the clock after some items
    let timed = self.cfg.ttl > 0 || self.cfg.tti > 0 || !self.deadlines.is_empty();
    let adv_at: Option<(usize, u64)> = if timed && self.rng.random_bool(0.4) {
      Some((self.rng.random_range(0..=n), [1, self.cfg.tick, 2 * self.cfg.tick, 25][self.rng.random_range(0..4)]))
    } else {
      None
    };
    let mut items: Vec<(u32, u32, u32)> = Vec::new();
    mark(format!("{api} batch={bs} advance={adv_at:?}"));
    let tick = |items: &Vec<(u32, u32, u32)>| {
      if let Some((at, dt)) = adv_at {
        if items.len() == at {
          clock_advance_ms(dt);
        }
      }
    };
    match api {
      "iter" | "iter_bs" => {
        let mut it = if api == "iter" { self.cache.iter() } else { self.cache.iter_with_batch_size(bs) };
        loop {
          tick(&items);
          match it.next() {
            Some((k, v)) => items.push((k, v.wid, v.n)),
            None => break,
          }
          if items.len() > 4 * n + 8 {
            break;
          }
        }
      }
      "iter_snapshot" => {
        let mut it = self.cache.iter_snapshot();
        loop {
          tick(&items);
          match it.next() {
            Some((k, v)) => items.push((k, v.wid, v.n)),
            None => break,
          }
          if items.len() > 4 * n + 8 {
            break;
          }
        }
      }
      "stream" | "stream_bs" => {
        let mut st = if api == "stream" { self.ac.iter_stream() } else { self.ac.iter_stream_with_batch_size(bs) };
        loop {
          tick(&items);
          match block_on(st.next()) {
            Some((k, v)) => items.push((k, v.wid, v.n)),
            None => break,
          }
          if items.len() > 4 * n + 8 {
            break;
          }
        }
      }
      _ => {
        let mut it = self.ac.iter_snapshot_async();
        loop {
          tick(&items);
          match block_on(it.next()) {
            Some((k, v)) => items.push((k, v.wid, v.n)),
            None => break,
          }
          if items.len() > 4 * n + 8 {
            break;
          }
        }
      }
    }
    let uses_bs = api == "iter_bs" || api == "stream_bs";
    self.note_deadline(self.cfg.tti);
    self.finish(json!({"k":"it","api":api,"bs": if uses_bs { bs } else { 0 },"t0":t0,
      "refresh": api.starts_with("iter_snapshot"),
      "items":items.iter().map(|x| json!([x.0,x.1,x.2])).collect::<Vec<_>>()}), true);
  }

  fn snapshot_entries(js: &Value) -> Vec<Value> {
    let mut v: Vec<(u64, Value)> = js["entries"].as_array().unwrap().iter().map(|e| {
      let rem = match &e["ttl_remaining"] {
        Value::Null => -1i64,
        d => (d["secs"].as_u64().unwrap() * 1000 + d["nanos"].as_u64().unwrap() / 1_000_000) as i64,
      };
      // sub-millisecond remainders are reported in microseconds as a second field
      let rem_sub = match &e["ttl_remaining"] {
        Value::Null => 0,
        d => d["nanos"].as_u64().unwrap() % 1_000_000,
      };
      (e["key"].as_u64().unwrap(), json!([e["key"], e["value"]["wid"], e["value"]["n"], e["cost"], rem, rem_sub]))
    }).collect();
    v.sort_by_key(|x| x.0);
    v.into_iter().map(|x| x.1).collect()
  }

  fn snapshot(&mut self) {
    let a = self.asyn();
    mark(format!("to_snapshot async={a}"));
    let snap = if a { block_on(self.ac.to_snapshot()) } else { self.cache.to_snapshot() };
    let js = serde_json::to_value(&snap).expect("serialize snapshot");
    self.finish(json!({"k":"snap","h":Self::h(a),"entries":Self::snapshot_entries(&js),"cap":js["capacity"].as_u64().map(|c| if c == u64::MAX {0} else {c}),
      "shards":js["shards"]}), true);
  }

  fn restore(&mut self) {
    let a = self.asyn();
    mark(format!("to_snapshot + build_from_snapshot async={a}"));
    let snap = if a { block_on(self.ac.to_snapshot()) } else { self.cache.to_snapshot() };
    let text = serde_json::to_string(&snap).expect("serialize snapshot");
    let js: Value = serde_json::from_str(&text).unwrap();
    // the snapshot is restored as it is, after a JSON round trip (self-describing), or after a bincode round trip
    // (positional: a field that is skipped when serializing shifts everything behind it)
    let mode = self.rng.random_range(0..10);
    let snap2: CacheSnapshot<u32, Val> = if mode < 2 {
      snap
    } else if mode < 6 {
      serde_json::from_str(&text).expect("deserialize snapshot")
    } else {
      let bytes = bincode::serialize(&snap).expect("bincode: serialize snapshot");
      bincode::deserialize(&bytes).expect("bincode: deserialize snapshot")
    };
    // the old cache's pending notifications belong to the old cache: collect them first
    let old_notes = self.drain();
    let old_cr = self.cache.metrics().current_cost;
    // a user may wait between saving and loading
    let wait = if (self.cfg.ttl > 0 || !self.deadlines.is_empty()) && self.rng.random_bool(0.3) { [1u64, 5, 10, 30][self.rng.random_range(0..4)] } else { 0 };
    clock_advance_ms(wait);
    let sh = Shared { lis: Arc::new(Recorder::default()), loads: self.sh.loads.clone(), next_wid: self.sh.next_wid.clone() };
    let hseed = if self.rng.random_bool(0.5) { self.cfg.hseed } else { self.rng.random() };
    if a {
      let ac = make_builder(&self.cfg, &sh, hseed).build_from_snapshot_async(snap2).expect("restore");
      self.cache = ac.to_sync();
      self.ac = ac;
    } else {
      let cache = make_builder(&self.cfg, &sh, hseed).build_from_snapshot(snap2).expect("restore");
      self.ac = cache.to_async();
      self.cache = cache;
    }
    self.sh = sh;
    self.marker_seq = 0;
    self.carry_notes = old_notes.unwrap_or_default();
    // the restored cache's own idea of its content (costs, remaining lifetimes)
    let after = serde_json::to_value(&self.cache.to_snapshot()).expect("serialize snapshot");
    self.finish(json!({"k":"restore","h":Self::h(a),"rt":(mode >= 2),"wait":wait,"entries":Self::snapshot_entries(&js),
      "after":Self::snapshot_entries(&after),"old_cr":signed_cost(old_cr),
      "cap":js["capacity"].as_u64().map(|c| if c == u64::MAX {0} else {c}),"shards":js["shards"]}), true);
  }

  fn burst(&mut self) {
    // many inserts of distinct keys without any maintenance in between (F16)
    let n = self.rng.random_range(530..=590);
    let items: Vec<(u32, u32, u64)> = (0..n).map(|i| (1 + i as u32, self.wid(), 1)).collect();
    for (k, w, c) in &items {
      self.cache.insert(*k, Val { wid: *w, n: 0 }, *c);
    }
    self.writes_since_quiet += n;
    self.finish(json!({"k":"mins","h":"s","items":items.iter().map(|(k,w,c)| json!([k,w,c])).collect::<Vec<_>>()}), true);
  }

  pub fn run(&mut self) {
    let p = self.cfg.profile.clone();
    if p == "burst" {
      self.burst();
      if !self.aborted {
        self.quiet();
      }
      if !self.aborted {
        self.finish(json!({"k":"end"}), true);
      }
      return;
    }
    // weights: writes, removes, clear, compute, entry, reads, multiget, fetch_with, iterate, snapshot, restore, maint, quiet, adv
    let w: [u32; 14] = match p.as_str() {
      "ttl" => [14, 4, 1, 4, 6, 14, 4, 8, 6, 2, 1, 6, 2, 22],
      "cap" => [26, 6, 2, 3, 5, 10, 3, 4, 3, 1, 1, 10, 6, 2],
      "iter" => [24, 5, 1, 2, 3, 4, 2, 2, 22, 6, 5, 4, 2, 8],
      _ => [16, 6, 2, 5, 6, 12, 4, 6, 6, 2, 2, 7, 3, 10],
    };
    let mut w = w;
    if p == "ttl" && self.cfg.loader > 0 {
      w[7] = 18; // fetch_with has its own hit / stale / miss paths
    }
    let timed = self.cfg.ttl > 0 || self.cfg.tti > 0;
    let total: u32 = w.iter().sum();
    for _ in 0..self.cfg.ops {
      if self.aborted {
        return;
      }
      let mut x = self.rng.random_range(0..total);
      let mut i = 0;
      while x >= w[i] {
        x -= w[i];
        i += 1;
      }
      match i {
        0 => {
          if self.rng.random_bool(0.8) {
            self.insert()
          } else {
            self.multi_insert()
          }
        }
        1 => {
          if self.rng.random_bool(0.7) {
            self.remove()
          } else {
            self.multi_remove()
          }
        }
        2 => self.clear(),
        3 => self.compute(),
        4 => self.entry(),
        5 => self.read(),
        6 => self.multiget(),
        7 => {
          if self.cfg.loader > 0 {
            self.fetch_with()
          } else {
            self.read()
          }
        }
        8 => self.iterate(),
        9 => self.snapshot(),
        10 => self.restore(),
        11 => self.maint(),
        12 => self.quiet(),
        _ => {
          if timed || !self.deadlines.is_empty() {
            self.step_adv()
          } else {
            self.read()
          }
        }
      }
    }
    if !self.aborted {
      self.quiet();
    }
    if !self.aborted {
      self.finish(json!({"k":"end"}), true);
    }
  }
}

// ---- scripted histories (reproducers of known findings, replay of minimal cases) -------------

pub fn cfg_from_json(j: &Value, kf: &[String]) -> Cfg {
  let u = |k: &str, d: u64| j.get(k).and_then(|v| v.as_u64()).unwrap_or(d);
  let b = |k: &str| j.get(k).and_then(|v| v.as_bool()).unwrap_or(false);
  Cfg {
    profile: "script".into(),
    keys: u("keys", 4) as u32,
    shards: u("shards", 1) as usize,
    policy: j.get("policy").and_then(|v| v.as_str()).unwrap_or("default").to_string(),
    cap: u("cap", 0),
    ttl: u("ttl", 0),
    tti: u("tti", 0),
    grace: u("grace", 0),
    tick: u("tick", 10),
    wheel: u("wheel", 60) as usize,
    loader: u("loader", 0) as u8,
    mchance: b("mchance"),
    moi: b("moi"),
    paced: b("paced"),
    hseed: u("hseed", 7),
    costs: j.get("costs").and_then(|v| v.as_array()).map(|a| a.iter().filter_map(|x| x.as_u64()).collect()).unwrap_or(vec![1]),
    ops: 0,
    kf: kf.to_vec(),
  }
}

impl Sim {
  /// Steps are arrays: ["insert",k,cost] ["insert_ttl",k,cost,ttl] ["remove",k] ["clear"] ["get",k] ["fetch",k] ["peek",k]
  /// ["entry",k,cost] ["compute",k] ["fetch_with",k] ["adv",dt] ["maint"] ["quiet"] ["iter"] ["snap"] ["restore"] ["burst",n]
  pub fn run_script(&mut self, steps: &[Value]) {
    for st in steps {
      if self.aborted {
        return;
      }
      let a = st.as_array().expect("step");
      let op = a[0].as_str().expect("op");
      let arg = |i: usize| a.get(i).and_then(|v| v.as_u64()).unwrap_or(0);
      match op {
        "insert" | "insert_ttl" => {
          let (k, c, ttl, w) = (arg(1) as u32, arg(2), arg(3), self.wid());
          let v = Val { wid: w, n: 0 };
          if op == "insert" {
            self.cache.insert(k, v, c)
          } else {
            self.cache.insert_with_ttl(k, v, c, Duration::from_millis(ttl))
          }
          self.after_write(ttl);
          self.finish(json!({"k":"ins","api": if op == "insert" {"insert"} else {"insert_with_ttl"},"h":"s","key":k,"wid":w,"cost":c,"ttl":ttl}), true);
        }
        "remove" => {
          let k = arg(1) as u32;
          let r = self.cache.remove(&k);
          let rec = json!({"k":"rem","api":"remove","h":"s","key":k,"hit":r.is_some(),"res":pair(&r)});
          drop(r);
          self.finish(rec, true);
        }
        "clear" => {
          self.cache.clear();
          self.finish(json!({"k":"clear","h":"s"}), true);
        }
        "get" | "fetch" | "peek" => {
          let k = arg(1) as u32;
          let res = match op {
            "get" => self.cache.get(&k, |v| json!([v.wid, v.n])).unwrap_or(json!([0, 0])),
            "fetch" => pair(&self.cache.fetch(&k)),
            _ => pair(&self.cache.peek(&k)),
          };
          self.finish(json!({"k":"rd","api":op,"h":"s","key":k,"res":res}), true);
        }
        "entry" => {
          let (k, c, w) = (arg(1) as u32, arg(2), self.wid());
          let r = self.cache.entry(k).or_insert(Val { wid: w, n: 0 }, c);
          let res = json!([r.wid, r.n]);
          drop(r);
          self.after_write(0);
          self.finish(json!({"k":"ent","api":"or_insert","h":"s","key":k,"wid":w,"cost":c,"res":res,"called":false,"lazy":false}), true);
        }
        "compute" => {
          let k = arg(1) as u32;
          let r = self.cache.try_compute_val(&k, |v: &mut Val| {
            v.n += 1;
            (v.wid, v.n)
          });
          let (res, val) = match r {
            ComputeResult::Ok((w, n)) => ("ok", json!([w, n])),
            ComputeResult::Fail => ("fail", json!([0, 0])),
            ComputeResult::NotFound => ("nf", json!([0, 0])),
          };
          self.finish(json!({"k":"comp","api":"try_compute_val","h":"s","key":k,"res":res,"val":val,"hasval":true}), true);
        }
        "fetch_with" => self.fetch_with_key(arg(1) as u32, false),
        "adv" => self.advance(arg(1)),
        "maint" => {
          self.cache.run_maintenance();
          self.finish(json!({"k":"maint","h":"s"}), true);
        }
        "quiet" => self.quiet(),
        "iter" => {
          let t0 = clock_now_ms();
          let items: Vec<Value> = self.cache.iter().map(|(k, v)| json!([k, v.wid, v.n])).collect();
          self.finish(json!({"k":"it","api":"iter","bs":0,"t0":t0,"refresh":false,"items":items}), true);
        }
        "snap" => self.snapshot(),
        "restore" => self.restore(),
        "burst" => {
          let n = arg(1) as usize;
          let items: Vec<(u32, u32, u64)> = (0..n).map(|i| (1 + i as u32, self.wid(), 1)).collect();
          for (k, w, c) in &items {
            self.cache.insert(*k, Val { wid: *w, n: 0 }, *c);
          }
          self.writes_since_quiet += n;
          self.finish(json!({"k":"mins","h":"s","items":items.iter().map(|(k,w,c)| json!([k,w,c])).collect::<Vec<_>>()}), true);
        }
        _ => panic!("unknown script op {op}"),
      }
    }
    if !self.aborted {
      self.finish(json!({"k":"end"}), true);
    }
  }
}

#[allow(dead_code)]
pub fn unused(_: Map<String, Value>) {}
