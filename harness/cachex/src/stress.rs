//! cache-stress: free-running threads on one unbounded cache without expiry (nothing may be
//! forgotten), released together by a barrier.  Every call is logged with a global sequence
//! (`call` before it starts, `ret` after it returned); the history is validated by TLC with
//! silent linearization steps (specs/cache/CacheStressTrace.tla): every key must behave as an
//! atomic register, no compute increment may be lost, or_insert must insert at most once.
//!
//! The result of a call is also copied into its `call` record (a prophecy field filled in
//! after the round), so that the trace spec can apply the Layer A outcome operator of the
//! call at its linearization point; the `ret` record still has to come, in order.

use crate::rt::*;
use fibre_cache::error::ComputeResult;
use fibre_cache::{Cache, CacheBuilder};
use parking_lot::Mutex;
use rand::rngs::StdRng;
use rand::{Rng, SeedableRng};
use serde_json::{json, Value};
use std::collections::HashMap;
use std::io::Write;
use std::sync::atomic::{AtomicBool, AtomicU32, Ordering};
use std::sync::{Arc, Barrier};
use std::time::{Duration, Instant};

type C = Cache<u32, Val, FixedState>;

struct Log {
  recs: Mutex<Vec<Value>>,
  next_o: AtomicU32,
  next_w: AtomicU32,
}

impl Log {
  fn call(&self, th: usize, mut rec: Value) -> u32 {
    let o = self.next_o.fetch_add(1, Ordering::SeqCst) + 1;
    let m = rec.as_object_mut().unwrap();
    m.insert("k".into(), json!("call"));
    m.insert("o".into(), json!(o));
    m.insert("th".into(), json!(th));
    self.recs.lock().push(rec);
    o
  }
  fn ret(&self, o: u32, res: Value) {
    self.recs.lock().push(json!({"k":"ret","o":o,"p":res}));
  }
}

fn pairv(v: &Option<Arc<Val>>) -> Value {
  match v {
    Some(v) => json!([v.wid, v.n]),
    None => json!([0, 0]),
  }
}

fn worker(cache: C, log: Arc<Log>, th: usize, seed: u64, keys: u32, ops: usize) {
  let mut rng = StdRng::seed_from_u64(seed);
  let ac = cache.to_async();
  for _ in 0..ops {
    let k = rng.random_range(1..=keys);
    let a = rng.random_bool(0.3);
    let h = if a { "a" } else { "s" };
    match rng.random_range(0..100) {
      0..=29 => {
        // read-modify-write
        let api = if rng.random_bool(0.7) { "compute_val" } else { "try_compute_val" };
        let o = log.call(th, json!({"op":"comp","api":api,"h":h,"key":k,"hasval":true}));
        let f = |v: &mut Val| {
          v.n += 1;
          (v.wid, v.n)
        };
        let r = match (api, a) {
          ("compute_val", false) => cache.compute_val(&k, f),
          ("compute_val", true) => block_on(ac.compute_val(&k, f)),
          (_, false) => cache.try_compute_val(&k, f),
          (_, true) => block_on(ac.try_compute_val(&k, f)),
        };
        let p = match r {
          ComputeResult::Ok((w, n)) => json!({"res":"ok","val":[w, n]}),
          ComputeResult::Fail => json!({"res":"fail","val":[0, 0]}),
          ComputeResult::NotFound => json!({"res":"nf","val":[0, 0]}),
        };
        log.ret(o, p);
      }
      30..=49 => {
        let w = log.next_w.fetch_add(1, Ordering::SeqCst) + 1;
        let o = log.call(th, json!({"op":"ent","api":"or_insert_with","h":h,"key":k,"wid":w,"cost":1,"lazy":true}));
        let called = AtomicBool::new(false);
        let mk = || {
          called.store(true, Ordering::SeqCst);
          Val { wid: w, n: 0 }
        };
        let r = if a { block_on(ac.entry(k)).or_insert_with(mk, 1) } else { cache.entry(k).or_insert_with(mk, 1) };
        let p = json!({"res":[r.wid, r.n],"called":called.load(Ordering::SeqCst)});
        drop(r);
        log.ret(o, p);
      }
      50..=59 => {
        let w = log.next_w.fetch_add(1, Ordering::SeqCst) + 1;
        let o = log.call(th, json!({"op":"ins","api":"insert","h":h,"key":k,"wid":w,"cost":1,"ttl":0}));
        if a {
          block_on(ac.insert(k, Val { wid: w, n: 0 }, 1))
        } else {
          cache.insert(k, Val { wid: w, n: 0 }, 1)
        }
        log.ret(o, json!({}));
      }
      60..=69 => {
        let o = log.call(th, json!({"op":"rem","api":"remove","h":h,"key":k}));
        let r = if a { block_on(ac.remove(&k)) } else { cache.remove(&k) };
        let p = json!({"hit":r.is_some(),"res":pairv(&r)});
        drop(r);
        log.ret(o, p);
      }
      _ => {
        let api = ["get", "fetch", "peek"][rng.random_range(0..3)];
        let o = log.call(th, json!({"op":"rd","api":api,"h":h,"key":k}));
        let res = match (api, a) {
          ("get", false) => cache.get(&k, |v| json!([v.wid, v.n])).unwrap_or(json!([0, 0])),
          ("get", true) => block_on(ac.get(&k, |v| json!([v.wid, v.n]))).unwrap_or(json!([0, 0])),
          ("fetch", false) => pairv(&cache.fetch(&k)),
          ("fetch", true) => pairv(&block_on(ac.fetch(&k))),
          (_, false) => pairv(&cache.peek(&k)),
          (_, true) => pairv(&block_on(ac.peek(&k))),
        };
        log.ret(o, json!({"res":res}));
      }
    }
  }
}

fn round(seed: u64, hid: usize, threads: usize, ops: usize) -> (Vec<String>, &'static str) {
  let mut rng = StdRng::seed_from_u64(seed);
  let keys: u32 = rng.random_range(1..=2);
  let shards = [1usize, 2, 4][rng.random_range(0..3)];
  clock_set_ms(crate::seq::T0);
  let cache: C = CacheBuilder::<u32, Val, FixedState>::new()
    .hasher(FixedState(rng.random()))
    .shards(shards)
    .janitor_tick_interval(Duration::from_millis(5))
    .build()
    .expect("build");
  let log = Arc::new(Log { recs: Mutex::new(Vec::new()), next_o: AtomicU32::new(0), next_w: AtomicU32::new(0) });
  let barrier = Arc::new(Barrier::new(threads + 1));
  let stop = Arc::new(AtomicBool::new(false));
  let mut hs = Vec::new();
  for th in 0..threads {
    let (c, l, b) = (cache.clone(), log.clone(), barrier.clone());
    let s = rng.random();
    hs.push(std::thread::spawn(move || {
      b.wait();
      let r = std::panic::catch_unwind(std::panic::AssertUnwindSafe(|| worker(c, l.clone(), th, s, keys, ops)));
      if r.is_err() {
        l.recs.lock().push(json!({"k":"panic","msg":"worker panicked"}));
      }
    }));
  }
  // maintenance runs alongside (nothing to evict or expire: it must not disturb anything)
  let m = {
    let (c, b, st) = (cache.clone(), barrier.clone(), stop.clone());
    std::thread::spawn(move || {
      b.wait();
      while !st.load(Ordering::SeqCst) {
        c.run_maintenance();
        std::thread::yield_now();
      }
    })
  };
  let deadline = Instant::now() + Duration::from_secs(20);
  let mut status = "ok";
  for h in hs {
    while !h.is_finished() && Instant::now() < deadline {
      std::thread::sleep(Duration::from_micros(200));
    }
    if h.is_finished() {
      let _ = h.join();
    } else {
      status = "hung";
    }
  }
  stop.store(true, Ordering::SeqCst);
  if status == "ok" {
    let _ = m.join();
    // quiescent final reads
    for k in 1..=keys {
      let o = log.call(99, json!({"op":"rd","api":"fetch","h":"s","key":k}));
      let r = pairv(&cache.fetch(&k));
      log.ret(o, json!({"res":r}));
    }
  }
  let mut recs = std::mem::take(&mut *log.recs.lock());
  if status == "hung" {
    recs.push(json!({"k":"hung","what":"a worker did not finish"}));
  }
  // copy every result into its call record (prophecy field)
  let mut results: HashMap<u64, Value> = HashMap::new();
  for r in &recs {
    if r["k"] == "ret" {
      results.insert(r["o"].as_u64().unwrap(), r["p"].clone());
    }
  }
  let mut out = vec![json!({"k":"new","kf":[],"hid":hid,"keys":keys,"shards":shards,"threads":threads,"profile":"stress","policy":"default",
    "cap":0,"ttl":0,"tti":0,"grace":0,"tick":0,"t":crate::seq::T0,"seed":(seed % 1_000_000_000) as u32}).to_string()];
  for mut r in recs {
    if r["k"] == "call" {
      let o = r["o"].as_u64().unwrap();
      match results.get(&o) {
        Some(p) => {
          let m = r.as_object_mut().unwrap();
          for (k, v) in p.as_object().unwrap() {
            m.insert(k.clone(), v.clone());
          }
          m.insert("done".into(), json!(true));
        }
        None => {
          r.as_object_mut().unwrap().insert("done".into(), json!(false));
        }
      }
    } else if r["k"] == "ret" {
      r.as_object_mut().unwrap().remove("p");
    }
    out.push(r.to_string());
  }
  out.push(json!({"k":"end"}).to_string());
  (out, status)
}

pub fn run(m: &HashMap<String, String>) {
  let get = |k: &str, d: u64| m.get(k).and_then(|v| v.parse().ok()).unwrap_or(d);
  let seed = get("seed", 1);
  let rounds = get("rounds", 20) as usize;
  let threads = get("threads", 3) as usize;
  let ops = get("ops", 6) as usize;
  let outp = m.get("out").cloned().unwrap_or_else(|| "/dev/stdout".into());
  let mut file = std::io::BufWriter::new(std::fs::File::create(&outp).expect("out file"));
  let mut master = StdRng::seed_from_u64(seed);
  std::panic::set_hook(Box::new(|_| {}));
  let t0 = Instant::now();
  let (mut records, mut hung) = (0usize, 0usize);
  for i in 0..rounds {
    let (recs, st) = round(master.random(), i, threads, ops);
    if st == "hung" {
      hung += 1;
    }
    records += recs.len();
    for r in recs {
      writeln!(file, "{}", r).unwrap();
    }
  }
  file.flush().unwrap();
  println!("{}", json!({"driver":"cache-stress","seed":seed,"histories":rounds,"threads":threads,"records":records,"hung":hung,
    "wall_ms":t0.elapsed().as_millis() as u64}));
}
