//! cache-stress: placeholder (filled in below once the sequential driver is solid).
use std::collections::HashMap;
pub fn run(_m: &HashMap<String, String>) {
  eprintln!("cache-stress: not implemented");
  std::process::exit(2);
}
